#!/bin/bash
# Applies every seeded defect under /verif/seeded/<id>/patch.diff to /repo in turn, runs the quick check of the
# property it was written against (the id without a trailing letter; extra checks can be given in meta.json's
# "detection" keys) and restores /repo and the evidence files afterwards. Prints one line per seed:
#   <seed> <check> rc=<0|1> input|nfi|MISSED
# NOT a registered check (it edits /repo temporarily; it holds /tmp/orch/repo.lock while it does).
# Usage: tools/seed_regression.sh [seed ...]
cd "$(dirname "$0")/.." || exit 2
mkdir -p /tmp/orch; exec 9>/tmp/orch/repo.lock; flock 9
if [ -n "$(git -C /repo status --short | grep -v '^??')" ]; then echo "/repo is not clean"; exit 2; fi
seeds=("$@"); [ ${#seeds[@]} -eq 0 ] && seeds=($(ls seeded))
bak=$(mktemp -d /tmp/evbak.XXXXXX); cp evidence/*.json "$bak"/
missed=0
for s in "${seeds[@]}"; do
  c=${s%[a-z]}
  if ! git -C /repo apply "$PWD/seeded/$s/patch.diff" 2>/dev/null; then echo "$s $c patch does not apply"; missed=1; continue; fi
  out=$(timeout 1800 ./check "$c" 2>&1); rc=$?
  git -C /repo checkout -- .
  if [ $rc -eq 0 ]; then v=MISSED; missed=1
  elif echo "$out" | grep "VIOLATION" | grep -qv "no-failing-input-found"; then v=input
  elif echo "$out" | grep -q "VIOLATION"; then v=nfi
  else v="rc=$rc without VIOLATION line"; missed=1; fi
  echo "$s $c rc=$rc $v $(echo "$out" | grep '^#' | head -1 | cut -c1-160)"
done
cp "$bak"/*.json evidence/
rm -rf "$bak"
# a seeded run rewrites the regenerated model files (coq/theories/Gen/*.v) from the seeded source: restore them
git checkout -- coq/theories/Gen
exit $missed
