#!/bin/bash
# Re-checks every compiled Properties module (and everything it depends on) with Coq's independent
# checker coqchk and prints the axiom summary of each. Works on a private copy of the .vo files so
# that a concurrent build cannot change them mid-run. Not part of the registered checks (takes
# ~35 s per module); run after `./check --setup`. Usage: tools/coqchk_all.sh [module ...]
set -u
here=$(cd "$(dirname "$0")/.." && pwd)
tmp=$(mktemp -d /tmp/coqchk.XXXXXX)
trap 'rm -rf "$tmp"' EXIT
rsync -a --include='*/' --include='*.vo' --exclude='*' "$here/coq/theories" "$tmp/"
cd "$tmp"
mods=("$@")
if [ ${#mods[@]} -eq 0 ]; then
  for f in theories/Properties/*.vo; do mods+=("$(basename "$f" .vo)"); done
fi
bad=0
for m in "${mods[@]}"; do
  s=$(date +%s)
  timeout 3000 coqchk -o -silent -Q theories EC "EC.Properties.$m" > "chk_$m.log" 2>&1; rc=$?
  ax=$(awk '/^\* Axioms:/{f=1} f&&/^\* Constants/{f=0} f' "chk_$m.log" | tr -s ' \n' ' ')
  echo "EC.Properties.$m rc=$rc $(( $(date +%s)-s ))s $ax"
  [ $rc -ne 0 ] && { bad=1; tail -5 "chk_$m.log"; }
done
exit $bad
