"""Front end of gen/rust2coq.py: lexer, item scanner and parser for a small subset of Rust.
Everything outside the subset raises ParseError (never guessed)."""
import re


class ParseError(Exception):
    pass


# ---------------------------------------------------------------------------
# lexer

_NUM = r"0b[01_]+|0x[0-9a-fA-F_]+|0o[0-7_]+|\d[\d_]*"
_SUF = r"(?:[iu](?:8|16|32|64|128|size))?"
_TOK = re.compile(
    r"(?P<ws>\s+)"
    r"|(?P<lc>//[^\n]*)"
    r"|(?P<str>b?\"(?:\\.|[^\"\\])*\")"
    r"|(?P<chr>b?'(?:\\.|[^'\\])')"
    r"|(?P<life>'[A-Za-z_]\w*)"
    r"|(?P<num>(?:" + _NUM + r")" + _SUF + r")(?![A-Za-z_0-9])"
    r"|(?P<id>[A-Za-z_]\w*)"
    r"|(?P<op>::|->|=>|==|!=|<=|>=|&&|\|\||<<=|>>=|<<|>>|\+=|-=|\*=|/=|%=|\|=|&=|\^=|\.\.=|\.\.\.|\.\.|[-+*/%^!&|=<>@.,;:#$?~()\[\]{}])",
    re.S)


class Tok:
    __slots__ = ("k", "s", "line")

    def __init__(self, k, s, line):
        self.k, self.s, self.line = k, s, line

    def __repr__(self):
        return f"{self.s!r}@{self.line}"


def lex(src):
    """Tokens without whitespace and comments (comments and layout never reach the translator)."""
    toks = []
    i, n, line = 0, len(src), 1
    while i < n:
        if src.startswith("/*", i):
            depth, j = 1, i + 2
            while depth > 0:
                if j >= n:
                    raise ParseError("unterminated block comment")
                if src.startswith("/*", j):
                    depth += 1
                    j += 2
                elif src.startswith("*/", j):
                    depth -= 1
                    j += 2
                else:
                    j += 1
            line += src.count("\n", i, j)
            i = j
            continue
        m = re.compile(r"b?r(#*)\"").match(src, i)
        if m:
            end = src.find('"' + m.group(1), m.end())
            if end < 0:
                raise ParseError("unterminated raw string")
            j = end + 1 + len(m.group(1))
            toks.append(Tok("str", src[i:j], line))
            line += src.count("\n", i, j)
            i = j
            continue
        m = _TOK.match(src, i)
        if not m:
            raise ParseError(f"line {line}: cannot tokenize {src[i:i + 20]!r}")
        k = m.lastgroup
        if k not in ("ws", "lc"):
            toks.append(Tok(k, m.group(), line))
        line += m.group().count("\n")
        i = m.end()
    return toks


OPEN = {"(": ")", "[": "]", "{": "}"}


def skip_group(toks, i):
    """toks[i] is an opening bracket; returns the index just after its closing bracket."""
    stack = [OPEN[toks[i].s]]
    i += 1
    while stack:
        if i >= len(toks):
            raise ParseError("unbalanced brackets")
        s = toks[i].s
        if toks[i].k == "op" and s in OPEN:
            stack.append(OPEN[s])
        elif toks[i].k == "op" and s in (")", "]", "}"):
            if s != stack.pop():
                raise ParseError(f"line {toks[i].line}: mismatched bracket {s}")
        i += 1
    return i


# ---------------------------------------------------------------------------
# item scanner: structs, enums, impl blocks (consts, fns).  Bodies are kept as token ranges.

class Items:
    def __init__(self, path):
        self.path = path
        self.structs = {}   # name -> {"kind": "tuple"|"record"|"unit", "fields": [(name|None, type_tokens)], "derives": [...]}
        self.enums = {}     # name -> {"variants": [(name, "unit"|"tuple"|"record", [type_tokens])], "derives": [...]}
        self.fns = {}       # (type, name) -> {"params": toks, "ret": toks|None, "body": toks, "trait": str|None}
        self.consts = {}    # (type, name) -> {"type": toks, "expr": toks}


def _attrs(toks, i, derives):
    while i < len(toks) and toks[i].s == "#":
        j = i + 1
        if j < len(toks) and toks[j].s == "!":
            j += 1
        if j >= len(toks) or toks[j].s != "[":
            raise ParseError(f"line {toks[i].line}: stray #")
        e = skip_group(toks, j)
        inner = toks[j + 1:e - 1]
        if inner and inner[0].s == "derive":
            derives += [t.s for t in inner[2:-1] if t.k == "id"]
        i = e
    return i


def _vis(toks, i):
    if i < len(toks) and toks[i].s == "pub":
        i += 1
        if i < len(toks) and toks[i].s == "(":
            i = skip_group(toks, i)
    return i


def _split_commas(toks):
    """Splits a token list at top-level commas (angle brackets counted for types)."""
    parts, cur, depth, ang = [], [], 0, 0
    for t in toks:
        if t.k == "op" and t.s in OPEN:
            depth += 1
        elif t.k == "op" and t.s in (")", "]", "}"):
            depth -= 1
        elif t.k == "op" and t.s == "<":
            ang += 1
        elif t.k == "op" and t.s == ">":
            ang -= 1
        elif t.k == "op" and t.s == ">>":
            ang -= 2
        if t.k == "op" and t.s == "," and depth == 0 and ang <= 0:
            parts.append(cur)
            cur = []
        else:
            cur.append(t)
    if cur:
        parts.append(cur)
    return parts


def _field(toks):
    """[attrs] [vis] [name :] type -> (name|None, type tokens)"""
    i = _attrs(toks, 0, [])
    i = _vis(toks, i)
    if i + 1 < len(toks) and toks[i].k == "id" and toks[i + 1].s == ":":
        return toks[i].s, toks[i + 2:]
    return None, toks[i:]


def scan_items(path):
    src = open(path).read()
    toks = lex(src)
    it = Items(path)
    _scan(toks, 0, len(toks), it, None, None)
    return it


def _scan(toks, i, end, it, impl_type, impl_trait):
    while i < end:
        derives = []
        i = _attrs(toks, i, derives)
        if i >= end:
            break
        i = _vis(toks, i)
        t = toks[i]
        if t.k == "id" and t.s == "struct" and impl_type is None:
            name = toks[i + 1].s
            j = i + 2
            if toks[j].s == "<":
                while toks[j].s not in ("(", "{", ";"):
                    j += 1
            if toks[j].s == "(":
                e = skip_group(toks, j)
                it.structs[name] = {"kind": "tuple", "derives": derives,
                                    "fields": [_field(p) for p in _split_commas(toks[j + 1:e - 1])]}
                i = e
                while toks[i].s != ";":
                    i += 1
                i += 1
            elif toks[j].s == "{":
                e = skip_group(toks, j)
                it.structs[name] = {"kind": "record", "derives": derives,
                                    "fields": [_field(p) for p in _split_commas(toks[j + 1:e - 1])]}
                i = e
            else:
                it.structs[name] = {"kind": "unit", "derives": derives, "fields": []}
                i = j + 1
            continue
        if t.k == "id" and t.s == "enum" and impl_type is None:
            name = toks[i + 1].s
            j = i + 2
            while toks[j].s != "{":
                j += 1
            e = skip_group(toks, j)
            vs = []
            for p in _split_commas(toks[j + 1:e - 1]):
                k = _attrs(p, 0, [])
                vn = p[k].s
                if k + 1 < len(p) and p[k + 1].s == "(":
                    vs.append((vn, "tuple", [_field(q)[1] for q in _split_commas(p[k + 2:-1])]))
                elif k + 1 < len(p) and p[k + 1].s == "{":
                    vs.append((vn, "record", []))
                else:
                    vs.append((vn, "unit", []))
            it.enums[name] = {"variants": vs, "derives": derives}
            i = e
            continue
        if t.k == "id" and t.s == "impl" and impl_type is None:
            j = i + 1
            if toks[j].s == "<":
                # generic impl<..> Name<..> { }: the type parameters are table types of the target (e.g. K, V)
                depth = 0
                while True:
                    if toks[j].s == "<":
                        depth += 1
                    elif toks[j].s == ">":
                        depth -= 1
                    elif toks[j].s == ">>":
                        depth -= 2
                    j += 1
                    if depth <= 0:
                        break
            hdr = []
            depth = 0
            while toks[j].s != "{":
                if toks[j].s == "<":
                    depth += 1
                elif toks[j].s == ">":
                    depth -= 1
                elif toks[j].s == ">>":
                    depth -= 2
                elif depth == 0:
                    hdr.append(toks[j])
                j += 1
            e = skip_group(toks, j)
            names = [x.s for x in hdr]
            if "for" in names:
                k = names.index("for")
                trait = "".join(names[:k])
                ty = names[k + 1:]
                if "where" in ty:
                    ty = ty[:ty.index("where")]
            else:
                trait, ty = None, names
                if "where" in ty:
                    ty = ty[:ty.index("where")]
            if any(x in ("<", "&", "where") for x in ty):
                i = e
                continue
            _scan(toks, j + 1, e - 1, it, ty[-1], trait)
            i = e
            continue
        if t.k == "id" and t.s == "const" and impl_type is not None and toks[i + 1].k == "id" and toks[i + 2].s == ":":
            name = toks[i + 1].s
            j = i + 3
            ty = []
            while toks[j].s != "=":
                ty.append(toks[j])
                j += 1
            j += 1
            ex = []
            while toks[j].s != ";":
                if toks[j].k == "op" and toks[j].s in OPEN:
                    e2 = skip_group(toks, j)
                    ex += toks[j:e2]
                    j = e2
                else:
                    ex.append(toks[j])
                    j += 1
            it.consts[(impl_type, name)] = {"type": ty, "expr": ex}
            i = j + 1
            continue
        if t.k == "id" and t.s in ("fn", "async", "unsafe") and (impl_type is not None or (i + 1 < end and toks[i + 1].k == "id")):
            if t.s == "async" and toks[i + 1].s == "fn":
                i += 1          # async fn: scanned like a fn; `.await` is transparent for the translator's state targets
                t = toks[i]
            if t.s != "fn":
                # unsafe fn: skip
                j = i
                while toks[j].s != "{" and toks[j].s != ";":
                    j += 1 if toks[j].s not in OPEN else 0
                    if toks[j].k == "op" and toks[j].s in ("(", "["):
                        j = skip_group(toks, j)
                i = skip_group(toks, j) if toks[j].s == "{" else j + 1
                continue
            name = toks[i + 1].s
            j = i + 2
            generic = False
            if toks[j].s == "<":
                generic = True
                depth = 0
                while True:
                    if toks[j].s == "<":
                        depth += 1
                    elif toks[j].s == ">":
                        depth -= 1
                    elif toks[j].s == ">>":
                        depth -= 2
                    j += 1
                    if depth <= 0:
                        break
            if toks[j].s != "(":
                raise ParseError(f"{it.path}: line {toks[j].line}: expected ( after fn {name}")
            e = skip_group(toks, j)
            params = toks[j + 1:e - 1]
            j = e
            ret = None
            if toks[j].s == "->":
                j += 1
                ret = []
                while toks[j].s not in ("{", "where", ";"):
                    if toks[j].k == "op" and toks[j].s in ("(", "["):
                        e2 = skip_group(toks, j)
                        ret += toks[j:e2]
                        j = e2
                    else:
                        ret.append(toks[j])
                        j += 1
            while toks[j].s not in ("{", ";"):
                j += 1
            if toks[j].s == ";":
                i = j + 1
                continue
            e = skip_group(toks, j)
            if not generic:
                key = (impl_type or "", name)
                if impl_trait is not None:
                    key = (impl_type, impl_trait + "::" + name)
                it.fns[key] = {"params": params, "ret": ret, "body": toks[j + 1:e - 1], "trait": impl_trait,
                               "line": t.line}
            i = e
            continue
        # anything else: skip one token / one bracket group
        if t.k == "op" and t.s in OPEN:
            i = skip_group(toks, i)
        else:
            i += 1


# ---------------------------------------------------------------------------
# parser (types, patterns, expressions, statements)

SINT_BITS = {"i8": 8, "i16": 16, "i32": 32, "i64": 64, "isize": 64, "i128": 128}
INT_BITS = {"u8": 8, "u16": 16, "u32": 32, "u64": 64, "usize": 64, "u128": 128}
KEYWORDS = {"let", "if", "else", "match", "return", "while", "for", "in", "loop", "break", "continue", "fn",
            "mut", "ref", "as", "true", "false", "move", "struct", "impl", "pub", "use", "const", "static"}


class Parser:
    def __init__(self, toks, what="?"):
        self.t, self.i, self.what = toks, 0, what

    # -- helpers
    def peek(self, o=0):
        j = self.i + o
        return self.t[j].s if j < len(self.t) else None

    def kind(self, o=0):
        j = self.i + o
        return self.t[j].k if j < len(self.t) else None

    def err(self, msg):
        ln = self.t[self.i].line if self.i < len(self.t) else (self.t[-1].line if self.t else 0)
        raise ParseError(f"{self.what}: line {ln}: {msg}")

    def eat(self, s=None):
        if self.i >= len(self.t):
            self.err(f"expected {s}, got end of input")
        tok = self.t[self.i]
        if s is not None and tok.s != s:
            self.err(f"expected {s!r}, got {tok.s!r}")
        self.i += 1
        return tok.s

    def at_end(self):
        return self.i >= len(self.t)

    def skip_attrs(self):
        while self.peek() == "#":
            j = self.i + 1
            if self.t[j].s != "[":
                self.err("stray #")
            self.i = skip_group(self.t, j)

    # -- types
    def type(self):
        s = self.peek()
        if s == "&" or s == "&&":
            self.eat()
            if self.kind() == "life":
                self.err("lifetimes are outside the subset")
            if self.peek() == "mut":
                self.eat()
                return ("refmut", self.type())
            return self.type()
        if s == "(":
            self.eat()
            ts = []
            while self.peek() != ")":
                ts.append(self.type())
                if self.peek() == ",":
                    self.eat()
            self.eat(")")
            if not ts:
                return ("unit",)
            return ts[0] if len(ts) == 1 else ("tuple", ts)
        if s == "[":
            self.eat()
            el = self.type()
            if self.peek() == ";":
                self.eat()
                self.expr()
            self.eat("]")
            return ("list", el)
        if self.kind() != "id":
            self.err(f"unexpected {s!r} in type")
        if s == "impl":
            # impl IntoIterator<Item = T> / impl Iterator<Item = T>: a sequence of T
            self.eat()
            tr = self.eat()
            if tr not in ("IntoIterator", "Iterator") or self.peek() != "<":
                self.err("`impl Trait` types other than iterators are outside the subset")
            self.eat("<")
            self.eat("Item")
            self.eat("=")
            el = self.type()
            self.eat(">")
            return ("list", el)
        segs = [self.eat()]
        while self.peek() == "::":
            self.eat()
            if self.kind() != "id":
                self.err("unexpected token in type path")
            segs.append(self.eat())
        args = []
        if self.peek() == "<":
            self.eat()
            while True:
                args.append(self.type())
                if self.peek() == ",":
                    self.eat()
                    if self.peek() in (">", ">>"):
                        break
                    continue
                break
            if self.peek() == ">>":
                self.t[self.i] = Tok("op", ">", self.t[self.i].line)
            else:
                self.eat(">")
        n = segs[-1]
        if n in INT_BITS and not args:
            return ("int", INT_BITS[n])
        if n in SINT_BITS and not args:
            return ("sint", SINT_BITS[n])
        if n in ("f32", "f64"):
            self.err(f"type {n} is outside the subset")
        if n == "bool":
            return ("bool",)
        if n == "BitVec" and not args:
            return ("list", ("bool",))      # bit_vec::BitVec: a sequence of bools
        if n == "_":
            return ("hole", [None])
        if n == "Option" and len(args) == 1:
            return ("option", args[0])
        if n in ("Vec", "VecDeque", "HashSet", "BTreeSet") and len(args) == 1:
            return ("list", args[0])
        if n in ("HashMap", "BTreeMap") and len(args) == 2:
            return ("map", n, args[0], args[1])
        if n == "Result" and len(args) == 2:
            return ("result", args[0], args[1])
        if n == "Result" and len(args) == 1 and "anyhow" in segs:
            return ("result", args[0], ("named", "anyhow"))
        if n == "Result" and len(args) == 1 and "ctx" in segs:
            return ("result", args[0], ("named", "CtxError"))
        if n == "Box" and len(args) == 1:
            return args[0]
        if n == "Signed" and len(args) == 1 and args[0][0] == "named":
            return ("named", "Signed_" + args[0][1])      # instances of the generic struct are separate table types
        if n == "Arc" and len(args) == 1:
            return args[0]
        if args:
            return ("gnamed", n, args)      # usable only through a type-table entry for `n` (e.g. a channel endpoint)
        return ("named", n)

    # -- patterns
    def pattern(self):
        s = self.peek()
        if s == "_":
            self.eat()
            return ("pwild",)
        if s == "&":
            self.eat()
            return self.pattern()
        if s == "(":
            self.eat()
            ps = []
            while self.peek() != ")":
                ps.append(self.pattern())
                if self.peek() == ",":
                    self.eat()
            self.eat(")")
            return ps[0] if len(ps) == 1 else ("ptuple", ps)
        if s in ("true", "false"):
            self.eat()
            return ("pbool", s == "true")
        if self.kind() == "num":
            return ("plit", parse_int(self.eat())[0])
        if s in ("ref", "mut"):
            self.eat()
            if self.peek() == "mut":
                self.err("`ref mut` patterns are outside the subset")
            return ("pbind", self.eat())
        if self.kind() == "id":
            segs = [self.eat()]
            while self.peek() == "::":
                self.eat()
                segs.append(self.eat())
            if self.peek() == "(":
                self.eat()
                ps = []
                while self.peek() != ")":
                    ps.append(self.pattern())
                    if self.peek() == ",":
                        self.eat()
                self.eat(")")
                return ("pctor", segs, ps)
            if self.peek() == "{":
                self.err("struct patterns are outside the subset")
            if len(segs) == 1 and segs[0][0].islower():
                if self.peek() == "@":
                    self.eat()
                    return ("pat_at", segs[0], self.pattern())
                return ("pbind", segs[0])
            return ("ppath", segs)
        self.err(f"unexpected {s!r} in pattern")

    # -- expressions
    BIN = [("||",), ("&&",), ("==", "!=", "<", ">", "<=", ">="), ("|",), ("^",), ("&",), ("<<", ">>"),
           ("+", "-"), ("*", "/", "%")]

    def expr(self, no_struct=False):
        e = self.binary(0, no_struct)
        s = self.peek()
        if s in ("=", "+=", "-=", "*=", "/=", "%=", "|=", "&=", "^=", "<<=", ">>="):
            self.eat()
            r = self.expr(no_struct)
            return ("assign", s, e, r)
        if s in ("..", "..="):
            # ranges: parsed (pinnable), never translated
            self.eat()
            hi = None
            if self.peek() not in ("]", ")", "}", ",", ";", None):
                hi = self.binary(0, no_struct)
            return ("range", s, e, hi)
        return e

    def binary(self, lvl, ns):
        if lvl == len(self.BIN):
            return self.cast(ns)
        l = self.binary(lvl + 1, ns)
        while self.peek() in self.BIN[lvl] and self.kind() == "op":
            op = self.eat()
            r = self.binary(lvl + 1, ns)
            if lvl == 2 and self.peek() in self.BIN[2]:
                self.err("chained comparison")
            l = ("binary", op, l, r)
        return l

    def cast(self, ns):
        e = self.unary(ns)
        while self.peek() == "as":
            self.eat()
            e = ("cast", e, self.type())
        return e

    def unary(self, ns):
        s = self.peek()
        if self.kind() == "op" and s in ("!", "-", "*"):
            self.eat()
            return ("unary", s, self.unary(ns))
        if self.kind() == "op" and s in ("&", "&&"):
            self.eat()
            if self.peek() == "mut":
                self.eat()
                return ("unary", "&mut", self.unary(ns))     # parsed so that a target can bind / pin it; never translated
            e = self.unary(ns)
            return ("unary", "&", e)
        return self.postfix(ns)

    def args(self):
        self.eat("(")
        a = []
        while self.peek() != ")":
            a.append(self.expr())
            if self.peek() == ",":
                self.eat()
            elif self.peek() != ")":
                self.err(f"expected , or ) in arguments, got {self.peek()!r}")
        self.eat(")")
        return a

    def postfix(self, ns):
        e = self.primary(ns)
        while True:
            s = self.peek()
            if s == "?":
                self.eat()
                e = ("try", e)
            elif s == ".":
                self.eat()
                if self.kind() == "num":
                    n = self.eat()
                    if not n.isdigit():
                        self.err("bad tuple index")
                    if e[0] == "lit":
                        self.err("float literals are outside the subset")
                    e = ("field", e, n)
                elif self.kind() == "id":
                    name = self.eat()
                    if name == "await":
                        e = ("await", e)
                        continue
                    if self.peek() == "::":
                        # turbofish: parsed (so that a target can bind the expression) but never translated
                        self.eat()
                        self.eat("<")
                        tys = [self.type()]
                        while self.peek() == ",":
                            self.eat()
                            tys.append(self.type())
                        if self.peek() == ">>":
                            self.t[self.i] = Tok("op", ">", self.t[self.i].line)
                        else:
                            self.eat(">")
                        e = ("mcall", e, name, self.args(), tys)
                    elif self.peek() == "(":
                        e = ("mcall", e, name, self.args())
                    else:
                        e = ("field", e, name)
                else:
                    self.err("unexpected token after .")
            elif s == "(" and e[0] == "path":
                e = ("call", e[1], self.args())
            elif s == "[":
                self.eat()
                ix = self.expr()
                self.eat("]")
                e = ("index", e, ix)
            else:
                return e

    def block(self):
        """{ stmts } -> ("block", stmts, tail|None)"""
        self.eat("{")
        stmts, tail = [], None
        while True:
            self.skip_attrs()
            s = self.peek()
            if s == "}":
                self.eat()
                break
            if s == ";":
                self.eat()
                continue
            if s == "let":
                self.eat()
                mut = False
                if self.peek() == "mut":
                    self.eat()
                    mut = True
                p = self.pattern()
                ty = None
                if self.peek() == ":":
                    self.eat()
                    ty = self.type()
                if self.peek() != "=":
                    self.err("let without initialiser is outside the subset")
                self.eat("=")
                init = self.expr()
                els = None
                if self.peek() == "else":
                    self.eat()
                    els = self.block()
                self.eat(";")
                stmts.append(("let", p, ty, init, els, mut))
                continue
            if s == "continue":
                self.eat()
                if self.peek() == ";":
                    self.eat()
                stmts.append(("expr", ("continue",)))
                continue
            if s in ("use", "fn", "struct", "impl", "const", "static"):
                self.err(f"`{s}` inside a function body is outside the subset")
            e = self.expr()
            if self.peek() == ";":
                self.eat()
                stmts.append(("expr", e))
            elif self.peek() == "}" and e[0] in ("while", "for"):
                stmts.append(("expr", e))
            elif self.peek() == "}":
                tail = e
            elif e[0] in ("if", "match", "while", "for", "block", "loop"):
                stmts.append(("expr", e))
            else:
                self.err(f"expected ; or }} after expression, got {self.peek()!r}")
        return ("block", stmts, tail)

    def primary(self, ns):
        s, k = self.peek(), self.kind()
        if s is None:
            self.err("unexpected end of input")
        if k == "num":
            v, bits = parse_int(self.eat())
            return ("lit", v, bits)
        if k == "str" and s.startswith('"'):
            self.eat()
            return ("str", s[1:-1])
        if k in ("str", "chr", "life"):
            self.err(f"literal {s} is outside the subset")
        if s in ("true", "false"):
            self.eat()
            return ("bool", s == "true")
        if s == "(":
            self.eat()
            es = []
            trailing = False
            while self.peek() != ")":
                es.append(self.expr())
                trailing = False
                if self.peek() == ",":
                    self.eat()
                    trailing = True
            self.eat(")")
            if len(es) == 1 and not trailing:
                return es[0]            # parentheses leave no trace
            if not es:
                return ("tuple", [])
            return ("tuple", es)
        if s == "{":
            return self.block()
        if s in ("..", "..="):
            self.eat()
            hi = None
            if self.peek() not in ("]", ")", "}", ",", ";", None):
                hi = self.binary(0, ns)
            return ("range", s, None, hi)
        if s == "[":
            # array literal: parsed (pinnable), never translated
            self.eat()
            es = []
            while self.peek() != "]":
                es.append(self.expr())
                if self.peek() in (",", ";"):
                    es.append(self.eat())
            self.eat("]")
            return ("array", es)
        if s == "if":
            self.eat()
            if self.peek() == "let":
                self.eat()
                p = self.pattern()
                self.eat("=")
                c = ("let", p, self.expr(True))
            else:
                c = self.expr(True)
            th = self.block()
            el = None
            if self.peek() == "else":
                self.eat()
                el = self.primary(ns) if self.peek() == "if" else self.block()
                if el[0] == "if":
                    el = ("block", [], el)
            return ("if", c, th, el)
        if s == "match":
            self.eat()
            sc = self.expr(True)
            self.eat("{")
            arms = []
            while self.peek() != "}":
                self.skip_attrs()
                p = self.pattern()
                if self.peek() == "|":
                    alts = [p]          # or-pattern: parsed (pinnable), never translated
                    while self.peek() == "|":
                        self.eat()
                        alts.append(self.pattern())
                    p = ("por", alts)
                if self.peek() == "if":
                    self.err("match guards are outside the subset")
                self.eat("=>")
                b = self.expr()
                if self.peek() == ",":
                    self.eat()
                elif self.peek() != "}" and b[0] != "block":
                    self.err("expected , after match arm")
                arms.append((p, b))
            self.eat("}")
            return ("match", sc, arms)
        if s == "return":
            self.eat()
            if self.peek() in (";", "}", ","):
                return ("return", None)
            return ("return", self.expr())
        if s == "while":
            self.eat()
            if self.peek() == "let":
                self.err("while let is outside the subset")
            c = self.expr(True)
            return ("while", c, self.block())
        if s == "for":
            self.eat()
            p = self.pattern()
            self.eat("in")
            it = self.expr(True)
            return ("for", p, it, self.block())
        if s in ("|", "||"):
            self.eat()
            ps = []
            if s == "|":
                while self.peek() != "|":
                    ps.append(self.pattern())
                    if self.peek() == ":":
                        self.eat()
                        self.type()
                    if self.peek() == ",":
                        self.eat()
                self.eat("|")
            return ("closure", ps, self.expr())
        if s == "loop":
            self.eat()
            return ("loop", self.block())        # parsed (so that the rest of a body can be pinned); never translated
        if s in ("break", "continue"):
            self.eat()
            return (s,)
        if s == "async" and self.peek(1) == "{":
            self.eat()
            return ("async_block", self.block())
        if s in ("move", "unsafe", "async"):
            self.err(f"`{s}` is outside the subset")
        if k == "id":
            segs = [self.eat()]
            while self.peek() == "::":
                self.eat()
                if self.peek() == "<":
                    # path turbofish: parsed (bindable / pinnable), the segment makes every table lookup fail
                    depth, txt = 0, []
                    while True:
                        t0 = self.eat()
                        txt.append(t0)
                        depth += {"<": 1, ">": -1, ">>": -2}.get(t0, 0)
                        if depth <= 0:
                            break
                    segs.append("".join(txt))
                    continue
                segs.append(self.eat())
            if self.peek() == "!":
                name = segs[-1]
                self.eat()
                if name == "vec" and self.peek() == "[" and self.peek(1) == "]":
                    self.eat()
                    self.eat()
                    return ("call", ["Vec", "new"], [])
                if segs[0] == "tracing" and self.peek() == "(":
                    self.i = skip_group(self.t, self.i)      # logging: never translated
                    return ("macro", "tracing", [])
                if name not in ("assert", "assert_eq", "assert_ne", "debug_assert", "unreachable", "panic", "ensure", "bail", "format_err") \
                        and self.peek() in ("(", "[", "{"):
                    # any other macro: kept as an opaque token group (it can be pinned or bound by a target, never translated)
                    j = skip_group(self.t, self.i)
                    txt = " ".join(t.s for t in self.t[self.i:j])
                    self.i = j
                    return ("macro_opaque", "::".join(segs), txt)
                if self.peek() not in ("(", "["):
                    self.err("macro with { } is outside the subset")
                if name not in ("assert", "assert_eq", "assert_ne", "debug_assert", "unreachable", "panic", "ensure", "bail", "format_err"):
                    self.err(f"macro {name}! is outside the subset")
                if name in ("unreachable", "panic"):
                    self.i = skip_group(self.t, self.i)
                    return ("macro", name, [])
                a = self.args()
                return ("macro", name, a)
            if self.peek() == "{" and not ns and (segs[-1][0].isupper()):
                self.eat()
                fs, base = [], None
                while self.peek() != "}":
                    if self.peek() == "..":
                        self.eat()
                        base = self.expr()
                        break
                    fn = self.eat()
                    if self.peek() == ":":
                        self.eat()
                        fe = self.expr()
                    else:
                        fe = ("path", [fn])
                    fs.append((fn, fe))
                    if self.peek() == ",":
                        self.eat()
                self.eat("}")
                return ("struct", segs, fs, base)
            return ("path", segs)
        self.err(f"unexpected token {s!r}")


def parse_int(s):
    bits = None
    m = re.search(r"([iu])(8|16|32|64|128|size)$", s)
    if m and not s.startswith("0x"):
        if m.group(1) == "i":
            raise ParseError(f"signed literal {s} is outside the subset")
        bits = 64 if m.group(2) == "size" else int(m.group(2))
        s = s[:m.start()]
    elif m and s.startswith("0x") and re.search(r"u(8|16|32|64|128|size)$", s):
        bits = 64 if m.group(2) == "size" else int(m.group(2))
        s = s[:m.start()]
    s = s.replace("_", "")
    if s.startswith("0b"):
        return int(s[2:], 2), bits
    if s.startswith("0x"):
        return int(s[2:], 16), bits
    if s.startswith("0o"):
        return int(s[2:], 8), bits
    return int(s), bits


def parse_expr_tokens(toks, what):
    p = Parser(list(toks), what)
    e = p.expr()
    if not p.at_end():
        p.err(f"trailing tokens after expression: {p.peek()!r}")
    return e


def parse_expr_src(src, what="binding"):
    return parse_expr_tokens(lex(src), what)


def parse_type_tokens(toks, what):
    p = Parser(list(toks), what)
    t = p.type()
    if not p.at_end():
        p.err(f"trailing tokens after type: {p.peek()!r}")
    return t


def parse_body_tokens(toks, what):
    """Function body tokens (without the outer braces) -> block AST."""
    ln = toks[0].line if toks else 0
    p = Parser([Tok("op", "{", ln)] + list(toks) + [Tok("op", "}", ln)], what)
    b = p.block()
    if not p.at_end():
        p.err("trailing tokens after function body")
    return b


def parse_params(toks, what):
    """-> (self_mode: None|"val"|"ref"|"refmut", [(name, type)])"""
    self_mode, ps = None, []
    for part in _split_commas(toks):
        part = part[_attrs(part, 0, []):]
        ss = [t.s for t in part]
        if ss in (["self"], ["mut", "self"]):
            self_mode = "val"
            continue
        if ss == ["&", "self"]:
            self_mode = "ref"
            continue
        if ss == ["&", "mut", "self"]:
            self_mode = "refmut"
            continue
        p = Parser(part, what)
        if p.peek() == "mut":
            p.eat()
        if p.kind() != "id" or p.peek(1) != ":":
            p.err("parameter patterns are outside the subset")
        name = p.eat()
        p.eat(":")
        ty = p.type()
        if not p.at_end():
            p.err("trailing tokens in parameter")
        ps.append((name, ty))
    return self_mode, ps
