"""C18, part 2 — the real gossip loops.  Real nodes (public Network::new + Runner::run: TCP listener,
preface, handshake, rpc service, PushServer, the push loop with get_newer, and for a validator node
consensus::maintain_connection) driven by the harness as a scripted gossip peer (vh addrloops),
compared with Model.AddrBook.run_net_case, plus predicates on the real behaviour alone."""
import json
import threading
import common
from common import coq_z, coq_list

SENTINEL = 7
POOL = 8


def valid(e):
    return e[0] == e[4] and e[1:4] == e[5:8]


# ---------------------------------------------------------------------------
# generation.  entry = [k, addr, ver, ts, sk, saddr, sver, sts]

def gen_case(rng, base):
    """base: module c18 (KeyHist, forge, gen_addr ...)."""
    z = rng.below(100)
    kind = "dial" if z < 35 else ("pair" if z < 75 else "single")
    others = rng.shuffle(list(range(SENTINEL)))
    committee = sorted(others[:rng.range(2, 4)] + [SENTINEL])
    nodes = [{"val": None}] if kind != "pair" else [{"val": None}, {"val": None}]
    own = None
    if kind == "dial":
        own = rng.choice([k for k in committee if k != SENTINEL])
        nodes = [{"val": own}]
    hist = base.KeyHist()
    next_addr = [0]

    def fresh_addr():
        next_addr[0] += 1
        return next_addr[0] - 1

    ops = []
    for _ in range(rng.range(3, 7)):
        batch = []
        keys = [k for k in rng.shuffle(list(range(SENTINEL))) if k != own]
        n = rng.choice([1, 1, 2, 2, 3, 4])
        for k in keys:
            if len(batch) >= n:
                break
            if k not in committee and not rng.chance(1, 3):
                continue
            addr, ver, ts = hist.next(rng, k, False)
            if kind == "dial":
                addr = fresh_addr()
            e = [k, addr, ver, ts, k, addr, ver, ts]
            if rng.chance(1, 6):
                e = base.forge(rng, e)
                if kind == "dial" and e[5] != e[1]:
                    e[5] = fresh_addr()
            batch.append(e)
        if batch and rng.chance(1, 10):
            src = rng.choice(batch)
            addr, ver, ts = hist.next(rng, src[0], False)
            if kind == "dial":
                addr = fresh_addr()
            batch.insert(rng.below(len(batch) + 1), [src[0], addr, ver, ts, src[0], addr, ver, ts])
        ops.append({"n": rng.below(len(nodes)), "d": batch})
    return {"pool": POOL, "kind": kind, "committee": committee, "sentinel": SENTINEL, "nodes": nodes,
            "dial": kind == "dial", "ops": ops}


def corpus_cases():
    v = lambda k, a, ver, ts: [k, a, ver, ts, k, a, ver, ts]
    return [
        {"pool": POOL, "kind": "corpus pair", "committee": [0, 1, 2, 7], "sentinel": SENTINEL, "nodes": [{"val": None}, {"val": None}],
         "dial": False, "ops": [
             {"n": 0, "d": [v(0, 5, 0, 100), v(3, 6, 0, 1)]},
             {"n": 1, "d": [v(2, 9, 1, 1), [0, 8, 1, 1, 1, 8, 1, 1]]},
             {"n": 1, "d": [v(2, 9, 1, 1), v(0, 4, 0, 99)]},
             {"n": 1, "d": [v(1, 2000000, 3, 5), v(0, 77, 0, 101)]},
             {"n": 0, "d": [v(0, 78, 0, 101), v(1, 3, 3, 5), v(1, 3, 3, 6)]}]},
        {"pool": POOL, "kind": "corpus dial", "committee": [0, 1, 2, 7], "sentinel": SENTINEL, "nodes": [{"val": 1}],
         "dial": True, "ops": [
             {"n": 0, "d": [v(0, 0, 0, 100), v(3, 1, 0, 1)]},
             {"n": 0, "d": [v(2, 2, 1, 1), [0, 3, 1, 1, 1, 3, 1, 1]]},
             {"n": 0, "d": [v(0, 4, 0, 99), v(2, 5, 1, 2)]},
             {"n": 0, "d": [v(0, 6, 1, 0)]},
             {"n": 0, "d": [v(0, 6, 2, 0)]}]},
    ]


def json_case(c):
    return {"pool": c["pool"], "committee": c["committee"], "sentinel": c["sentinel"], "nodes": c["nodes"], "dial": c["dial"],
            "ops": [{"n": o["n"], "d": [[e[0], str(e[1]), str(e[2]), str(e[3]), e[4], str(e[5]), str(e[6]), str(e[7])] for e in o["d"]]}
                    for o in c["ops"]]}


def sentinel_addr(c):
    m = 0
    for o in c["ops"]:
        for e in o["d"]:
            for a in (e[1], e[5]):
                if a < 1000:
                    m = max(m, a + 1)
    return m


def coq_case(c):
    ops = coq_list(["(%d%%nat, %s)" % (o["n"], coq_list(["mk_entry " + " ".join(coq_z(x) for x in e) for e in o["d"]])) for o in c["ops"]])
    own = c["nodes"][0]["val"]
    return ("{| nc_committee := %s; nc_nodes := %d%%nat; nc_dialer := %s; nc_sentinel := %d; nc_sentinel_addr := %d; nc_ops := %s |}"
            % (coq_list([coq_z(k) for k in c["committee"]]), len(c["nodes"]),
               "Some %d" % own if (c["dial"] and own is not None) else "None", c["sentinel"], sentinel_addr(c), ops))


def rows(l):
    r = [[x[0], int(x[1]), int(x[2]), int(x[3]), 1 if x[4] else 0] for x in l]
    return sorted(r, key=lambda x: (x[0], x[2], x[3], x[1]))


def impl_obs(o):
    return [[[0 if s["res"] == "ok" else 1, [rows(l) for l in s["repush"]], sorted(s["dials"]), 1] for s in o["ops"]],
            [rows(l) for l in o["final"]]]


# ---------------------------------------------------------------------------
# predicates on the real behaviour alone

def predicate(c, o, st=None):
    bad = []
    if o.get("stuck"):
        return [{"failed": "the node stopped taking part in the exchange: " + str(o["stuck"])}]
    members = set(c["committee"])
    nn = len(c["nodes"])
    own = c["nodes"][0]["val"] if c["dial"] else None
    saddr = sentinel_addr(c)
    last = [dict() for _ in range(nn)]       # per node: key -> (ver, ts, addr) last pushed to the peer
    accepted = set()                         # (k, addr, ver, ts) of valid member announcements in answered requests
    cur_addr = {}
    all_dials = set()
    for i, (op, s) in enumerate(zip(c["ops"], o["ops"])):
        offered = {tuple(e[:4]) for e in op["d"] if valid(e) and e[0] in members}
        if s["res"] == "ok":
            accepted |= offered
        changed_here = set()
        for x in range(nn):
            seen_keys = set()
            for (k, a, v, t, ok) in rows(s["repush"][x]):
                if not ok:
                    bad.append({"op": i, "failed": f"node {x} pushed an entry of key {k} that does not verify"})
                if k not in members:
                    bad.append({"op": i, "failed": f"node {x} pushed an entry of non-member {k}"})
                if k in seen_keys:
                    bad.append({"op": i, "failed": f"node {x} pushed two entries of key {k} in one exchange"})
                seen_keys.add(k)
                if k in last[x] and not (v, t) > last[x][k][:2]:
                    bad.append({"op": i, "failed": f"node {x} pushed {(v, t, a)} for key {k} although the peer was already sent {last[x][k]} (not strictly newer)"})
                last[x][k] = (v, t, a)
                if k == c["sentinel"]:
                    if (a, v, t) != (saddr, i + 1, 0):
                        bad.append({"op": i, "failed": f"node {x} pushed an unknown barrier entry {(a, v, t)}"})
                    continue
                if s["res"] != "ok":
                    bad.append({"op": i, "failed": f"node {x} pushed {(k, a, v, t)} after a rejected request"})
                elif (k, a, v, t) not in offered:
                    bad.append({"op": i, "failed": f"node {x} pushed {(k, a, v, t)}, which is not a validly signed member announcement of the request"})
                if x == 0:
                    changed_here.add((k, a))
            if st is not None:
                st["pushed_entries"] = st.get("pushed_entries", 0) + len(seen_keys)
        if nn == 2 and rows(s["repush"][0]) != rows(s["repush"][1]):
            bad.append({"op": i, "failed": "the two connected nodes pushed different news after the exchange"})
        if c["dial"]:
            want = set()
            for (k, a) in sorted(changed_here | ({(c["sentinel"], saddr)} if i == 0 else set())):
                if k != own and cur_addr.get(k) != a:
                    want.add(a)
                cur_addr[k] = a
            got = set(s["dials"])
            if got - want - all_dials:
                bad.append({"op": i, "failed": f"the node dialed address(es) {sorted(got - want - all_dials)} that no accepted announcement of a committee member carries"})
            if want - got:
                bad.append({"op": i, "failed": f"the node did not dial the newly announced address(es) {sorted(want - got)}"})
            all_dials |= got
            if st is not None:
                st["dials"] = st.get("dials", 0) + len(got)
        if st is not None:
            st["req_" + s["res"]] = st.get("req_" + s["res"], 0) + 1
    # final books (read through a fresh connection's first push): newest accepted announcement per key
    finals = [rows(l) for l in o["final"]]
    for x, fb in enumerate(finals):
        for (k, a, v, t, ok) in fb:
            if not ok or k not in members:
                bad.append({"failed": f"final book of node {x} holds a forged or non-member entry for key {k}"})
        got = {r[0]: (r[2], r[3]) for r in fb if r[0] != c["sentinel"]}
        for k in set(got) | {e[0] for e in accepted}:
            best = max(((v, t) for (kk, a, v, t) in accepted if kk == k), default=None)
            if got.get(k) != best:
                bad.append({"failed": f"final book of node {x} holds stamp {got.get(k)} for key {k}; newest accepted announcement is {best}"})
        if last[x] and {r[0]: (r[2], r[3], r[1]) for r in fb} != last[x]:
            bad.append({"failed": f"node {x}: the entries pushed over time do not add up to its final book"})
    if nn == 2 and len(finals) == 2 and finals[0] != finals[1]:
        stamps = {}
        uniq = all(stamps.setdefault((k, v, t), a) == a for (k, a, v, t) in accepted)
        if uniq:
            bad.append({"failed": "two connected nodes ended with different address books", "books": finals})
    return bad


def run_impl_parallel(jcases, groups=12, binname="addrloops"):
    n = len(jcases)
    groups = max(1, min(groups, n))
    chunks = [list(range(g, n, groups)) for g in range(groups)]
    outs = [None] * n

    def work(ix):
        res = common.run_impl(binname, [jcases[i] for i in ix], "dev", shards=1, timeout=600)
        for i, r in zip(ix, res):
            outs[i] = r

    ths = [threading.Thread(target=work, args=(ix,)) for ix in chunks]
    for t in ths:
        t.start()
    for t in ths:
        t.join()
    return outs


def make_cases(rng, n, base):
    return corpus_cases() + [gen_case(rng, base) for _ in range(n)]
