"""setup_cmd: full Coq build + harness build (both profiles), offline."""
import os
import sys
import common


def main():
    os.makedirs(common.BUILD, exist_ok=True)
    probs = common.coq_hygiene()
    if probs:
        print("\n".join(probs))
        return 1
    # regenerate translator outputs so the first build matches the tree
    try:
        import c07
        c07.regenerate()
    except Exception as e:  # translator degradation is reported by the check itself
        print("translator:", e)
    ok, out = common.coq_build([], timeout=3000)
    print(out[-3000:])
    if not ok:
        return 1
    bins = sorted(f[:-3] for f in os.listdir(os.path.join(common.HARNESS, "src", "bin")) if f.endswith(".rs"))
    for prof in ("dev", "release"):
        ok, out = common.cargo_build(bins, prof)
        print(out[-3000:])
        if not ok:
            return 1
    print("setup ok")
    return 0
