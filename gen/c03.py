"""C03 — no vote equivocation, even across crashes: theorems (Properties/C03.v over the replica
model with crash / restart operations) + replica correspondence with crash injection at the
persist points (vh replica vs Model.ReplicaRun.run_case, shared with C05) + predicates on the
implementation's outbound messages of all incarnations and on the per-step effect order."""
import json
import os

import c05
import common
from common import Rng

PROP_FILES = ["theories/Properties/C03.v"]


# ---------------------------------------------------------------------------
# predicates on the implementation's behaviour alone

def _i(x):
    return int(x)


def _view_of_commit(c):      # commit obs: [[g, e, n], [number, payload]]
    return _i(c[0][2])


def _norm(x):
    """observations with every integer (decimal strings included) as int, for comparison"""
    if isinstance(x, list):
        return [_norm(y) for y in x]
    return int(x)


def sent_predicates(out):
    """The three statements of C03 on the union of the outbound logs of all incarnations."""
    bad = []
    commits = {}          # view -> (msg, incarnation)
    max_timeout = None    # (view, incarnation) of the highest timeout vote so far
    last_vote_view = None
    for idx, s in enumerate(out.get("sent", [])):
        if not s["by_me"] or s["kind"] not in (1, 2):
            continue
        v = _i(s["view"])
        inc = s.get("incarnation")
        if s["kind"] == 1:
            m = _norm(s["msg"])
            if v in commits and commits[v][0] != m:
                bad.append({"failed": f"two different commit votes for view {v} (incarnations {commits[v][1]} and {inc})",
                            "votes": [commits[v][0], m], "sent_index": idx})
            commits.setdefault(v, (m, inc))
            if max_timeout is not None and v <= max_timeout[0]:
                bad.append({"failed": f"commit vote for view {v} (incarnation {inc}) after a timeout vote for view {max_timeout[0]} (incarnation {max_timeout[1]})",
                            "sent_index": idx})
        else:
            if max_timeout is None or v > max_timeout[0]:
                max_timeout = (v, inc)
        if last_vote_view is not None and v < last_vote_view:
            bad.append({"failed": f"views of successive votes decrease: {last_vote_view} then {v} (incarnation {inc})",
                        "sent_index": idx})
        last_vote_view = v
    return bad


def effect_lists(ob):
    """the ordered effect lists of one operation's observation (a crashed step has two: the
    prefix before the crash and the prologue of the next incarnation)"""
    if ob == [9] or len(ob) < 3:
        return []
    if ob[0] == [7]:
        return [ob[1][0], ob[2][0]]
    return [ob[1][0]]


def effect_order_predicate(out):
    """every send of a commit / timeout vote is preceded, in the same step, by a persist of a
    state that records it: commit vote — the effect just before is a persist with its view, phase
    Commit and high_vote = the vote; timeout vote — a persist with its view, phase Timeout and the
    high vote it carries, and only sends in between."""
    bad = []
    for step, ob in enumerate(out["obs"]):
        for es in effect_lists(ob):
            for pos, e in enumerate(es):
                if _i(e[0]) != 1:
                    continue
                m = e[1]
                kind = _i(m[0])
                if kind == 1:
                    vote = _norm(m[1])
                    prev = es[pos - 1] if pos > 0 else None
                    ok = (prev is not None and _i(prev[0]) == 0 and _i(prev[1][1]) == _view_of_commit(m[1])
                          and _i(prev[1][2]) == 1 and _norm(prev[1][3]) == [vote])
                    if not ok:
                        bad.append({"step": step, "failed": f"commit vote for view {_view_of_commit(m[1])} sent without an immediately preceding persist recording it",
                                    "effects": es})
                elif kind == 2:
                    t = m[1]
                    q = pos - 1
                    while q >= 0 and _i(es[q][0]) == 1:
                        q -= 1
                    prev = es[q] if q >= 0 else None
                    ok = (prev is not None and _i(prev[0]) == 0 and _i(prev[1][1]) == _i(t[0][2])
                          and _i(prev[1][2]) == 2 and _norm(prev[1][3]) == _norm(t[1]))
                    if not ok:
                        bad.append({"step": step, "failed": f"timeout vote for view {_i(t[0][2])} sent without a preceding persist recording it",
                                    "effects": es})
    return bad


def extra_pred(case, out):
    return sent_predicates(out) + effect_order_predicate(out)


# ---------------------------------------------------------------------------
# crash coverage actually achieved by the generated scenarios

def is_proposal(op):
    return op["t"] == "msg" and "proposal" in op["m"]


def crash_coverage(cases, outs):
    cov = {"crash_ops": 0, "crashes_hit": 0, "not_reached": 0,
           "hit_by_applied": {"applied": 0, "lost": 0},
           "requested_by_k_applied": {}, "hit_on": {"proposal": 0, "timer": 0, "commit": 0, "timeout": 0, "new_view": 0},
           "hit_then_equivocating_proposal": {"applied": 0, "lost": 0},
           "restarts": 0, "incarnations_max": 0, "commit_votes": 0, "timeout_votes": 0,
           "second_proposal_rejected_after_applied_crash": 0, "second_proposal_voted_after_lost_crash": 0}
    for c, o in zip(cases, outs):
        ops = c["ops"]
        cov["incarnations_max"] = max([cov["incarnations_max"]] + [s.get("incarnation", 0) for s in o.get("sent", [])])
        for s in o.get("sent", []):
            if s["by_me"] and s["kind"] == 1:
                cov["commit_votes"] += 1
            if s["by_me"] and s["kind"] == 2:
                cov["timeout_votes"] += 1
        for i, op in enumerate(ops):
            ob = o["obs"][i + 1]
            if op["t"] == "restart" and ob != [9]:
                cov["restarts"] += 1
            if op["t"] != "crash":
                continue
            cov["crash_ops"] += 1
            key = "k=%d,%s" % (op["k"], "applied" if op["applied"] else "lost")
            cov["requested_by_k_applied"][key] = cov["requested_by_k_applied"].get(key, 0) + 1
            if ob == [9]:
                continue
            if ob[0] != [7]:
                cov["not_reached"] += 1
                continue
            cov["crashes_hit"] += 1
            ap = "applied" if op["applied"] else "lost"
            cov["hit_by_applied"][ap] += 1
            inner = op["op"]
            kind = "timer" if inner["t"] == "timer" else next(k for k in ("proposal", "commit", "timeout", "new_view") if k in inner["m"])
            cov["hit_on"][kind] += 1
            if kind == "proposal" and i + 1 < len(ops) and is_proposal(ops[i + 1]) and ops[i + 1]["m"] != inner["m"]:
                cov["hit_then_equivocating_proposal"][ap] += 1
                nxt = o["obs"][i + 2]
                if nxt != [9] and len(nxt) >= 3 and nxt[0] != [7]:
                    if op["applied"] and nxt[0] == [2, [1]]:
                        cov["second_proposal_rejected_after_applied_crash"] += 1
                    if not op["applied"] and nxt[0] == [0]:
                        cov["second_proposal_voted_after_lost_crash"] += 1
    return cov


def coverage_gaps(cov):
    gaps = []
    for k in range(3):
        for ap in ("applied", "lost"):
            if not cov["requested_by_k_applied"].get("k=%d,%s" % (k, ap)):
                gaps.append(f"no crash requested at persist index {k} ({ap})")
    for ap in ("applied", "lost"):
        if not cov["hit_by_applied"][ap]:
            gaps.append(f"no crash reached with the write {ap}")
        if not cov["hit_then_equivocating_proposal"][ap]:
            gaps.append(f"no crash ({ap}) followed by an equivocating second proposal")
    if not cov["second_proposal_rejected_after_applied_crash"]:
        gaps.append("never observed: second proposal rejected after a crash with the vote persisted")
    if not cov["second_proposal_voted_after_lost_crash"]:
        gaps.append("never observed: second proposal voted for after a crash with the write lost")
    return gaps


OPTS = {"crash": True, "extreme": False, "crash_targets": (1, 3), "crash_more": (1, 4)}

RULE = ("scenarios as in C05 (one replica among 1-7 validators, a puppet network walking the views through commit and "
        "timeout rounds with Byzantine / stale / malformed inputs, timers, block sync) plus: a crash injected at the k-th "
        "set_state call (k = 0,1,2) of a step with the write applied or lost, on 1/3 of the valid proposals — followed, "
        "after the restart, by an equivocating second proposal of the same leader for the same view and then (1/2) the "
        "first one again —, on 1/3 of the view timers (followed by the proposal of that view), on 1/3 of the commit / timeout votes completing a quorum (persist of start_new_view), on a random operation of 1/4 "
        "of the rounds (votes reaching a quorum, new-view messages, ...), and clean restarts; per step the outcome class, "
        "the ordered effects (persist / send / queue block, one global order) and the full snapshot are compared with the "
        "model; predicates: on the outbound messages of all incarnations (no two different commit votes per view, no commit "
        "vote at or below a view already timed out, vote views never decrease) and on the effect order of every step "
        "(persist recording the vote before the vote); distinct = distinct step observations")


def run(rep):
    tier, rng = rep.tier, Rng(rep.seed)
    broken = []
    # translator: the replica's state updates and the ORDER of its effects (persist before send) are regenerated from the
    # source and proved equal to Model/Replica.v (Properties/C05Gen2.v, C05Gen3.v)
    import rust2coq
    translator, gen_files = rust2coq.step(rust2coq.REPLICA_STEP, rust2coq.REPLICA_PROPS, broken)
    po = common.proof_obligations(PROP_FILES + gen_files)
    po["files"] = PROP_FILES + gen_files
    rep.cov["translator"] = translator
    if not po["ok"]:
        broken.append("Coq obligations of " + ",".join(po["files"]) + ": " + (po["log_tail"] or str(po["hygiene_problems"] or po["bad_axioms"])))
    opts = dict(OPTS, rounds=6 if tier == "quick" else 10)
    # VERIF_C03_N: smaller scenario count for the mutation self-test (short mutation windows)
    n = int(os.environ.get("VERIF_C03_N") or (90 if tier == "quick" else 1000))
    R = c05.run_replica_cases(rep, "C03", opts, n, rng, broken, extra_pred=extra_pred)
    cov = crash_coverage(R["cases"], R["outs"])
    gaps = coverage_gaps(cov)
    c05.report(rep, "C03", po, R, broken, RULE)
    rep.cov["crash_coverage"] = cov
    rep.cov["partial"] = ("theorems are over the model with overflow checks on (cchk = true; with wrapping arithmetic a Byzantine quorum at "
                          "view u64::MAX rewinds the view: Example C03_needs_overflow_checks); a torn set_state (H-ENG) and a message "
                          "handed to the network but lost with the process are outside the model (the log counts a message as sent "
                          "when the send effect happened)")
    if gaps:
        raise common.MachineryError("crash coverage of the generated scenarios is incomplete: " + "; ".join(gaps))
    rep.assumptions += ["H-SIG, H-HASH", "H-ENG: set_state is atomic (a crash leaves the old or the new state, never a torn one)",
                        "overflow checks on (dev profile) for the run-level theorems"]


def replay(path):
    d = json.load(open(path))
    fi = d.get("failing_input") or d.get("first_disagreement")
    if not fi:
        print("no concrete input:", d.get("broken"))
        return 1
    common.cargo_build(["replica"], "dev")
    o = common.run_impl("replica", [fi["case"]], "dev")[0]
    for i, ob in enumerate(o["obs"]):
        print(i, json.dumps(ob)[:400])
    print("sent:")
    for s in o.get("sent", []):
        if s["by_me"] and s["kind"] in (1, 2):
            print(" ", s["incarnation"], ["", "commit", "timeout"][s["kind"]], s["view"], json.dumps(s["msg"])[:200])
    for b in extra_pred(fi["case"], o):
        print("PREDICATE FAILED:", b["failed"])
    return 0
