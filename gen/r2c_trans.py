"""Middle of gen/rust2coq.py: typed translation of the parsed Rust subset into Gallina terms
(r2c_ir).  Written in continuation-passing style so that `?`, early `return` and panicking
operations sequence in Rust's evaluation order."""
import re

from r2c_parse import ParseError, INT_BITS, SINT_BITS, parse_expr_src, parse_type_tokens, parse_body_tokens, parse_params, lex, Parser
from r2c_ir import Ret, Fail, ErrT, MonT, SetState, Catch, Bind, BindT, Let, If, Match, OBind, Fold, effectful, atom, inline, render, lpat

MUTATING = {"pop", "push", "push_back", "pop_front", "insert", "remove", "clear", "entry", "truncate", "extend"}


def parse_type_src(s):
    return parse_type_tokens(lex(s), "type table")


def strip(t):
    while t[0] == "refmut":
        t = t[1]
    if t[0] == "gnamed":
        return ("named", t[1])
    if t[0] == "hole" and t[1][0] is not None:
        return strip(t[1][0])
    return t


def unify(a, b):
    """Fills the inference holes of a with b (and vice versa) where they meet; returns the more informative."""
    a, b = strip(a), strip(b)
    if a[0] == "hole":
        if b[0] != "hole":
            a[1][0] = b
        return b
    if b[0] == "hole":
        b[1][0] = a
        return a
    if a[0] == "option" and b[0] == "option":
        return ("option", unify(a[1], b[1]))
    if a[0] == "list" and b[0] == "list":
        return ("list", unify(a[1], b[1]))
    if a[0] == "map" and b[0] == "map":
        return ("map", a[1], unify(a[2], b[2]), unify(a[3], b[3]))
    if a[0] == "tuple" and b[0] == "tuple" and len(a[1]) == len(b[1]):
        return ("tuple", [unify(x, y) for x, y in zip(a[1], b[1])])
    return a


class Sig:
    def __init__(self, coq, params, has_self, ret, eff, template=None, extra=()):
        self.coq, self.params, self.has_self, self.ret, self.eff, self.template = coq, params, has_self, ret, eff, template
        self.flags = {}
        self.extra = list(extra)     # names of additional parameters every caller must itself have (e.g. an abstract digest)


class Ctx:
    def __init__(self, what, self_type, ret, binds=(), allowed=()):
        self.what, self.self_type, self.ret = what, self_type, ret
        self.vars = {}       # rust name -> (coq name, type)
        self.mut = set()
        self.nested = False  # inside a value sub-term: `return` / `?` are not available
        self.binds = list(binds)
        self.allowed = list(allowed)
        self.retk = None
        self.in_loop = False
        self.state_var = "self"     # the Rust name of the value that is the state of a state function
        self.loop_k = None          # inside a `for` body: what `continue` does
        self.state = False          # translating a `&mut self` method of the state type in the state monad
        self.skipvars = set()       # locals bound to metrics handles (never translated)
        self.allowed_stmts = []
        self.anyhow = {}     # anyhow message -> constructor of the model's error type

    def child(self, nested=None):
        c = Ctx(self.what, self.self_type, self.ret, self.binds, self.allowed)
        c.in_loop = self.in_loop
        c.state = self.state
        c.loop_k = self.loop_k
        c.state_var = self.state_var
        c.skipvars = self.skipvars
        c.allowed_stmts = self.allowed_stmts
        c.anyhow = self.anyhow
        c.vars = dict(self.vars)
        c.mut = set(self.mut)
        c.nested = self.nested if nested is None else nested
        c.retk = self.retk
        return c


def diverges(e):
    if e is None:
        return False
    if e[0] in ("return", "continue"):
        return True
    if e[0] == "macro" and e[1] in ("unreachable", "panic", "bail"):
        return True
    if e[0] == "block":
        if e[2] is not None:
            return diverges(e[2])
        return bool(e[1]) and e[1][-1][0] == "expr" and diverges(e[1][-1][1])
    if e[0] == "if":
        return e[3] is not None and diverges(e[2]) and diverges(e[3])
    if e[0] == "match":
        return all(diverges(b) for _, b in e[2])
    return False


def is_err_return(e):
    return e[0] == "return" and e[1] is not None and e[1][0] == "call" and e[1][1] == ["Err"]


def has_value_return(e):
    """Does the AST contain a `return` other than `return Err(..)`?"""
    if isinstance(e, tuple) and len(e) >= 2 and e[0] == "return" and not is_err_return(e):
        return True
    if isinstance(e, (list, tuple)):
        return any(has_value_return(x) for x in e)
    return False


def has_escape(e):
    """does the AST contain a `continue` or a `return` (a way to leave the enclosing statement sequence)?"""
    if isinstance(e, tuple) and len(e) >= 1 and e[0] == "continue":
        return True
    if isinstance(e, tuple) and len(e) >= 2 and e[0] == "return" and not is_err_return(e):
        return True            # `return Err(..)` needs no continuation: it is the monad's failure
    if isinstance(e, (list, tuple)):
        return any(has_escape(x) for x in e)
    return False


def has_any_return(e):
    if isinstance(e, tuple) and len(e) >= 1 and e[0] == "return":
        return True
    if isinstance(e, (list, tuple)):
        return any(has_any_return(x) for x in e)
    return False


def mutated(e, acc):
    """Names of local variables assigned / mutated inside an AST."""
    if isinstance(e, (list, tuple)):
        if len(e) >= 3 and e[0] == "assign":
            l = e[2]
            while l[0] in ("unary", "field", "index", "mcall"):
                l = l[2] if l[0] == "unary" else l[1]
            if l[0] == "path" and len(l[1]) == 1:
                acc.add(l[1][0])
        if len(e) >= 4 and e[0] == "mcall" and e[2] in MUTATING and e[1][0] == "path" and len(e[1][1]) == 1:
            acc.add(e[1][1][0])
        for x in e:
            mutated(x, acc)
    return acc


class Translator:
    def __init__(self, types, externs):
        self.types = types          # rust type name -> spec dict
        self.fns = dict(externs)    # (type, name) -> Sig
        self.consts = {}            # (type, name) -> (coq name, type)
        self.n = 0
        self.pending = {}           # (type, name) -> thunk translating it on demand
        self.active = []
        self.out = []               # (coq name, text) in dependency order
        self.verified = set()
        self.ops = {}               # (type name, operator) -> (Gallina template over {0} {1}, effectful)
        self.verify = None          # callback(name, spec): compares a table entry with its source declaration

    # ---- small helpers
    def tget(self, name):
        """type table lookup; the entry is compared with the source declaration the first time it is used"""
        sp = self.types.get(name)
        if sp is not None and name not in self.verified:
            self.verified.add(name)
            if self.verify:
                self.verify(name, sp)
        return sp

    def fresh(self):
        self.n += 1
        return f"tmp{self.n}"

    def err(self, ctx, msg):
        raise ParseError(f"{ctx.what}: {msg}")

    def spec(self, t):
        t = strip(t)
        if t[0] == "named":
            return self.tget(t[1])
        return None

    def int_bits(self, t):
        """width if t is an unsigned integer or a newtype over one (through which arithmetic is NOT allowed)"""
        t = strip(t)
        return t[1] if t[0] == "int" else None

    def zlike(self, t):
        """Is the Gallina representation a Z compared with the integer order?"""
        t = strip(t)
        if t[0] in ("int", "sint"):
            return True
        s = self.spec(t)
        if s and s["kind"] == "newtype":
            return self.zlike(s["inner"])
        if s and s["kind"] == "opaque" and s.get("coq") == "Z":
            return True
        return False

    def coq_type(self, t):
        t = strip(t)
        k = t[0]
        if k in ("int", "sint"):
            return "Z"
        if k == "bool":
            return "bool"
        if k == "unit":
            return "unit"
        if k == "option":
            return f"option {atom(self.coq_type(t[1]))}"
        if k == "list":
            return f"list {atom(self.coq_type(t[1]))}"
        if k == "map":
            return f"list ({self.coq_type(t[2])} * {self.coq_type(t[3])})"
        if k == "tuple":
            return "(" + " * ".join(atom(self.coq_type(x)) for x in t[1]) + ")"
        if k == "named":
            s = self.tget(t[1])
            if s is None:
                raise ParseError(f"type {t[1]} has no entry in the translator's type table")
            if s["kind"] == "newtype":
                return self.coq_type(s["inner"])
            return s["coq"]
        if k == "hole":
            return "_"
        raise ParseError(f"type {t} is outside the subset")

    def derives(self, t, trait, ctx):
        s = self.spec(t)
        if s is not None and "derives" in s and trait not in s["derives"]:
            self.err(ctx, f"type {strip(t)[1]} does not derive {trait}")

    def eqb(self, t, ctx):
        t = strip(t)
        if self.zlike(t):
            self.derives(t, "PartialEq", ctx)
            return "Z.eqb"
        if t[0] == "bool":
            return "Bool.eqb"
        s = self.spec(t)
        if s and s.get("eqb"):
            self.derives(t, "PartialEq", ctx)
            return s["eqb"]
        self.err(ctx, f"no equality known for type {t}")

    # ---- enum variants of the type table: (constructor or template, arg types[, "drop"])
    def variant_apply(self, spec, args):
        ctor = spec[0]
        if "{" in ctor:
            return "(" + ctor.format(*[atom(a) for a in args]) + ")"
        if len(spec) > 2 and spec[2] == "drop":
            return ctor
        return "(" + " ".join([ctor] + [atom(a) for a in args]) + ")" if args else ctor

    def variant_fun(self, spec):
        ctor, n = spec[0], len(spec[1])
        if len(spec) > 2 and spec[2] == "drop":
            return "(fun " + " ".join("_" for _ in range(max(n, 1))) + " => " + ctor + ")"
        if "{" in ctor:
            xs = [f"x{i}" for i in range(n)]
            return "(fun " + " ".join(xs) + " => " + ctor.format(*xs) + ")"
        return ctor

    def err_fun(self, a, ctx, argtypes):
        """argument of map_err: an enum variant used as a function, or a closure"""
        if a[0] == "path" and len(a[1]) >= 2:
            ty = ctx.self_type if a[1][-2] == "Self" else a[1][-2]
            sp = self.tget(ty)
            if sp and sp["kind"] == "enum" and a[1][-1] in sp["variants"]:
                return self.variant_fun(sp["variants"][a[1][-1]]), ("named", ty)
        if a[0] == "closure":
            return self.closure(a, argtypes, ctx)
        self.err(ctx, "map_err with something that is neither a table variant nor a closure")

    # ---- patterns
    def pat(self, p, t, ctx):
        """-> (Gallina pattern, [(rust name, coq name, type)])"""
        t = strip(t)
        k = p[0]
        if k == "pwild":
            return "_", []
        if k == "pbind":
            return "v_" + p[1], [(p[1], "v_" + p[1], t)]
        if k == "pat_at":
            sub, vs = self.pat(p[2], t, ctx)
            return f"({sub} as v_{p[1]})", vs + [(p[1], "v_" + p[1], t)]
        if k == "pbool":
            return ("true" if p[1] else "false"), []
        if k == "plit":
            return str(p[1]), []
        if k == "ptuple":
            if t[0] == "tuple" and len(t[1]) == len(p[1]):
                ts = t[1]
            elif t[0] == "hole":
                ts = [("hole", [None]) for _ in p[1]]
            else:
                self.err(ctx, f"tuple pattern against type {t}")
            subs = [self.pat(q, u, ctx) for q, u in zip(p[1], ts)]
            return "(" + ", ".join(s for s, _ in subs) + ")", [v for _, vs in subs for v in vs]
        if k == "ppath":
            segs = p[1]
            if segs == ["None"]:
                return "None", []
            ty = ctx.self_type if segs[-2:-1] == ["Self"] else (segs[-2] if len(segs) > 1 else None)
            s = self.tget(ty)
            if s and s["kind"] == "enum" and segs[-1] in s["variants"] and not s["variants"][segs[-1]][1]:
                return s["variants"][segs[-1]][0], []
            self.err(ctx, f"pattern {'::'.join(segs)} is outside the subset")
        if k == "pctor":
            segs, ps = p[1], p[2]
            if segs == ["Some"] and len(ps) == 1:
                inner = t[1] if t[0] == "option" else ("hole", [None])
                s, vs = self.pat(ps[0], inner, ctx)
                return "Some " + atom(s), vs
            ty = ctx.self_type if segs[-2:-1] == ["Self"] else (segs[-2] if len(segs) > 1 else None)
            sp = self.tget(ty)
            if sp and sp["kind"] == "enum" and segs[-1] in sp["variants"]:
                ctor, ats = sp["variants"][segs[-1]]
                if len(ats) != len(ps):
                    self.err(ctx, f"variant {segs[-1]} arity")
                subs = [self.pat(q, parse_type_src(u), ctx) for q, u in zip(ps, ats)]
                return " ".join([ctor] + [atom(s) for s, _ in subs]), [v for _, vs in subs for v in vs]
            self.err(ctx, f"constructor pattern {'::'.join(segs)} is outside the subset")
        self.err(ctx, f"pattern {p} is outside the subset")

    # ---- expressions (CPS)
    def ex(self, e, ctx, k, hint=None, tail=False):
        if hint is not None and self.dropped(hint):
            return k("tt", hint)         # an argument of a type the model has no counterpart for (e.g. ctx::Ctx) is not translated
        for b in ctx.binds:
            if b.get("macro") and e[0] == "macro_opaque" and e[1] == b["macro"]:
                import hashlib
                h = hashlib.sha256(e[2].encode()).hexdigest()[:16]
                if h != b["sha"]:
                    self.err(ctx, f"the body of the {b['macro']}! block changed (token hash {h}, pinned {b['sha']})")
                return k(b["coq"], b["type"])
            if e == b["ast"]:
                if b.get("eff"):
                    t = self.fresh()
                    return Bind(t, b["coq"], k(t, b["type"]))
                return k(b["coq"], b["type"])
        m = getattr(self, "ex_" + e[0], None)
        if m is None:
            self.err(ctx, f"expression form `{e[0]}` is outside the subset")
        return m(e, ctx, k, hint, tail)

    def exs(self, es, ctx, k, hints=None):
        """left to right; k receives the list of (value, type)"""
        acc = []

        def go(i):
            if i == len(es):
                return k(acc)

            def got(v, t):
                if strip(t)[0] in ("result", "hres"):
                    self.err(ctx, "a Result value used other than by `?`, map_err, context or as the return value")
                acc.append((v, t))
                return go(i + 1)
            return self.ex(es[i], ctx, got, hints[i] if hints and i < len(hints) else None)
        return go(0)

    def value_term(self, e, ctx, hint=None):
        """Translates e as a self-contained sub-term (no return / ?). -> (Term, type)"""
        got = []

        def k(v, t):
            got.append(t)
            return Ret(v)
        term = self.ex(e, ctx.child(nested=True), k, hint)
        ty = ("hole", [None])
        for t in got:
            ty = unify(ty, t)
        return term, ty

    def ex_lit(self, e, ctx, k, hint, tail):
        v, bits = e[1], e[2]
        if bits is None and hint is not None:
            h = strip(hint)
            if h[0] == "int":
                bits = h[1]
            if h[0] == "sint":
                if v >= 2 ** (h[1] - 1):
                    self.err(ctx, f"literal {v} does not fit i{h[1]}")
                return k(str(v), h)
        if bits is None:
            return k(str(v), ("hole", [None]))    # fixed by the first operation it meets
        if v >= 2 ** bits:
            self.err(ctx, f"literal {v} does not fit {bits} bits")
        return k(str(v), ("int", bits))

    def ex_await(self, e, ctx, k, hint, tail):
        if e[1][0] == "async_block":
            # async { .. }.await : the block runs to completion here; `?` inside it leaves the BLOCK with an Err, not the function
            if ctx.state != "s":
                self.err(ctx, "async blocks are translated only in plain state functions")
            blk = e[1][1]
            got = []

            def kk(v, t):
                got.append(t)
                st = strip(t)
                if st[0] == "hres":
                    return MonT(v, h=True)
                if st[0] == "result":
                    if v.startswith("(Ok ") and v.endswith(")"):
                        return Ret(v[4:-1])
                    return MonT(v)
                self.err(ctx, "an async block whose value is not a Result is outside the subset")
            c2 = ctx.child()
            c2.retk = None
            sub = self.ex(blk, c2, kk, None, False)
            rt = strip(got[0]) if got else ("hole", [None])
            v = self.fresh()
            val_t = ("result", rt[1], ("hole", [None])) if rt[0] in ("hres", "result") else rt
            return Catch(v, sub, k(v, val_t))
        # sequential code: awaiting a future that is polled to completion is transparent
        return self.ex(e[1], ctx, k, hint, tail)

    def ex_str(self, e, ctx, k, hint, tail):
        self.err(ctx, "string literal outside ensure!/bail!/context is outside the subset")

    def anyhow_code(self, a, ctx):
        if a[0] != "str":
            self.err(ctx, "anyhow error whose message is not a plain string literal")
        if a[1] not in ctx.anyhow:
            self.err(ctx, f"anyhow message {a[1]!r} has no entry in the target's message table")
        return ctx.anyhow[a[1]]

    def ex_bool(self, e, ctx, k, hint, tail):
        return k("true" if e[1] else "false", ("bool",))

    def ex_tuple(self, e, ctx, k, hint, tail):
        if not e[1]:
            return k("tt", ("unit",))
        h = strip(hint) if hint else None
        hints = h[1] if h and h[0] == "tuple" and len(h[1]) == len(e[1]) else None
        return self.exs(e[1], ctx, lambda vs: k("(" + ", ".join(v for v, _ in vs) + ")", ("tuple", [t for _, t in vs])), hints)

    def ex_path(self, e, ctx, k, hint, tail):
        segs = e[1]
        if len(segs) == 1:
            n = segs[0]
            if n in ctx.skipvars:
                self.err(ctx, f"`{n}` is a metrics handle; its uses are not translated")
            if n in ctx.vars:
                return k(*ctx.vars[n])
            if n == "None":
                h = strip(hint) if hint else None
                return k("None", ("option", h[1] if h and h[0] == "option" else ("hole", [None])))
            self.err(ctx, f"unknown variable `{n}` (not a parameter, local or bound expression of this target)")
        ty, name = segs[-2], segs[-1]
        if ty == "Self":
            ty = ctx.self_type
        if ty in INT_BITS and name == "MAX":
            return k(str(2 ** INT_BITS[ty] - 1), ("int", INT_BITS[ty]))
        if ty in SINT_BITS and name == "MIN":
            return k(f"(-{2 ** (SINT_BITS[ty] - 1)})", ("sint", SINT_BITS[ty]))
        if ty in SINT_BITS and name == "MAX":
            return k(str(2 ** (SINT_BITS[ty] - 1) - 1), ("sint", SINT_BITS[ty]))
        c = self.need_const(ty, name)
        if c:
            return k(c[0], c[1])
        s = self.tget(ty)
        if s and s["kind"] == "enum" and name in s["variants"] and not s["variants"][name][1]:
            return k(s["variants"][name][0], ("named", ty))
        self.err(ctx, f"path {'::'.join(segs)} is not a known constant or variant")

    def need_const(self, ty, name):
        if (ty, name) in self.consts:
            return self.consts[(ty, name)]
        if ("const", ty, name) in self.pending:
            self.run_pending(("const", ty, name))
            return self.consts[(ty, name)]
        return None

    def need_fn(self, ty, name):
        if (ty, name) in self.fns:
            return self.fns[(ty, name)]
        if ("fn", ty, name) in self.pending:
            self.run_pending(("fn", ty, name))
            return self.fns[(ty, name)]
        return None

    def run_pending(self, key):
        if key in self.active:
            raise ParseError(f"recursive definition {key} is outside the subset")
        self.active.append(key)
        th = self.pending.pop(key)
        saved, self.n = self.n, 0
        th()
        self.n = saved
        self.active.pop()

    def dropped(self, t):
        sp = self.spec(t)
        return bool(sp and sp["kind"] == "dropped")

    def emit_call(self, sig, vals, ctx, k):
        ps = ([None] if sig.has_self else []) + list(sig.params)
        if len(vals) == len(ps):
            vals = [v for v, p in zip(vals, ps) if p is None or not self.dropped(p)]
            ps = [p for p in ps if p is None or not self.dropped(p)]
        if len(vals) != len(ps):
            self.err(ctx, f"call of {sig.coq}: wrong number of arguments")
        extra = []
        for x in sig.extra:
            if x not in ctx.vars:
                self.err(ctx, f"callee {sig.coq} needs the abstract input `{x}`, which this function does not have")
            extra.append(ctx.vars[x][0])
        if sig.template:
            expr = sig.template.format(*[atom(v) for v in vals])
        else:
            expr = " ".join([sig.coq] + (["chk"] if sig.eff else []) + [atom(v) for v in vals] + extra)
        if sig.eff in ("h", "s") and not ctx.state:
            self.err(ctx, f"call of {sig.coq or sig.template}, which acts on the replica state, outside a state function")
        if strip(sig.ret)[0] == "result":
            if sig.eff in ("h", "s"):
                return k(atom(expr), ("hres", strip(sig.ret)[1]))
            return k(atom(expr), sig.ret)       # a pending computation: consumed by `?`, map_err or a return
        if sig.eff in ("h", "s"):
            t = self.fresh()
            return Bind(t, expr, k(t, sig.ret), h=True)
        if sig.eff:
            t = self.fresh()
            return Bind(t, expr, k(t, sig.ret))
        return k(atom(expr) if vals or sig.template else expr, sig.ret)

    def ex_call(self, e, ctx, k, hint, tail):
        segs, args = e[1], e[2]
        last = segs[-1]
        if last == "Self":
            last = ctx.self_type
        if segs == ["Some"] and len(args) == 1:
            h = strip(hint) if hint else None
            return self.ex(args[0], ctx, lambda v, t: k(f"(Some {atom(v)})", ("option", t)),
                           h[1] if h and h[0] == "option" else None)
        if segs == ["Ok"] and len(args) == 1:
            return self.ex(args[0], ctx, lambda v, t: k(f"(Ok {atom(v)})", ("result", t, ("hole", [None]))))
        if segs == ["Err"] and len(args) == 1:
            return self.ex(args[0], ctx, lambda v, t: k(f"(Err {atom(v)})", ("result", ("hole", [None]), t)))
        s = self.tget(last)
        if s and s["kind"] == "newtype":
            if len(args) != 1:
                self.err(ctx, f"{last}(..) arity")
            return self.ex(args[0], ctx, lambda v, t: k(v, ("named", last)), s["inner"])
        if len(segs) >= 2 and segs[-2] == "cmp" and last in ("min", "max") and len(args) == 2:
            return self.exs(args, ctx, lambda vs: k(f"(Z.{last} {atom(vs[0][0])} {atom(vs[1][0])})", unify(vs[0][1], vs[1][1])),
                            [hint, hint])
        if len(segs) >= 2:
            ty = ctx.self_type if segs[-2] == "Self" else segs[-2]
            s = self.tget(ty)
            if s and s["kind"] == "enum" and last in s["variants"]:
                vsp = s["variants"][last]
                return self.exs(args, ctx, lambda vs: k(self.variant_apply(vsp, [v for v, _ in vs]), ("named", ty)),
                                [parse_type_src(a) for a in vsp[1]])
            if ty in ("HashMap", "BTreeMap") and last == "new" and not args:
                h = strip(hint) if hint else None
                return k("[]", h if h and h[0] == "map" else ("map", ty, ("hole", [None]), ("hole", [None])))
            if ty in ("Box", "Arc") and last == "new" and len(args) == 1:
                return self.ex(args[0], ctx, k, hint)
            if ty == "BitVec" and last == "from_elem" and len(args) == 2:
                return self.exs(args, ctx, lambda vs: k(f"(repeat {atom(vs[1][0])} (Z.to_nat {atom(vs[0][0])}))", ("list", ("bool",))),
                                [("int", 64), ("bool",)])
            if ty in ("Vec", "VecDeque", "HashSet", "BTreeSet") and last == "new" and not args:
                h = strip(hint) if hint else None
                return k("[]", h if h and h[0] == "list" else ("list", ("hole", [None])))
            if ty == "u16" and last == "from_le_bytes" and len(args) == 1:
                return self.ex(args[0], ctx, lambda v, t: k(f"(u16_from_le_bytes {atom(v)})", ("int", 16)))
            sig = self.need_fn(ty, last)
            if sig is None:
                self.err(ctx, f"call of unknown function {ty}::{last}")
            if sig.has_self:
                hints = [("named", ty)] + sig.params
            else:
                hints = sig.params
            return self.exs(args, ctx, lambda vs: self.emit_call(sig, [v for v, _ in vs], ctx, k), hints)
        if last == "required" and len(args) == 1 and "<required>" in ctx.anyhow:
            # zksync_protobuf::required(&Option<T>) -> anyhow::Result<&T>
            def got_o(o, ot):
                ot = strip(ot)
                if ot[0] != "option":
                    self.err(ctx, "required() of a non-Option")
                return k(f"(ok_or {atom(o)} {ctx.anyhow['<required>']})", ("result", ot[1], ("named", "anyhow")))
            return self.ex(args[0], ctx, got_o)
        sig = self.need_fn("", last)
        if sig is None:
            self.err(ctx, f"call of unknown function {last}")
        return self.exs(args, ctx, lambda vs: self.emit_call(sig, [v for v, _ in vs], ctx, k), sig.params)

    def closure_m(self, c, ptypes, ctx):
        """closure whose body may panic -> (Gallina fun into the outcome monad or pure fun, result type, effectful)"""
        if c[0] != "closure" or len(c[1]) != len(ptypes):
            self.err(ctx, "expected a closure argument of matching arity")
        cctx = ctx.child(nested=True)
        pats = []
        for p, t in zip(c[1], ptypes):
            s, vs = self.pat(p, t, ctx)
            pats.append(s)
            for r, cq, ty in vs:
                cctx.vars[r] = (cq, ty)
                cctx.mut.discard(r)
        term, ty = self.value_term(c[2], cctx)
        eff = effectful(term)
        body = " ".join(render(term, eff, 0).split())
        return "(fun " + " ".join(lpat(p) for p in pats) + " => " + body + ")", ty, eff

    def closure(self, c, ptypes, ctx):
        """pure closure -> (Gallina fun, result type)"""
        if c[0] != "closure":
            self.err(ctx, "expected a closure argument")
        if len(c[1]) != len(ptypes):
            self.err(ctx, "closure arity")
        cctx = ctx.child(nested=True)
        pats = []
        for p, t in zip(c[1], ptypes):
            s, vs = self.pat(p, t, ctx)
            pats.append(s)
            for r, cq, ty in vs:
                cctx.vars[r] = (cq, ty)
                cctx.mut.discard(r)
        term, ty = self.value_term(c[2], cctx)
        if effectful(term):
            self.err(ctx, "closure body can panic: outside the subset")
        from r2c_ir import lpat
        return "(fun " + " ".join(lpat(p) for p in pats) + " => " + inline(term) + ")", ty

    def ex_mcall(self, e, ctx, k, hint, tail):
        recv, name, args = e[1], e[2], e[3]
        if len(e) > 4:
            self.err(ctx, f"method call {name}::<..> with explicit type arguments is outside the subset")
        if name == "unwrap_or" and len(args) == 1 and recv[0] == "mcall" and recv[2] == "try_into" and not recv[3]:
            # x.try_into().unwrap_or(d): the target type is the type of d
            def got_d(d, dt):
                dt = strip(dt)
                if dt[0] != "int":
                    self.err(ctx, "try_into() into a non-unsigned type is outside the subset")

                def got_x(x, xt):
                    if strip(xt)[0] not in ("int", "sint"):
                        self.err(ctx, "try_into() on a non-integer")
                    return k(f"(unwrap_or (uN_try_from {dt[1]} {atom(x)}) {atom(d)})", dt)
                return self.ex(recv[1], ctx, got_x)
            return self.ex(args[0], ctx, got_d, hint)

        def with_recv(r, t):
            t = strip(t)
            r = atom(r)
            kind = t[0]
            if name in ("clone", "to_owned") and not args:
                return k(r, t)
            if kind == "named" and name == "into" and not args and self.spec(t) and (self.spec(t)["kind"] == "opaque" or self.spec(t).get("into")):
                return k(r, t)          # conversions between wrappers of an opaque model value (Box<T>, T)
            if kind == "named":
                sig = self.need_fn(t[1], name)
                if sig is None:
                    self.err(ctx, f"method {t[1]}::{name} is neither translated nor in the callee table of this target")
                if not sig.has_self:
                    self.err(ctx, f"{t[1]}::{name} is not a method")
                if sig.flags.get("update") and sig.template and self.place(recv, ctx):
                    writer = self.place(recv, ctx)

                    def val_upd(vs):
                        v = self.fresh()
                        argv = [atom(x) for x, _ in vs]
                        return Let(v, sig.template.format(r, *argv), writer("(" + sig.flags["update"].format(r, *argv) + ")", k(v, sig.ret)))
                    return self.exs(args, ctx, val_upd, sig.params)
                if sig.flags.get("update") or sig.flags.get("sets_state"):
                    self.err(ctx, f"{t[1]}::{name} updates its receiver: only available as a statement on a place")
                if sig.eff == "s" and self.place(recv, ctx) and not (recv == ("path", ["self"])):
                    # a state method called on a `let mut` local: the local is replaced, the result is pending
                    writer = self.place(recv, ctx)

                    def call_s(vs):
                        res = self.fresh()
                        expr = " ".join([sig.coq, "chk", r] + [atom(v) for v, ps in zip([v for v, _ in vs], sig.params) if not self.dropped(ps)]
                                        + [ctx.vars[x][0] for x in sig.extra])
                        rt = strip(sig.ret)
                        val_t = ("result", rt[1], rt[2]) if rt[0] == "result" else sig.ret
                        pend = f"(snd {res})" if rt[0] == "result" else None
                        body = writer(f"(fst {res})", k(pend, val_t) if pend else Bind(self.fresh(), f"(snd {res})", k("tt", sig.ret)))
                        return Let(res, expr, body)
                    return self.exs(args, ctx, call_s, sig.params)
                return self.exs(args, ctx, lambda vs: self.emit_call(sig, [r] + [v for v, _ in vs], ctx, k), sig.params)
            if kind in ("result", "hres") and name == "wrap" and len(args) == 1:
                return k(r, t)          # error::Wrap only decorates the error
            if kind in ("result", "hres") and name in ("expect", "unwrap"):
                v = self.fresh()
                return Bind(v, f"{ctx.state or 'h'}expect {r}" if kind == "hres" else f"rexpect {r}", k(v, t[1]), h=(kind == "hres"))
            if kind == "result":
                if name == "map_err" and len(args) == 1:
                    f, et = self.err_fun(args[0], ctx, [t[2]])
                    return k(f"(rmap_err {f} {r})", ("result", t[1], et))
                if name in ("context", "with_context") and len(args) == 1:
                    # anyhow context on a Result: a message of the target's table names the model's error code for this
                    # failure; any other context only decorates the error
                    if args[0][0] == "str" and args[0][1] in ctx.anyhow:
                        return k(f"(rmap_err (fun _ => {ctx.anyhow[args[0][1]]}) {r})", ("result", t[1], ("named", "anyhow")))
                    return k(r, t)
                self.err(ctx, f"Result method {name} is outside the subset")
            if kind in ("int", "sint") and name == "into" and not args:
                h = strip(hint) if hint else None
                if h and h[0] == kind and h[1] >= t[1]:
                    return k(r, h)
                if h and h[0] == "sint" and kind == "int" and h[1] > t[1]:
                    return k(r, h)
                self.err(ctx, ".into() whose target type is not a known wider integer type")
            if kind == "int":
                b = t[1]
                if name == "checked_div" and len(args) == 1:
                    return self.ex(args[0], ctx, lambda v, _t: k(f"(uN_checked_div {r} {atom(v)})", ("option", t)), t)
                if name == "to_be_bytes" and b == 64 and not args:
                    return k(f"(u64_to_be_bytes {r})", ("list", ("int", 8)))
                one = {"checked_add": (f"uN_checked_add {b}" if b != 64 else "u64_checked_add", ("option", t)),
                       "checked_sub": ("uN_checked_sub", ("option", t)),
                       "checked_mul": (f"uN_checked_mul {b}", ("option", t)),
                       "saturating_add": (f"uN_saturating_add {b}", t), "saturating_sub": ("uN_saturating_sub", t),
                       "saturating_mul": (f"uN_saturating_mul {b}", t),
                       "wrapping_add": (f"uN_wrapping_add {b}", t), "wrapping_sub": (f"uN_wrapping_sub {b}", t),
                       "min": ("Z.min", t), "max": ("Z.max", t)}
                if name in one and len(args) == 1:
                    f, rt = one[name]
                    return self.ex(args[0], ctx, lambda v, _t: k(f"({f} {r} {atom(v)})", rt), t)
                if name == "to_le_bytes" and b == 16 and not args:
                    return k(f"(u16_to_le_bytes {r})", ("list", ("int", 8)))
                self.err(ctx, f"integer method {name} is outside the subset")
            if kind == "option":
                if name in ("is_some", "is_none") and not args:
                    return k(f"({name} {r})", ("bool",))
                if name in ("unwrap", "expect"):
                    v = self.fresh()
                    return Bind(v, f"unwrap {r}", k(v, t[1]))
                if name == "unwrap_or" and len(args) == 1:
                    return self.ex(args[0], ctx, lambda v, _t: k(f"(unwrap_or {r} {atom(v)})", unify(t[1], _t)), t[1])
                if name in ("as_ref", "copied", "cloned", "as_deref") and not args:
                    return k(r, t)
                if name == "is_none_or" and len(args) == 1:
                    f, rt = self.closure(args[0], [t[1]], ctx)
                    return k(f"(match {r} with Some x => {f} x | None => true end)", ("bool",))
                if name == "is_some_and" and len(args) == 1:
                    f, rt, eff = self.closure_m(args[0], [t[1]], ctx)
                    if eff:
                        v = self.fresh()
                        return Bind(v, f"is_some_and_m {f} {r}", k(v, ("bool",)))
                    return k(f"(match {r} with Some x => {f} x | None => false end)", ("bool",))
                if name == "context" and len(args) == 1:
                    code = self.anyhow_code(args[0], ctx)
                    return k(f"(ok_or {r} {code})", ("result", t[1], ("named", "anyhow")))
                if name == "map" and len(args) == 1:
                    a = args[0]
                    if a[0] == "path":
                        # .map(Self) / .map(Newtype): the constructor of a newtype is the identity
                        nm = ctx.self_type if a[1][-1] == "Self" else a[1][-1]
                        s = self.tget(nm)
                        if s and s["kind"] == "newtype":
                            return k(r, ("option", ("named", nm)))
                        self.err(ctx, f"Option::map({'::'.join(a[1])}) is outside the subset")
                    f, rt, eff = self.closure_m(a, [t[1]], ctx)
                    if eff:
                        v = self.fresh()
                        return Bind(v, f"option_map_m {f} {r}", k(v, ("option", rt)))
                    return k(f"(option_map {f} {r})", ("option", rt))
                self.err(ctx, f"Option method {name} is outside the subset")
            if kind in ("list", "map"):
                el = t[1] if kind == "list" else ("tuple", [t[2], t[3]])
                if kind == "map" and name == "keys" and not args:
                    return k(f"(map fst {r})", ("list", t[2]))
                if kind == "map" and name == "values" and not args:
                    return k(f"(map snd {r})", ("list", t[3]))
                if name in ("iter", "into_iter", "collect") and not args:
                    h = strip(hint) if hint else None
                    if name == "collect" and h and h[0] not in ("list", "hole"):
                        self.err(ctx, "collect into a non-Vec is outside the subset")
                    return k(r, ("list", el))
                if name == "len" and not args:
                    return k(f"(vec_len {r})", ("int", 64))
                if kind == "list" and name == "get" and len(args) == 1:
                    return self.ex(args[0], ctx, lambda v, _t: k(f"(vec_get {r} {atom(v)})", ("option", el)), ("int", 64))
                if kind == "list" and name in ("next", "first") and not args:
                    return k(f"(hd_error {r})", ("option", el))
                if name == "enumerate" and not args:
                    return k(f"(vec_enumerate {r})", ("list", ("tuple", [("int", 64), el])))
                if kind == "map" and name == "into_values" and not args:
                    return k(f"(map snd {r})", ("list", t[3]))
                if kind == "list" and name in ("min", "max") and not args and self.zlike(el):
                    return k(f"(list_{name} {r})", ("option", el))
                if kind == "map" and name == "split_off" and len(args) == 1 and t[1] == "BTreeMap" and self.zlike(t[2]):
                    writer = self.place(recv, ctx)

                    def got_sk(kv, kt):
                        v = self.fresh()
                        body = k(v, t)
                        hi = f"filter (fun e => {atom(kv)} <=? fst e) {r}"
                        if writer is None:
                            return Let(v, hi, body)
                        return Let(v, hi, writer(f"(filter (fun e => fst e <? {atom(kv)}) {r})", body))
                    return self.ex(args[0], ctx, got_sk, t[2])
                if kind == "map" and name == "remove" and len(args) == 1:
                    writer = self.place(recv, ctx)

                    def got_rk(kv, kt):
                        kt2 = unify(t[2], kt)
                        f = self.eqb(kt2, ctx)
                        v = self.fresh()
                        body = k(v, ("option", t[3]))
                        if writer is None:
                            return Let(v, f"bt_get {f} {r} {atom(kv)}", body)
                        return Let(v, f"bt_get {f} {r} {atom(kv)}", writer(f"(bt_remove {f} {r} {atom(kv)})", body))
                    return self.ex(args[0], ctx, got_rk)
                if kind == "map" and name == "get" and len(args) == 1:
                    def got_gk(kv, kt):
                        kt2 = unify(t[2], kt)
                        return k(f"(bt_get {self.eqb(kt2, ctx)} {r} {atom(kv)})", ("option", t[3]))
                    return self.ex(args[0], ctx, got_gk)
                if kind == "map" and name == "contains_key" and len(args) == 1 and t[1] == "BTreeMap":
                    def got_key(kv, kt):
                        kt2 = unify(t[2], kt)
                        return k(f"(bt_contains {self.eqb(kt2, ctx)} {r} {atom(kv)})", ("bool",))
                    return self.ex(args[0], ctx, got_key)
                if name == "is_empty" and not args:
                    return k(f"(vec_len {r} =? 0)", ("bool",))
                if kind == "list" and name == "none" and not args and strip(el) == ("bool",):
                    return k(f"(bitvec_none {r})", ("bool",))
                if name == "filter" and len(args) == 1:
                    f, _, eff = self.closure_m(args[0], [el], ctx)
                    if eff:
                        v = self.fresh()
                        return Bind(v, f"filter_m {f} {r}", k(v, ("list", el)))
                    return k(f"(filter {f} {r})", ("list", el))
                if kind == "list" and name == "contains" and len(args) == 1:
                    return self.ex(args[0], ctx, lambda v, vt: k(f"(existsb ({self.eqb(unify(el, vt), ctx)} {atom(v)}) {r})", ("bool",)), el)
                if kind == "list" and name == "count" and not args:
                    return k(f"(vec_len {r})", ("int", 64))
                if kind == "list" and name == "sum" and not args and strip(el) == ("int", 64):
                    v = self.fresh()
                    return Bind(v, f"sum_u64 chk {r}", k(v, ("int", 64)))
                if name == "filter_map" and len(args) == 1:
                    f, rt = self.closure(args[0], [el], ctx)
                    rt = strip(rt)
                    if rt[0] != "option":
                        self.err(ctx, "filter_map closure must return an Option")
                    return k(f"(filter_map {f} {r})", ("list", rt[1]))
                if name == "map" and len(args) == 1:
                    f, rt = self.closure(args[0], [el], ctx)
                    return k(f"(map {f} {r})", ("list", rt))
                if name == "any" and len(args) == 1:
                    f, rt, eff = self.closure_m(args[0], [el], ctx)
                    if strip(rt) != ("bool",):
                        self.err(ctx, "any: closure does not return bool")
                    if eff:
                        v = self.fresh()
                        return Bind(v, f"any_m {f} {r}", k(v, ("bool",)))
                    return k(f"(existsb {f} {r})", ("bool",))
                if name == "max_by_key" and len(args) == 1:
                    f, rt = self.closure(args[0], [el], ctx)
                    if not self.zlike(rt):
                        self.err(ctx, "max_by_key: key is not an integer")
                    self.derives(rt, "Ord", ctx)
                    return k(f"(max_by_key {f} {r})", ("option", el))
                if name == "pop" and not args and kind == "list":
                    if recv[0] != "path" or len(recv[1]) != 1 or recv[1][0] not in ctx.mut:
                        self.err(ctx, "pop on something that is not a `let mut` local")
                    v = self.fresh()
                    cq = ctx.vars[recv[1][0]][0]
                    return Let(f"({v}, {cq})", f"vec_pop {r}", k(v, ("option", el)))
                self.err(ctx, f"collection method {name} is outside the subset")
            self.err(ctx, f"method {name} on type {t} is outside the subset")
        return self.ex(recv, ctx, with_recv)

    def ex_field(self, e, ctx, k, hint, tail):
        name = e[2]

        def with_recv(r, t):
            t = strip(t)
            s = self.spec(t)
            if s and s["kind"] == "newtype" and name == "0":
                return k(r, s["inner"])
            if s and s["kind"] == "record" and name in s["fields"]:
                if s["fields"][name][0] is None:
                    self.err(ctx, f"field .{name} of {t[1]} has no counterpart in the hand model (type table)")
                proj, ft = s["fields"][name][0], s["fields"][name][-1]     # (projection, source type[, type used by the model])
                if proj.startswith("="):
                    return k(proj[1:], parse_type_src(ft))
                if "{0}" in proj:
                    return k("(" + proj.format(atom(r)) + ")", parse_type_src(ft))
                return k(f"({proj} {atom(r)})", parse_type_src(ft))
            if t[0] == "tuple" and name.isdigit() and int(name) < len(t[1]):
                n, i = len(t[1]), int(name)
                x = atom(r)
                for _ in range(n - 1 - i if i > 0 else n - 2):
                    x = f"(fst {x})"
                x = f"(snd {x})" if i > 0 else f"(fst {x})"
                return k(x, t[1][i])
            self.err(ctx, f"field .{name} of type {t} is outside the subset (not in the type table)")
        return self.ex(e[1], ctx, with_recv)

    def ex_index(self, e, ctx, k, hint, tail):
        def got_l(l, lt):
            lt = strip(lt)
            if lt[0] != "list":
                self.err(ctx, "indexing something that is not a Vec/slice is outside the subset unless bound by the target's expression table")

            def got_i(i, it):
                v = self.fresh()
                return Bind(v, f"vec_index {atom(l)} {atom(i)}", k(v, lt[1]))
            return self.ex(e[2], ctx, got_i, ("int", 64))
        return self.ex(e[1], ctx, got_l)

    def ex_unary(self, e, ctx, k, hint, tail):
        op = e[1]
        if op == "&mut":
            self.err(ctx, "`&mut` expressions are outside the subset")
        if op in ("&", "*"):
            return self.ex(e[2], ctx, k, hint)

        def got(v, t):
            t = strip(t)
            if op == "!" and t[0] == "bool":
                return k(f"(negb {atom(v)})", t)
            if op == "!" and t[0] == "int":
                return k(f"(uN_not {t[1]} {atom(v)})", t)
            self.err(ctx, f"unary {op} on {t} is outside the subset")
        return self.ex(e[2], ctx, got, hint)

    def ex_cast(self, e, ctx, k, hint, tail):
        to = strip(e[2])

        def got(v, t):
            t = strip(t)
            if to[0] == "int" and t[0] == "int":
                return k(v if to[1] >= t[1] else f"(uN_cast {to[1]} {atom(v)})", to)
            if to[0] == "sint" and t[0] == "int" and t[1] < to[1]:
                return k(v, to)
            if to[0] == "int" and t[0] == "bool":
                return k(f"(if {v} then 1 else 0)", to)
            self.err(ctx, f"cast from {t} to {to} is outside the subset")
        return self.ex(e[1], ctx, got, None if e[1][0] != "lit" else to)

    def ex_binary(self, e, ctx, k, hint, tail):
        op, a, b = e[1], e[2], e[3]
        if op in ("&&", "||"):
            def got_a(av, at):
                if strip(at)[0] != "bool":
                    self.err(ctx, f"{op} on a non-bool")
                sub, _ = self.value_term(b, ctx, ("bool",))
                if not effectful(sub):
                    return k(f"({atom(av)} {op} {atom(inline(sub))})", ("bool",))
                t = self.fresh()
                term = If(av, sub, Ret("false")) if op == "&&" else If(av, Ret("true"), sub)
                return BindT(t, term, k(t, ("bool",)))
            return self.ex(a, ctx, got_a, ("bool",))
        if op in ("<<", ">>") and b[0] == "lit":
            def got_s(av, at):
                at = strip(at)
                if at[0] != "int" or b[1] >= at[1]:
                    self.err(ctx, "shift of a non-integer or by a literal not below the width")
                return k(f"(uN_shl_lit {at[1]} {atom(av)} {b[1]})" if op == "<<" else f"(uN_shr_lit {atom(av)} {b[1]})", at)
            return self.ex(a, ctx, got_s, hint)
        swap = a[0] == "lit" and b[0] != "lit"
        first, second = (b, a) if swap else (a, b)
        arith_hint = hint if op not in ("==", "!=", "<", ">", "<=", ">=") else None

        def got1(v1, t1):
            def got2(v2, t2):
                av, bv = (v2, v1) if swap else (v1, v2)
                t = unify(t1, t2)
                av, bv = atom(av), atom(bv)
                if op in ("==", "!="):
                    f = self.eqb(t, ctx)
                    r = f"({av} =? {bv})" if f == "Z.eqb" else f"({f} {av} {bv})"
                    return k(r if op == "==" else f"(negb {r})", ("bool",))
                if op in ("<", ">", "<=", ">=") and a[0] == "tuple" and b[0] == "tuple" and len(a[1]) == 2 and len(b[1]) == 2:
                    st = strip(t)
                    if st[0] != "tuple" or not all(self.zlike(x) for x in st[1]):
                        self.err(ctx, "lexicographic comparison of tuples whose components are not integers of the model")
                    x1, x2, y1, y2 = f"(fst {av})", f"(snd {av})", f"(fst {bv})", f"(snd {bv})"
                    if op in ("<", "<="):
                        x1, x2, y1, y2 = y1, y2, x1, x2
                    strict = op in ("<", ">")
                    r = f"(({y1} <? {x1}) || (({x1} =? {y1}) && ({y2} {'<?' if strict else '<=?'} {x2})))"
                    return k(r, ("bool",))
                if op in ("<", ">", "<=", ">=") and strip(t)[0] == "option" and self.spec(strip(t)[1]) and self.spec(strip(t)[1]).get("ge"):
                    g = self.spec(strip(t)[1])["ge"]
                    self.derives(strip(t)[1], "PartialOrd", ctx)
                    r = {">=": f"(opt_ge {g} {av} {bv})", "<=": f"(opt_ge {g} {bv} {av})",
                         "<": f"(negb (opt_ge {g} {av} {bv}))", ">": f"(negb (opt_ge {g} {bv} {av}))"}[op]
                    return k(r, ("bool",))
                if op in ("<", ">", "<=", ">="):
                    if not self.zlike(t):
                        self.err(ctx, f"ordering comparison on type {t} is outside the subset")
                    self.derives(t, "PartialOrd", ctx)
                    r = {"<": f"({av} <? {bv})", ">": f"({bv} <? {av})", "<=": f"({av} <=? {bv})", ">=": f"({bv} <=? {av})"}[op]
                    return k(r, ("bool",))
                ts = strip(t)
                nm = strip(t1)[1] if strip(t1)[0] == "named" else None
                if nm and (nm, op) in self.ops:
                    tmpl, eff, rty = self.ops[(nm, op)]
                    rty = rty or strip(t1)
                    m = tmpl.format(av, bv)
                    if eff:
                        r = self.fresh()
                        return Bind(r, m, k(r, rty))
                    return k("(" + m + ")", rty)
                if ts[0] == "sint" and strip(t1) == strip(t2) and op in ("+", "-", "*", "/"):
                    m = f"sN_{ {'+': 'add', '-': 'sub', '*': 'mul', '/': 'div'}[op] } {ts[1]} chk {av} {bv}"
                    r = self.fresh()
                    return Bind(r, m, k(r, ts))
                bits = self.int_bits(t)
                if bits is None or self.int_bits(t1) != self.int_bits(t2):
                    self.err(ctx, f"operator {op} on types {strip(t1)}, {strip(t2)} is outside the subset (plain unsigned integers only)")
                if op in ("&", "|", "^"):
                    f = {"&": "Z.land", "|": "Z.lor", "^": "Z.lxor"}[op]
                    return k(f"({f} {av} {bv})", t)
                pre = "u64_" if bits == 64 else "uN_"
                w = "" if bits == 64 else f" {bits}"
                if op in ("+", "-", "*"):
                    m = f"{pre}{ {'+': 'add', '-': 'sub', '*': 'mul'}[op] }{w} chk {av} {bv}"
                elif op in ("/", "%"):
                    m = f"u64_{'div' if op == '/' else 'rem'} {av} {bv}"
                elif op in ("<<", ">>"):
                    m = f"uN_{'shl' if op == '<<' else 'shr'} {bits} chk {av} {bv}"
                else:
                    self.err(ctx, f"operator {op} is outside the subset")
                r = self.fresh()
                return Bind(r, m, k(r, t))
            return self.ex(second, ctx, got2, t1)
        return self.ex(first, ctx, got1, arith_hint)

    def ex_try(self, e, ctx, k, hint, tail):
        if strip(ctx.ret)[0] == "result":
            # `?` on a Result in a Result-returning function: monadic bind (an Err propagates like a panic does)
            def got_r(m, t):
                t = strip(t)
                if t[0] == "hres":
                    x = self.fresh()
                    return Bind(x, m, k(x, t[1]), h=True)
                if t[0] != "result":
                    self.err(ctx, "`?` on a non-Result in a Result-returning function")
                x = self.fresh()
                return Bind(x, m, k(x, t[1]))
            return self.ex(e[1], ctx, got_r)
        if ctx.nested or ctx.in_loop:
            self.err(ctx, "`?` inside a nested value expression / loop / closure is outside the subset")
        if strip(ctx.ret)[0] != "option":
            self.err(ctx, "`?` in a function that does not return Option or Result is outside the subset")

        def got(v, t):
            t = strip(t)
            if t[0] != "option":
                self.err(ctx, "`?` on a non-Option")
            x = self.fresh()
            return OBind(x, v, k(x, t[1]))
        return self.ex(e[1], ctx, got)

    def ex_return(self, e, ctx, k, hint, tail):
        if is_err_return(e) and strip(ctx.ret)[0] == "result":
            # an Err leaves the function from anywhere, like a panic does
            return self.ex(e[1][2][0], ctx, lambda v, t: ErrT(v))
        if ctx.nested:
            self.err(ctx, "`return` inside a nested value expression / loop / closure is outside the subset")
        if e[1] is None:
            return ctx.retk("tt", ("unit",))
        return self.ex(e[1], ctx, ctx.retk, ctx.ret, True)

    def ex_macro(self, e, ctx, k, hint, tail):
        if e[1] in ("unreachable", "panic"):
            return Fail("PUnreachable")
        self.err(ctx, f"{e[1]}! in expression position is outside the subset")

    def ex_closure(self, e, ctx, k, hint, tail):
        self.err(ctx, "closure outside an iterator/Option adaptor is outside the subset")

    def ex_assign(self, e, ctx, k, hint, tail):
        self.err(ctx, "assignment in expression position is outside the subset")

    def ex_while(self, e, ctx, k, hint, tail):
        self.err(ctx, "`while` loops are outside the subset (only their condition can be extracted by a target)")

    def ex_for(self, e, ctx, k, hint, tail):
        self.err(ctx, "`for` in expression position is outside the subset")

    def ex_struct(self, e, ctx, k, hint, tail):
        segs, fs, base = e[1], e[2], e[3]
        nm = ctx.self_type if segs[-1] == "Self" else segs[-1]
        if len(segs) >= 2:
            ety = ctx.self_type if segs[-2] == "Self" else segs[-2]
            es = self.tget(ety)
            if es and es["kind"] == "enum" and segs[-1] in es["variants"] and isinstance(es["variants"][segs[-1]][1], dict):
                vsp = es["variants"][segs[-1]]
                if sorted(f for f, _ in fs) != sorted(vsp[1]) or base is not None:
                    self.err(ctx, f"fields of variant {segs[-1]} differ from the type table")
                return self.exs([x for _, x in fs], ctx,
                                lambda vs: k(self.variant_apply((vsp[0], list(vsp[1])) + tuple(vsp[2:]), [v for v, _ in vs]), ("named", ety)),
                                [parse_type_src(vsp[1][f]) for f, _ in fs])
        s = self.tget(nm)
        if not s or s["kind"] != "record" or base is not None:
            self.err(ctx, f"struct literal {nm} is outside the subset")
        if sorted(f for f, _ in fs) != sorted(s["fields"]):
            self.err(ctx, f"struct literal {nm}: fields differ from the type table")
        hints = [parse_type_src(s["fields"][f][-1]) for f, _ in fs]
        if s.get("mk"):
            return self.exs([x for _, x in fs], ctx,
                            lambda vs: k("(" + s["mk"].format(**{f: atom(v) for (f, _), (v, _) in zip(fs, vs)}) + ")", ("named", nm)), hints)

        def got(vs):
            return k("{| " + "; ".join(f"{s['fields'][f][0]} := {v}" for (f, _), (v, _) in zip(fs, vs)) + " |}", ("named", nm))
        return self.exs([x for _, x in fs], ctx, got, hints)

    def branches(self, mk_terms, ctx, k, tail):
        """mk_terms(kk, cctx_factory) builds the branching Term given the continuation for branch values."""
        if tail and not ctx.nested:
            return mk_terms(k, lambda: ctx.child(), True)
        got = []

        def kk(v, t):
            got.append(t)
            return Ret(v)
        term = mk_terms(kk, lambda: ctx.child(nested=True), False)
        ty = ("hole", [None])
        for t in got:
            ty = unify(ty, t)
        if not effectful(term):
            return k(inline(term), ty)
        v = self.fresh()
        return BindT(v, term, k(v, ty))

    def ex_if(self, e, ctx, k, hint, tail):
        cond, th, el = e[1], e[2], e[3]
        if el is None:
            self.err(ctx, "`if` without `else` used as a value")

        def mk(kk, mkctx, tl):
            if cond[0] == "let":
                def got_s(s, t):
                    c1 = mkctx()
                    p, vs = self.pat(cond[1], t, ctx)
                    for r, cq, ty in vs:
                        c1.vars[r] = (cq, ty)
                        c1.mut.discard(r)
                    return Match(s, [(p, self.ex(th, c1, kk, hint, tl)), ("_", self.ex(el, mkctx(), kk, hint, tl))])
                return self.ex(cond[2], ctx, got_s)
            return self.ex(cond, ctx, lambda c, t: If(c, self.ex(th, mkctx(), kk, hint, tl), self.ex(el, mkctx(), kk, hint, tl)), ("bool",))
        return self.branches(mk, ctx, k, tail)

    def ex_match(self, e, ctx, k, hint, tail):
        def mk(kk, mkctx, tl):
            def got_s(s, t):
                arms = []
                for p, body in e[2]:
                    c1 = mkctx()
                    ps, vs = self.pat(p, t, ctx)
                    for r, cq, ty in vs:
                        c1.vars[r] = (cq, ty)
                        c1.mut.discard(r)
                    arms.append((ps, self.ex(body, c1, kk, hint, tl)))
                return Match(s, arms)
            return self.ex(e[1], ctx, got_s)
        return self.branches(mk, ctx, k, tail)

    def ex_block(self, e, ctx, k, hint, tail):
        return self.stmts(e[1], 0, e[2], ctx.child(), k, hint, tail)

    # ---- places that can be updated: `let mut` locals and (in a state function) fields of self with a setter
    def expr_root(self, e):
        while isinstance(e, tuple) and e and e[0] in ("mcall", "field", "index", "unary", "await", "try", "cast"):
            e = e[2] if e[0] == "unary" else e[1]
        return e

    def is_skipped(self, e, ctx):
        """metrics / logging expressions are never translated"""
        r = self.expr_root(e)
        if isinstance(r, tuple) and r and r[0] == "path":
            if "METRICS" in r[1] or r[1][0] in ("metrics", "tracing") or (len(r[1]) == 1 and r[1][0] in ctx.skipvars):
                return True
        return isinstance(r, tuple) and r and r[0] == "macro" and r[1] == "tracing"

    def place(self, e, ctx):
        """-> (reader expression AST, writer(newval, rest) -> Term) or None"""
        if e[0] == "unary" and e[1] in ("&", "*"):
            return self.place(e[2], ctx)
        if e[0] == "path" and len(e[1]) == 1 and e[1][0] in ctx.mut:
            name = e[1][0]
            cq = ctx.vars[name][0]
            return lambda v, rest: Let(cq, v, rest)
        if ctx.state and e == ("path", [ctx.state_var]):
            return lambda v, rest: SetState(v, rest)      # the state value itself (e.g. the map handed to a watch closure)
        if ctx.state and e[0] == "field" and e[1] == ("path", [ctx.state_var]):
            sp = self.spec(ctx.vars[ctx.state_var][1])
            if sp and sp["kind"] == "newtype" and e[2] == "0":
                return lambda v, rest: SetState(v, rest)
            st = sp.get("setters", {}).get(e[2]) if sp else None
            if st:
                return lambda v, rest: SetState(st.format(s="s", v=atom(v)), rest)
        if e[0] == "field" and e[1][0] == "field" and self.place(e[1], ctx):
            # a field of a record that is itself a place: rebuild the record
            probe = []
            try:
                self.ex(e[1], ctx, lambda m, mt: (probe.append((m, mt)), Ret("tt"))[1])
            except ParseError:
                probe = []
            if probe:
                sp = self.spec(probe[0][1])
                st = sp.get("setters", {}).get(e[2]) if sp and sp["kind"] == "record" else None
                if st:
                    w1 = self.place(e[1], ctx)
                    r1 = atom(probe[0][0])
                    return lambda v, rest: w1(st.format(s=r1, v=atom(v)), rest)
        if e[0] == "field" and e[2] == "0" and e[1][0] == "path" and len(e[1][1]) == 1 and e[1][1][0] in ctx.mut:
            sp = self.spec(ctx.vars[e[1][1][0]][1])
            if sp and sp["kind"] == "newtype":
                return self.place(e[1], ctx)
        return None

    # ---- statements
    def state_pat(self, names, ctx):
        cs = [ctx.vars[n][0] for n in names]
        if not cs:
            return "_", "tt"
        if len(cs) == 1:
            return cs[0], cs[0]
        return "(" + ", ".join(cs) + ")", "(" + ", ".join(cs) + ")"

    def stmts(self, ss, i, tailexpr, ctx, k, hint, tail):
        if i == len(ss):
            if tailexpr is None:
                return k("tt", ("unit",))
            if tailexpr[0] == "if" and tailexpr[3] is None:
                return self.stmt_if(tailexpr, ctx, lambda: k("tt", ("unit",)))
            return self.ex(tailexpr, ctx, k, hint, tail)
        s = ss[i]

        def rest():
            return self.stmts(ss, i + 1, tailexpr, ctx, k, hint, tail)
        if s in ctx.allowed_stmts:
            return rest()
        if s[0] == "let" and self.is_skipped(s[3], ctx) and s[1][0] == "pbind":
            ctx.skipvars.add(s[1][1])
            return rest()
        if s[0] == "expr" and self.is_skipped(s[1], ctx):
            return rest()
        if s[0] == "let":
            _, p, ty, init, els, mut = s

            def got(v, t):
                t = unify(ty, t) if ty is not None else t
                init0 = init[1] if init[0] == "await" else init
                bound = any(init0 == b.get("ast") or (b.get("macro") and init0[0] == "macro_opaque" and init0[1] == b["macro"]) for b in ctx.binds)
                if strip(t)[0] == "result" and not bound and init0[0] != "async_block":
                    self.err(ctx, "a Result value bound by `let` (instead of `?`) is outside the subset")
                if els is not None:
                    if ctx.nested:
                        self.err(ctx, "let-else inside a nested value expression is outside the subset")
                    ps, vs = self.pat(p, t, ctx)
                    else_term = self.ex(els, ctx.child(), ctx.retk, ctx.ret, True)
                    for r, cq, vt in vs:
                        ctx.vars[r] = (cq, vt)
                        ctx.mut.discard(r)
                    return Match(v, [(ps, rest()), ("_", else_term)])
                if p[0] == "pbind":
                    name = p[1]
                    if mut:
                        ctx.mut.add(name)
                    else:
                        ctx.mut.discard(name)
                    if re.match(r"^\w+$", v) and not v.isdigit() and not mut and v not in ("true", "false", "None") and not ctx.binds:
                        ctx.vars[name] = (v, t)
                        return rest()
                    ctx.vars[name] = ("v_" + name, t)
                    return Let("v_" + name, v, rest())
                if mut:
                    self.err(ctx, "`let mut` with a pattern is outside the subset")
                ps, vs = self.pat(p, t, ctx)
                for r, cq, vt in vs:
                    ctx.vars[r] = (cq, vt)
                    ctx.mut.discard(r)
                return Let(ps, v, rest())
            return self.ex(init, ctx, got, ty)
        e = s[1]
        if e in ctx.allowed:
            return rest()
        last = (i == len(ss) - 1 and tailexpr is None)
        if e[0] == "return":
            if not last:
                self.err(ctx, "statements after `return`")
            return self.ex_return(e, ctx, k, hint, tail)
        if e[0] == "macro":
            name, args = e[1], e[2]
            if name in ("unreachable", "panic"):
                return Fail("PUnreachable")
            if name == "tracing":
                return rest()
            if name in ("assert", "debug_assert") and len(args) >= 1:
                if name == "debug_assert":
                    # debug assertions are on exactly in the profile that has overflow checks on (cargo dev / release)
                    return self.ex(args[0], ctx, lambda c, t: Bind("_", f"rdebug_assert chk {atom(c)}", rest()), ("bool",))
                return self.ex(args[0], ctx, lambda c, t: If(c, rest(), Fail("PAssert")), ("bool",))
            if name == "ensure" and len(args) >= 2:
                code = self.anyhow_code(args[1], ctx)
                return self.ex(args[0], ctx, lambda c, t: If(c, rest(), ErrT(code)), ("bool",))
            if name == "bail" and len(args) >= 1:
                return ErrT(self.anyhow_code(args[0], ctx))
            if name in ("assert_eq", "assert_ne") and len(args) >= 2:
                cmp = ("binary", "==" if name == "assert_eq" else "!=", args[0], args[1])
                return self.ex(cmp, ctx, lambda c, t: If(c, rest(), Fail("PAssert")))
            self.err(ctx, f"macro {name}! is outside the subset")
        if e[0] == "if":
            return self.stmt_if(e, ctx, rest)
        if e[0] == "for":
            return self.stmt_for(e, ctx, rest)
        if e[0] == "assign":
            return self.stmt_assign(e, ctx, rest)
        if e[0] == "continue":
            if ctx.loop_k is None:
                self.err(ctx, "`continue` outside a translated loop body")
            return ctx.loop_k()
        if e[0] == "mcall" and self.place(e[1], ctx):
            # a method that updates its receiver, given by the callee table (`update`: the new value of the receiver)
            handled = []

            def try_update(m, mt):
                mt2 = strip(mt)
                sig = self.need_fn(mt2[1], e[2]) if mt2[0] == "named" else None
                if sig is not None and sig.flags.get("update"):
                    handled.append(1)
                    writer = self.place(e[1], ctx)
                    return self.exs(e[3], ctx, lambda vs: writer("(" + sig.flags["update"].format(atom(m), *[atom(v) for v, _ in vs]) + ")", rest()),
                                    sig.params)
                if mt2[0] == "list" and e[2] == "clear" and not e[3]:
                    handled.append(1)
                    return self.place(e[1], ctx)("[]", rest())
                if mt2[0] == "list" and e[2] == "retain" and len(e[3]) == 1:
                    handled.append(1)
                    f, _ = self.closure(e[3][0], [mt2[1]], ctx)
                    return self.place(e[1], ctx)(f"(filter {f} {atom(m)})", rest())
                if mt2[0] == "list" and e[2] in ("push", "push_back", "insert") and len(e[3]) == 1:
                    handled.append(1)
                    writer = self.place(e[1], ctx)
                    return self.ex(e[3][0], ctx, lambda v, vt: (unify(mt2[1], vt), writer(
                        f"({atom(m)} ++ [{v}])" if e[2] in ("push", "push_back") else f"({atom(v)} :: {atom(m)})", rest()))[1], mt2[1])
                return None
            probe = []
            try:
                self.ex(e[1], ctx, lambda m, mt: (probe.append((m, mt)), Ret("tt"))[1])
            except ParseError:
                probe = []
            if probe:
                r0 = try_update(*probe[0])
                if r0 is not None:
                    return r0
        if e[0] == "mcall" and ctx.state:
            sg = None
            probe = []
            try:
                self.ex(e[1], ctx, lambda m, mt: (probe.append((m, mt)), Ret("tt"))[1])
            except ParseError:
                probe = []
            if probe and strip(probe[0][1])[0] == "named":
                sg = self.need_fn(strip(probe[0][1])[1], e[2])
            if sg is not None and sg.flags.get("sets_state"):
                return self.exs(e[3], ctx, lambda vs: SetState(vs[0][0], rest()), sg.params)
        if e[0] == "mcall" and e[2] in ("retain", "insert") and self.place(e[1], ctx) and not (
                e[2] == "insert" and e[1][0] == "path"):
            writer = self.place(e[1], ctx)

            def got_m(m, mt):
                mt = strip(mt)
                if mt[0] != "map":
                    self.err(ctx, f"{e[2]} on something that is not a map")
                if e[2] == "retain":
                    f, _ = self.closure(("closure", [("ptuple", e[3][0][1])], e[3][0][2]) if e[3][0][0] == "closure" else e[3][0],
                                        [("tuple", [mt[2], mt[3]])], ctx)
                    return writer(f"(filter {f} {atom(m)})", rest())
                if mt[1] != "BTreeMap" or not self.zlike(mt[2]):
                    self.err(ctx, "insert into a map that is not a BTreeMap with integer-ordered keys")
                return self.exs(e[3], ctx, lambda vs: writer(f"(bt_insert Z.ltb Z.eqb {atom(m)} {atom(vs[0][0])} {atom(vs[1][0])})", rest()),
                                [mt[2], mt[3]])
            return self.ex(e[1], ctx, got_m)
        if (e[0] == "mcall" and e[2] == "insert" and len(e[3]) == 2 and e[1][0] == "path" and len(e[1][1]) == 1
                and e[1][1][0] in ctx.mut and strip(ctx.vars[e[1][1][0]][1])[0] == "map"):
            name = e[1][1][0]
            cq, mt = ctx.vars[name]
            mt = strip(mt)
            if mt[1] != "BTreeMap":
                self.err(ctx, "insert into a HashMap is outside the subset (iteration order)")

            def got_kv(vs):
                (kv, kt), (vv, vt) = vs
                kt2, vt2 = unify(mt[2], kt), unify(mt[3], vt)
                if not self.zlike(kt2):
                    self.err(ctx, "BTreeMap key whose order is not the integer order of its model")
                self.derives(kt2, "Ord", ctx)
                ctx.vars[name] = (cq, ("map", "BTreeMap", kt2, vt2))
                return Let(cq, f"bt_insert Z.ltb Z.eqb {cq} {atom(kv)} {atom(vv)}", rest())
            return self.exs(e[3], ctx, got_kv)
        if e[0] in ("block", "try", "match"):
            return self.ex(e, ctx, lambda v, t: rest())
        if e[0] in ("mcall", "call", "await"):
            # a call evaluated for its effect (every callee is translated or a table entry, so the effect is known)
            def discard(v, t):
                if strip(t)[0] in ("result", "hres"):
                    self.err(ctx, "a Result is computed and dropped without `?` / expect")
                return rest()
            return self.ex(e, ctx, discard)
        if e in ctx.allowed:
            return rest()
        self.err(ctx, f"statement `{e[0]} {e[2] if e[0] == 'mcall' else ''}` is outside the subset "
                      "(not pure, and not in the target's list of pinned effect statements)")

    def stmt_if(self, e, ctx, rest):
        cond, th, el = e[1], e[2], e[3]
        dth, del_ = diverges(th), diverges(el)

        def build(c_then, c_else):
            """c_then / c_else: callables (ctx) -> Term"""
            if cond[0] == "let":
                def got_s(s, t):
                    c1 = ctx.child()
                    p, vs = self.pat(cond[1], t, ctx)
                    for r, cq, ty in vs:
                        c1.vars[r] = (cq, ty)
                        c1.mut.discard(r)
                    return Match(s, [(p, c_then(c1)), ("_", c_else(ctx.child()))])
                return self.ex(cond[2], ctx, got_s)
            return self.ex(cond, ctx, lambda c, t: If(c, c_then(ctx.child()), c_else(ctx.child())), ("bool",))
        if dth or del_:
            if ctx.nested and (has_value_return([th, el]) or (has_any_return([th, el]) and strip(ctx.ret)[0] != "result")):
                self.err(ctx, "early `return` inside a nested value expression / loop is outside the subset")

            def side(blk, div):
                if blk is None:
                    return lambda c: rest()
                if div:
                    return lambda c: self.ex(blk, c, ctx.retk, ctx.ret, True)
                return lambda c: self.ex(blk, c, lambda v, t: rest())
            return build(side(th, dth), side(el, del_))
        if has_escape(th) or has_escape(el):
            # a branch may leave the sequence (continue / return) without always doing so: the statements that follow
            # are continued inside each branch
            if ctx.nested and (has_value_return([th, el]) or (has_any_return([th, el]) and strip(ctx.ret)[0] != "result")):
                self.err(ctx, "early `return` inside a nested value expression / loop is outside the subset")

            def seq(blk):
                if blk is None:
                    return lambda c: rest()
                return lambda c: self.ex(blk, c, lambda v, t: rest())
            return build(seq(th), seq(el))
        # no branch leaves the function: the statement can only update `let mut` locals
        mset = mutated([th, el], set())
        ms = [n for n in ctx.vars if n in mset and n in ctx.mut]      # declaration order: stable under renaming of locals
        spat, sval = self.state_pat(ms, ctx)

        def side2(blk):
            if blk is None:
                return lambda c: Ret(sval)

            def f(c):
                c.nested = True
                return self.ex(blk, c, lambda v, t: Ret(self.state_pat(ms, c)[1]))
            return f
        term = build(side2(th), side2(el))
        return BindT(spat, term, rest())

    def stmt_for(self, e, ctx, rest):
        p, it, body = e[1], e[2], e[3]
        mset = mutated(body, set())
        ms = [n for n in ctx.vars if n in mset and n in ctx.mut]      # declaration order: stable under renaming of locals

        early = has_value_return(body)
        if not ms and not early and strip(ctx.ret)[0] != "result" and not ctx.state:
            self.err(ctx, "`for` loop that neither updates a `let mut` local nor returns is outside the subset")
        if early and ctx.nested:
            self.err(ctx, "`for` loop with `return` inside a nested value expression is outside the subset")

        def got(l, t):
            t = strip(t)
            sp = self.spec(t)
            if sp and sp.get("iter"):
                l = "(" + sp["iter"][0].format(atom(l)) + ")"
                t = strip(parse_type_src(sp["iter"][1]))
            if t[0] == "list":
                el = t[1]
            elif t[0] == "map":
                el = ("tuple", [t[2], t[3]])
            else:
                self.err(ctx, f"`for` over type {t} is outside the subset")
            if early and ctx.state:
                self.err(ctx, "`for` loop with a value `return` inside a state method is outside the subset")
            if early:
                c = ctx.child(nested=False)
                c.in_loop = True
                c.retk = lambda v, _t: Ret(f"(inl {atom(v)})")
                ps, vs = self.pat(p, el, ctx)
                for r, cq, ty in vs:
                    c.vars[r] = (cq, ty)
                    c.mut.discard(r)
                spat, sval = self.state_pat(ms, ctx)
                bt = self.ex(body, c, lambda v, _t: Ret(f"(inr {atom(self.state_pat(ms, c)[1])})"))
                tmp, rv = self.fresh(), self.fresh()
                m = (f"fold_ret (fun {lpat(spat)} {lpat(ps)} =>\n" + render(bt, True, 3) + f")\n      {atom(l)} {atom(sval)}")
                return Bind(tmp, m, Match(tmp, [(f"inl {rv}", ctx.retk(rv, ctx.ret)), (f"inr {spat}", rest())]))
            c = ctx.child(nested=True)
            ps, vs = self.pat(p, el, ctx)
            for r, cq, ty in vs:
                c.vars[r] = (cq, ty)
                c.mut.discard(r)
            spat, sval = self.state_pat(ms, ctx)
            c.loop_k = lambda: Ret(self.state_pat(ms, c)[1])
            bt = self.ex(body, c, lambda v, _t: Ret(self.state_pat(ms, c)[1]))
            if ctx.state == "h":
                self.err(ctx, "`for` loops in a method of the replica state machine are outside the subset")
            return Fold(spat, ps, bt, l, sval, rest())
        return self.ex(it, ctx, got)

    def stmt_assign(self, e, ctx, rest):
        op, lhs, rhs = e[1], e[2], e[3]
        if ctx.state and lhs[0] == "field" and lhs[1][0] == "field" and self.place(lhs, ctx) and op == "=":
            writer = self.place(lhs, ctx)
            return self.ex(rhs, ctx, lambda v, vt: writer(v, rest()))
        if ctx.state and lhs[0] == "field" and lhs[1] == ("path", [ctx.state_var]):
            sp = self.spec(ctx.vars[ctx.state_var][1])
            if lhs[2] in sp.get("ignored_assign", []):
                return rest()        # a field the model does not have (timers): the assignment is not translated
            writer = self.place(lhs, ctx)
            if writer is None:
                self.err(ctx, f"assignment to {ctx.state_var}.{lhs[2]}: no setter in the type table")
            ft = parse_type_src(sp["fields"][lhs[2]][-1])
            src = rhs if op == "=" else ("binary", op[:-1], lhs, rhs)
            return self.ex(src, ctx, lambda v, vt: writer(v, rest()), ft)
        if lhs[0] == "path" and len(lhs[1]) == 1 and lhs[1][0] in ctx.mut:
            name = lhs[1][0]
            cq, t = ctx.vars[name]
            src = rhs if op == "=" else ("binary", op[:-1], lhs, rhs)

            def got(v, vt):
                ctx.vars[name] = ("v_" + name, unify(t, vt))
                return Let("v_" + name, v, rest())
            return self.ex(src, ctx, got, t)
        if (op == "+=" and lhs[0] == "unary" and lhs[1] == "*" and lhs[2][0] == "mcall" and lhs[2][2] == "or_default"
                and not lhs[2][3] and lhs[2][1][0] == "mcall" and lhs[2][1][2] == "entry" and len(lhs[2][1][3]) == 1
                and lhs[2][1][1][0] == "path" and len(lhs[2][1][1][1]) == 1 and lhs[2][1][1][1][0] in ctx.mut):
            name = lhs[2][1][1][1][0]
            cq, t = ctx.vars[name]
            t = strip(t)
            if t[0] != "map" or t[1] != "HashMap" or strip(t[3]) != ("int", 64):
                self.err(ctx, "entry(..).or_default() += .. on something that is not a HashMap<_, u64>")
            key = lhs[2][1][3][0]

            def got_w(w, wt):
                def got_k(kv, kt):
                    kt2 = unify(t[2], kt)
                    f = self.eqb(kt2, ctx)
                    self.derives(kt2, "Hash", ctx)
                    ctx.vars[name] = (cq, ("map", t[1], kt2, t[3]))
                    return Bind(cq, f"hm_entry_add {f} chk {cq} {atom(kv)} {atom(w)}", rest())
                return self.ex(key, ctx, got_k)
            return self.ex(rhs, ctx, got_w, ("int", 64))
        self.err(ctx, "assignment to anything but a `let mut` local (or the HashMap tally idiom) is outside the subset")

    # ---- definitions
    def define_fn(self, what, self_type, coq_name, params, ret, body_ast, binds=(), allowed=(), as_expr=False, state=(),
                  anyhow=None, err_coq=None, extra=(), allowed_stmts=(), state_fn=False, state_coq=None, state_var="self", mutable=()):
        """params: [(rust name, type)] (including self if wanted). Returns Sig.
        state: names of parameters that are updated in place (fields of `&mut self` read as locals); the
        definition then returns their final values (the Rust function must return ())."""
        ctx = Ctx(what, self_type, ret, binds, allowed)
        for n, t in list(params) + list(extra):
            if self.dropped(t):
                ctx.skipvars.add(n)      # a parameter of a type the model has no counterpart for (ctx, the byte stream)
                continue
            if strip(t) != t and t[0] == "refmut" and not (state_fn and n == state_var):
                self.err(ctx, f"`&mut` parameter {n} is outside the subset")
            ctx.vars[n] = ("v_" + n, t)
        for n in list(state) + list(mutable):
            ctx.mut.add(n)
        ctx.anyhow = dict(anyhow or {})
        ctx.allowed_stmts = list(allowed_stmts)
        is_res = strip(ret)[0] == "result"
        params = [(n, t) for n, t in params if not self.dropped(t)]
        if state_fn:
            ctx.state = state_fn if isinstance(state_fn, str) else "h"
            ctx.state_var = state_var
            ctx.vars[state_var] = ("s", dict(params)[state_var] if state_var in dict(params) else ("named", self_type))

        def retk(v, t):
            if is_res:
                if strip(t)[0] not in ("result", "hres"):
                    self.err(ctx, "a Result-returning function returning a non-Result value")
                if strip(t)[0] == "result":
                    unify(ret, t)
                if strip(t)[0] == "hres":
                    return MonT(v, h=True)
                if v.startswith("(Ok ") and v.endswith(")"):
                    return Ret(v[4:-1])
                if v.startswith("(Err ") and v.endswith(")"):
                    return ErrT(v[5:-1])
                return MonT(v)
            if state:
                if strip(t) != ("unit",):
                    self.err(ctx, "a state-updating function must return ()")
                return Ret(self.state_pat(list(state), ctx)[1])
            unify(ret, t)
            return Ret(v)
        if state:
            ret = ("tuple", [dict(params)[n] for n in state]) if len(state) > 1 else dict(params)[state[0]]
            ctx.ret = ("unit",)
        ctx.retk = retk
        if as_expr:
            term = self.ex(body_ast, ctx, retk, ret, True)
        else:
            term = self.stmts(body_ast[1], 0, body_ast[2], ctx, retk, ret, True)
        eff = effectful(term) or is_res
        if state_fn:
            args = " ".join(("(s : " + (state_coq or self.coq_type(t)) + ")") if n == state_var else f"(v_{n} : {self.coq_type(t)})"
                            for n, t in list(params) + list(extra))
            rt = self.coq_type(strip(ret)[1]) if is_res else self.coq_type(ret)
            if ctx.state == "s":
                st_coq = state_coq or self.coq_type(("named", self_type))
                head = f"Definition {coq_name} (chk : bool) {args} : sres {atom(st_coq)} {atom(err_coq or 'unit')} {atom(rt)} :="
            else:
                head = f"Definition {coq_name} (chk : bool) {args} : hres {atom(rt)} :="
            self.out.append((coq_name, head.replace("  ", " ") + "\n" + render(term, ctx.state, 1) + "."))
            return ctx.state
        args = " ".join(f"(v_{n} : {self.coq_type(t)})" for n, t in list(params) + list(extra))
        if is_res:
            et = strip(ret)[2]
            ec = err_coq or (self.coq_type(et) if et != ("named", "anyhow") else None)
            if ec is None:
                self.err(ctx, "anyhow::Result function without an error type given by the target")
            head = f"Definition {coq_name} (chk : bool) {args} : outcome {atom(ec)} {atom(self.coq_type(strip(ret)[1]))} :="
            text = head.replace("  ", " ") + "\n" + render(term, True, 1) + "."
            self.out.append((coq_name, text))
            return True
        rt = self.coq_type(ret)
        if eff:
            head = f"Definition {coq_name} {{E : Type}} (chk : bool) {args} : outcome E {atom(rt)} :="
        else:
            head = f"Definition {coq_name} {args} : {rt} :="
        text = head.replace("  ", " ") + "\n" + render(term, eff, 1) + "."
        self.out.append((coq_name, text))
        return eff

    def define_const(self, what, self_type, coq_name, ty, expr_ast):
        ctx = Ctx(what, self_type, ty)
        term, t = self.value_term(expr_ast, ctx, ty if strip(ty)[0] == "int" else
                                  (self.spec(ty)["inner"] if self.spec(ty) and self.spec(ty)["kind"] == "newtype" else ty))
        if effectful(term):
            self.err(ctx, "constant expression can panic")
        self.out.append((coq_name, f"Definition {coq_name} : {self.coq_type(ty)} := {inline(term)}."))
