"""JSON descriptions of consensus messages (as the harness `vh::msgs` reads them) and their
rendering as Coq terms of Model/Msgs.v."""
from common import coq_z, coq_list, coq_bool, coq_opt


def view(g, e, n):
    return {"g": g, "e": str(e), "n": str(n)}


def header(n, p):
    return {"n": str(n), "p": p}


def commit(v, h):
    return {"v": v, "h": h}


def sig_commit(k, c):
    return {"k": k, "m": {"commit": c}}


def sig_timeout(k, t):
    return {"k": k, "m": {"timeout": t}}


def sig_other(k, i):
    return {"k": k, "m": {"other": i}}


def cqc(msg, signers, agg):
    return {"msg": msg, "signers": [1 if b else 0 for b in signers], "agg": agg}


def timeout(v, hv, hq):
    return {"v": v, "hv": hv, "hq": hq}


def tqc(v, entries, agg):
    return {"v": v, "map": [[t, [1 if b else 0 for b in s]] for (t, s) in entries], "agg": agg}


def valid_cqc(committee, msg, signer_idx):
    """committee: list of (rank, weight) sorted by rank; signer_idx: indices into committee."""
    bits = [i in signer_idx for i in range(len(committee))]
    agg = [sig_commit(committee[i][0], msg) for i in sorted(signer_idx)]
    return cqc(msg, bits, agg)


# ---------- Coq rendering ----------

def c_view(v):
    return "{| vgen := %s; vepoch := %s; vnum := %s |}" % (coq_z(v["g"]), coq_z(v["e"]), coq_z(v["n"]))


def c_header(h):
    return "{| hnum := %s; hpay := %s |}" % (coq_z(h["n"]), coq_z(h["p"]))


def c_commit(c):
    return "{| cview := %s; cprop := %s |}" % (c_view(c["v"]), c_header(c["h"]))


def c_bits(b):
    return coq_list([coq_bool(bool(x)) for x in b])


def c_sigref(s):
    m = s["m"]
    if "commit" in m:
        r = "RCommit %s" % c_commit(m["commit"])
    elif "timeout" in m:
        r = "ROther (-1)"  # a signature over a timeout message inside a commit aggregate
    else:
        r = "ROther %s" % coq_z(m["other"])
    return "(%s, %s)" % (coq_z(s["k"]), r)


def c_cqc(q):
    return "{| qmsg := %s; qsigners := %s; qagg := %s |}" % (
        c_commit(q["msg"]), c_bits(q["signers"]), coq_list([c_sigref(s) for s in q["agg"]]))


def c_timeout(t):
    return "{| tview := %s; thv := %s; thq := %s |}" % (
        c_view(t["v"]),
        coq_opt(None if t["hv"] is None else c_commit(t["hv"])),
        coq_opt(None if t["hq"] is None else c_cqc(t["hq"])))


def c_tsigref(s):
    m = s["m"]
    if "timeout" in m:
        r = "TTimeout %s" % c_timeout(m["timeout"])
    elif "commit" in m:
        r = "TOther (-1)"
    else:
        r = "TOther %s" % coq_z(m["other"])
    return "(%s, %s)" % (coq_z(s["k"]), r)


def c_tqc(t, order=None):
    entries = t["map"]
    if order is not None:
        entries = [entries[i] for i in order]
    return "{| tqview := %s; tqmap := %s; tqagg := %s |}" % (
        c_view(t["v"]),
        coq_list(["(%s, %s)" % (c_timeout(e[0]), c_bits(e[1])) for e in entries]),
        coq_list([c_tsigref(s) for s in t["agg"]]))


def c_committee(c):
    return coq_list(["{| mkey := %d; mweight := %s |}" % (k, coq_z(w)) for (k, w) in c])


def c_signed_commit(s):
    return "{| skey := %s; smsg := %s; ssig := %s |}" % (coq_z(s["key"]), c_commit(s["msg"]), c_sigref(s["sig"]))


def c_signed_timeout(s):
    return "{| skey := %s; smsg := %s; ssig := %s |}" % (coq_z(s["key"]), c_timeout(s["msg"]), c_tsigref(s["sig"]))


def c_justification(j, order=None):
    if "commit" in j:
        return "JCommit %s" % c_cqc(j["commit"])
    return "JTimeout %s" % c_tqc(j["timeout"], order)


def committee_json(c):
    return [[k, str(w)] for (k, w) in c]


def total(c):
    return sum(w for _, w in c)


def quorum(c):
    n = total(c)
    return n - (n - 1) // 5


def subquorum(c):
    n = total(c)
    return n - 3 * ((n - 1) // 5)


def weight(c, idx):
    return sum(c[i][1] for i in idx)
