#!/usr/bin/env python3
"""Self-test of the source translator on a patched COPY of the Rust sources (never touches /repo, never
writes into coq/theories):

  gen/r2c_selftest.py <target> <Properties/CxxGen.v> <patch.diff | file@@python-regex@@replacement>

Copies the sources the translator reads to build/r2c_selftest/repo, applies the change there, translates the
target (and its dependencies) from the copy, and compiles the generated modules + the theorem file against them
in a scratch directory.  Prints PARSE_ERROR / COQ FAILED / THEOREMS STILL COMPILE."""
import os
import re
import shutil
import subprocess
import sys

HERE = os.path.dirname(os.path.abspath(__file__))
WORK = os.path.join(os.path.dirname(HERE), "build", "r2c_selftest")


def main():
    target, prop, patch = sys.argv[1], sys.argv[2], sys.argv[3]
    root = os.path.join(WORK, "repo")
    shutil.rmtree(WORK, ignore_errors=True)
    os.makedirs(root)
    os.environ["VERIF_R2C_REPO"] = root
    sys.path.insert(0, HERE)
    import rust2coq as X
    srcs = {i["src"] for t in X.TARGETS.values() for i in t["items"]} | {s["src"] for s in X.TYPES.values() if s.get("src")}
    srcs |= {s["src"] for t in X.TARGETS.values() for s in t.get("types", {}).values() if s.get("src")}
    for s in srcs:
        os.makedirs(os.path.dirname(s), exist_ok=True)
        shutil.copy(os.path.join(os.environ.get("R2C_SELFTEST_SRC") or "/repo", os.path.relpath(s, root)), s)
    if patch.endswith(".diff"):
        r = subprocess.run(["patch", "-p1", "-s", "-d", root, "-i", os.path.abspath(patch)], capture_output=True, text=True)
        if r.returncode:
            print("PATCH FAILED", r.stdout, r.stderr)
            return 2
    else:
        f, a, b = patch.split("@@")
        p = os.path.join(root, f)
        new, n = re.subn(a, b, open(p).read(), flags=re.S)
        if n < 1:
            print("pattern not found")
            return 2
        open(p, "w").write(new)
    mods = {}
    order = []

    def collect(t):
        for d in X.TARGETS[t]["deps"]:
            collect(d)
        if t not in order:
            order.append(t)
    for tg in target.split(","):
        collect(tg)
    for t in order:
        try:
            text, _, _ = X.translate(t)
        except X.ParseError as e:
            print("PARSE_ERROR:", e)
            return 0
        mods[os.path.basename(X.TARGETS[t]["out"])[:-2]] = text

    props = prop.split(",")
    pnames = [os.path.basename(x)[:-2] for x in props]

    def rewrite(s):
        out = []
        for line in s.splitlines():
            if line.startswith("From EC Require Import"):
                ws = line[len("From EC Require Import"):].rstrip(".").split()
                ec, xs = [], []
                for w in ws:
                    if w.startswith("Gen.") and w[4:] in mods:
                        xs.append("X" + w[4:])
                    elif w.startswith("Properties.") and w[11:] in pnames:
                        xs.append("P_" + w[11:])
                    else:
                        ec.append(w)
                if ec:
                    out.append("From EC Require Import " + " ".join(ec) + ".")
                if xs:
                    out.append("From X Require Import " + " ".join(xs) + ".")
            else:
                out.append(line)
        return "\n".join(out) + "\n"
    sdir = os.path.join(WORK, "s")
    os.makedirs(sdir)
    for name, text in mods.items():
        open(f"{sdir}/X{name}.v", "w").write(rewrite(text))
    for x, n in zip(props, pnames):
        open(f"{sdir}/P_{n}.v", "w").write(rewrite(open(x).read()))
    for f in ["X" + n for n in mods] + ["P_" + n for n in pnames]:
        r = subprocess.run(["coqc", "-Q", os.path.join(os.path.dirname(HERE), "coq", "theories"), "EC", "-Q", sdir, "X", f"{sdir}/{f}.v"],
                           capture_output=True, text=True)
        if r.returncode:
            print(f"COQ FAILED in {f}.v:\n" + (r.stdout + r.stderr)[-1500:])
            return 0
    print("THEOREMS STILL COMPILE")
    return 0


if __name__ == "__main__":
    sys.exit(main())
