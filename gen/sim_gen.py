"""Cluster simulation: schedule generator, Coq rendering, monitors and the shared runner
`run_sim_cases` (harness bin `sim` vs Model/Sim.v `sim_run`).

The generator drives the REAL implementation interactively (`sim --interactive`): after every
operation it sees the messages appended to the soup and the snapshots of the touched nodes, so it
can aim (deliver a proposal to a sub-quorum only, let a single node assemble a certificate, crash
a node at the step that persists, make the Byzantine member equivocate in a view it leads ...).
The operations themselves never mention runtime contents: a finished case is a plain list of
operations that both the implementation (batch mode, used by replay) and the model interpret.
The observations collected during generation are those of the implementation on that list."""
import json
import os
import subprocess
import threading
import time
from concurrent.futures import ThreadPoolExecutor

import common
import msgs as M
import replica_gen as RG
from common import coq_z, coq_list, coq_bool, coq_opt

G, E = 0, 0


# ---------------------------------------------------------------------------
# interactive driver

class Hang(Exception):
    pass


class Driver:
    def __init__(self, header, watchdog_s=60):
        self.p = subprocess.Popen([common.bin_path("sim", "dev"), "--interactive"], stdin=subprocess.PIPE,
                                  stdout=subprocess.PIPE, stderr=subprocess.DEVNULL, text=True, bufsize=1)
        self.timer = threading.Timer(watchdog_s, self.p.kill)
        self.timer.start()
        self.init = self._rt(header)["obs"]

    def _rt(self, obj):
        try:
            self.p.stdin.write(json.dumps(obj) + "\n")
            self.p.stdin.flush()
            line = self.p.stdout.readline()
        except (BrokenPipeError, OSError):
            line = ""
        if not line:
            raise Hang()
        return json.loads(line)

    def op(self, o):
        return self._rt(o)["obs"]

    def end(self):
        r = self._rt({"t": "end"})
        self.close()
        return r

    def close(self):
        self.timer.cancel()
        try:
            self.p.stdin.close()
        except OSError:
            pass
        self.p.kill()
        self.p.wait()


# ---------------------------------------------------------------------------
# what the generator knows about the run

def just_view(j):
    return int(j[1][0][2])


def msg_info(sent):
    key, m = sent[0], sent[1]
    kind = m[0]
    if kind == 0:
        v = just_view(m[2]) + 1
    elif kind == 3:
        v = just_view(m[1]) + 1
    else:
        v = int(m[1][0][2])
    return {"key": key, "kind": kind, "view": v, "m": m}


class Tracker:
    def __init__(self, c, honest, byz):
        self.c, self.honest, self.byz = c, honest, byz
        self.N = len(honest)
        self.soup = []
        self.alive = [1] * self.N
        self.nblocks = [0] * self.N
        self.view = [0] * self.N
        self.phase = [0] * self.N
        self.seen = [set() for _ in range(self.N)]
        self.wt = dict(c)

    def up(self, k):
        return self.alive[k] == 1

    def ups(self):
        return [k for k in range(self.N) if self.up(k)]

    def absorb(self, obs):
        for nd in obs[1]:
            k = nd[0]
            if k >= self.N or nd[1] == -1:
                continue
            self.alive[k] = nd[1]
            self.nblocks[k] = int(nd[2])
            if nd[1] == 1:
                self.view[k] = int(nd[3][0])
                self.phase[k] = nd[3][1]
        for s in obs[2]:
            self.soup.append(msg_info(s))

    def mark(self, k, idxs):
        if k < self.N and self.up(k):
            self.seen[k].update(i for i in idxs if i < len(self.soup))

    def unseen(self, k, pred=lambda m: True):
        return [i for i, m in enumerate(self.soup) if i not in self.seen[k] and pred(m)]


# ---------------------------------------------------------------------------
# generator

class Gen:
    def __init__(self, rng, opts):
        self.rng, self.opts = rng, opts
        self.ops = []
        self.obs = []
        self.kinds = {}

    def note(self, k):
        self.kinds[k] = self.kinds.get(k, 0) + 1

    def emit(self, op):
        """sends one operation to the implementation, mirrors the delivery bookkeeping"""
        t, T = op["t"], self.T
        L = len(T.soup)
        ob = self.drv.op(op)
        self.ops.append(op)
        self.obs.append(ob)
        if t in ("deliver", "crash_deliver"):
            T.mark(op["k"], [op["i"]])
        elif t == "deliver_all":
            T.mark(op["k"], range(L))
        elif t == "lose":
            T.mark(op["k"], range(L))
        elif t == "deliver_from":
            T.mark(op["k"], [i for i in range(L) if T.soup[i]["key"] in op["keys"]])
        elif t == "round":
            for k in range(T.N):
                T.mark(k, range(L))
        elif t in ("byz", "byz_lead", "byz_echo"):
            if len(ob[2]) > 0:
                for k in op["targets"]:
                    T.mark(k, [L])
        T.absorb(ob)
        return ob

    # ---- committee ----
    def committee(self):
        rng = self.rng
        n = rng.choice(self.opts.get("sizes", [4, 5, 6, 6, 7, 7]))
        ranks = sorted(rng.shuffle(list(range(16)))[:n])
        style = rng.below(3)
        if style == 0:
            ws = [1] * n
        elif style == 1:
            ws = [rng.range(1, 3) for _ in range(n)]
        else:
            ws = [rng.range(1, 6) for _ in range(n)]
        c = list(zip(ranks, ws))
        total = sum(ws)
        f = (total - 1) // 5
        cands = [r for r, w in c if w <= f]
        byz = rng.choice(cands) if cands and rng.chance(5, 6) else None
        honest = [r for r in ranks if r != byz]
        return c, honest, byz, f

    # ---- tactics ----
    def targets(self, lo=1):
        T, rng = self.T, self.rng
        ks = rng.shuffle(list(range(T.N)))
        return sorted(ks[:rng.range(lo, T.N)])

    def t_rand_deliver(self):
        T, rng = self.T, self.rng
        for _ in range(rng.range(1, 4)):
            k = rng.below(T.N)
            z = rng.below(20)
            un = T.unseen(k)
            if z < 14 and un:
                # recent messages first
                i = un[-1 - rng.below(min(len(un), 6))] if rng.chance(2, 3) else rng.choice(un)
                self.note("deliver:new")
            elif z < 17 and T.seen[k]:
                i = rng.choice(sorted(T.seen[k]))
                self.note("deliver:duplicate")
            else:
                i = rng.below(len(T.soup) + 3)
                self.note("deliver:any_index")
            self.emit({"t": "deliver", "k": k, "i": i})

    def t_deliver_all(self):
        self.note("deliver_all")
        self.emit({"t": "deliver_all", "k": self.rng.below(self.T.N)})

    def t_timer(self):
        self.note("timer")
        self.emit({"t": "timer", "k": self.rng.below(self.T.N)})

    def t_round(self):
        self.note("round:prefix")
        self.emit({"t": "round"})

    def t_partition(self):
        T, rng = self.T, self.rng
        S = self.targets(lo=2)
        keys = [T.honest[k] for k in S]
        if T.byz is not None and rng.chance(1, 2):
            keys.append(T.byz)
        self.note("partition:size%d" % len(S))
        for _ in range(rng.range(3, 10)):
            k = rng.choice(S)
            if rng.chance(1, 6):
                self.emit({"t": "timer", "k": k})
            else:
                self.emit({"t": "deliver_from", "k": k, "keys": sorted(keys)})

    def t_quorum_race(self):
        """one node gets the newest proposal and then the commit votes of its view one by one (it
        alone assembles the certificate); now and then it crashes at the completing vote"""
        T, rng = self.T, self.rng
        votes = [m for m in T.soup if m["kind"] == 1]
        if not votes:
            return self.t_deliver_all()
        v = max(m["view"] for m in votes)
        k = rng.choice(T.ups() or [0])
        self.note("quorum_race")
        for i in T.unseen(k, lambda m: m["kind"] in (0, 3) and m["view"] == v):
            self.emit({"t": "deliver", "k": k, "i": i})
        idx = T.unseen(k, lambda m: m["kind"] == 1 and m["view"] == v)
        crash = rng.chance(1, 3)
        for n, i in enumerate(idx):
            if crash and n == len(idx) - 1:
                self.note("crash:last_vote")
                self.emit({"t": "crash_deliver", "k": k, "i": i, "cp": rng.choice([0, 0, 1]), "applied": rng.chance(1, 2)})
            else:
                self.emit({"t": "deliver", "k": k, "i": i})

    def t_crash(self):
        T, rng = self.T, self.rng
        k = rng.choice(T.ups() or [0])
        cp, applied = rng.choice([0, 0, 0, 1]), rng.chance(1, 2)
        z = rng.below(4)
        if z == 0:
            self.note("crash:timer")
            self.emit({"t": "crash_timer", "k": k, "cp": cp, "applied": applied})
            return
        # a proposal or new-view for a view the node has not reached persists for sure
        cands = T.unseen(k, lambda m: m["kind"] in (0, 3) and m["view"] >= T.view[k])
        if z == 1 or not cands:
            cands = T.unseen(k) or [0]
            self.note("crash:any_message")
        else:
            self.note("crash:proposal_or_new_view")
        self.emit({"t": "crash_deliver", "k": k, "i": rng.choice(cands), "cp": cp, "applied": applied})

    def t_restart(self):
        T, rng = self.T, self.rng
        down = [k for k in range(T.N) if T.alive[k] != 1]
        k = rng.choice(down) if down and rng.chance(2, 3) else rng.below(T.N)
        self.note("restart")
        self.emit({"t": "restart", "k": k})

    def t_stop(self):
        T = self.T
        if any(a == 2 for a in T.alive):
            return self.t_restart()
        self.note("stop")
        self.emit({"t": "stop", "k": self.rng.below(T.N)})

    def t_sync(self):
        self.note("sync")
        self.emit({"t": "sync", "k": self.rng.below(self.T.N)})

    def t_byz(self):
        T, rng, b = self.T, self.rng, self.T.byz
        if b is None:
            return self.t_rand_deliver()
        vmax = max(T.view + [0])
        z = rng.below(16)
        if z < 4:
            # equivocating leader: two (or three) different proposals for the newest view it leads,
            # to different subsets
            self.note("byz:equivocating_leader")
            ks = rng.shuffle(list(range(T.N)))
            cut = rng.range(1, max(1, T.N - 1))
            parts = [sorted(ks[:cut]), sorted(ks[cut:])]
            for n, part in enumerate(parts):
                if part:
                    self.emit({"t": "byz_lead", "key": b, "payload": 200 + 10 * rng.below(30) + n, "mode": 0, "targets": part})
        elif z == 4:
            self.note("byz:malformed_proposal")
            self.emit({"t": "byz_lead", "key": b, "payload": rng.choice([250, 650, 1050]), "mode": rng.choice([1, 2]),
                       "targets": self.targets()})
        elif z == 5:
            self.note("byz:honest_leader_proposal")
            self.emit({"t": "byz_lead", "key": b, "payload": 333, "mode": 0, "targets": self.targets()})
        elif z < 9:
            alt = None if rng.chance(1, 2) else 400 + rng.below(50)
            self.note("byz:echo_commit" + ("" if alt is None else "_conflicting"))
            self.emit({"t": "byz_echo", "key": b, "kind": 1, "back": rng.below(4), "alt": alt, "targets": self.targets()})
            if alt is not None and rng.chance(1, 2):
                # the same vote with the real payload to the others: two votes in one view
                self.emit({"t": "byz_echo", "key": b, "kind": 1, "back": 1, "alt": None, "targets": self.targets()})
        elif z < 11:
            alt = None if rng.chance(1, 2) else 400 + rng.below(50)
            self.note("byz:echo_timeout" + ("" if alt is None else "_forged_high_vote"))
            self.emit({"t": "byz_echo", "key": b, "kind": 2, "back": rng.below(4), "alt": alt, "targets": self.targets()})
        elif z == 11:
            self.note("byz:echo_new_view")
            self.emit({"t": "byz_echo", "key": b, "kind": 3, "back": rng.below(3), "alt": None, "targets": self.targets()})
        elif z == 12:
            self.note("byz:future_timeout")
            t = M.timeout(M.view(G, E, vmax + rng.range(1, 4)), None, None)
            self.emit({"t": "byz", "key": b, "sig_ok": True, "m": {"timeout": t}, "targets": self.targets()})
        elif z == 13:
            self.note("byz:future_or_stale_commit")
            v = rng.choice([0, max(0, vmax - 1), vmax, vmax + 1, vmax + rng.range(2, 5)])
            cm = M.commit(M.view(G, E, v), M.header(self.F + rng.below(4), 100 + rng.below(8)))
            self.emit({"t": "byz", "key": b, "sig_ok": True, "m": {"commit": cm}, "targets": self.targets()})
        elif z == 14:
            self.note("byz:forged_honest_signature")
            who = rng.choice(T.honest)
            cm = M.commit(M.view(G, E, vmax), M.header(self.F + rng.below(3), 100 + rng.below(8)))
            self.emit({"t": "byz", "key": who, "sig_ok": False, "m": {"commit": cm}, "targets": self.targets()})
        else:
            # a valid certificate for view 0 assembled from the honest view-0 timeouts (every node
            # sends exactly that vote when it starts) and a proposal / new-view justified by it
            self.note("byz:view0_certificate")
            t0 = M.timeout(M.view(G, E, 0), None, None)
            idx, w = [], 0
            for i in rng.shuffle(list(range(len(T.c)))):
                if T.c[i][0] == b or w >= M.quorum(T.c):
                    continue
                idx.append(i)
                w += T.c[i][1]
            q = M.tqc(M.view(G, E, 0), [(t0, [i in idx for i in range(len(T.c))])],
                      [M.sig_timeout(T.c[i][0], t0) for i in sorted(idx)])
            if rng.chance(1, 2):
                m = {"new_view": {"j": {"timeout": q}}}
            else:
                m = {"proposal": {"payload": 150 + rng.below(20), "j": {"timeout": q}}}
            self.emit({"t": "byz", "key": b, "sig_ok": True, "m": m, "targets": self.targets()})


    # ---- directed family "commit then timeout" (the canonical safety-critical pattern) ----
    def committee_directed(self):
        """weighted committees in which one or two heavy validators weigh a sub-quorum or most of it"""
        rng = self.rng
        ws = rng.shuffle(rng.choice([[5, 1, 1, 1, 1, 1, 1], [3, 3, 1, 1, 1, 1, 1], [4, 2, 1, 1, 1, 1], [5, 1, 1, 1, 1, 1, 1]]))
        n = len(ws)
        ranks = sorted(rng.shuffle(list(range(16)))[:n])
        c = list(zip(ranks, ws))
        total = sum(ws)
        f = (total - 1) // 5
        lights = [r for r, w in c if w == 1]
        # a Byzantine light member only if the honest nodes minus one light node still hold a quorum
        byz = rng.choice(lights) if (f >= 1 and total - 2 >= M.quorum(c) and rng.chance(1, 2)) else None
        return c, [r for r in ranks if r != byz], byz, f

    def deliver_where(self, k, pred):
        for i in self.T.unseen(k, pred):
            self.emit({"t": "deliver", "k": k, "i": i})

    def find_clean_view(self, c, honest, ahead):
        """brings all nodes to one view V in phase Prepare with the (honest) leader's proposal for V
        in the soup and delivered to nobody; the leaders of the next `ahead` views are honest too.
        Returns (V, soup index of the proposal) or None."""
        T, rng = self.T, self.rng
        N = T.N
        leader = lambda v: c[v % len(c)][0]
        for _ in range(rng.below(3)):
            self.note("directed:warmup_round")
            self.emit({"t": "round"})
        for _ in range(10):
            for _ in range(2):
                for k in range(N):
                    self.deliver_where(k, lambda m: m["kind"] != 0)
            for k in range(N):
                for _ in range(6):
                    if T.nblocks[k] >= max(T.nblocks):
                        break
                    self.emit({"t": "sync", "k": k})
            V = T.view[0]
            if all(T.view[k] == V and T.phase[k] == 0 for k in range(N)) and all(leader(V + d) in honest for d in range(ahead + 1)):
                props = [i for i, m in enumerate(T.soup) if m["kind"] == 0 and m["view"] == V and m["key"] == leader(V)
                         and all(i not in T.seen[k] for k in range(N))]
                if props:
                    return (V, props[-1])
            for k in range(N):
                self.emit({"t": "timer", "k": k})
        return None

    def timeouts_to(self, ks, V, signers):
        """delivers the view-V timeouts of `signers` to the nodes `ks` until each has left view V"""
        T, rng = self.T, self.rng
        tix = [i for i, m in enumerate(T.soup) if m["kind"] == 2 and m["view"] == V and m["key"] in signers]
        for k in ks:
            for i in rng.shuffle(tix):
                if T.view[k] > V:
                    break
                if i not in T.seen[k]:
                    self.emit({"t": "deliver", "k": k, "i": i})

    # ---- directed family "split vote, then commit then timeout" ----
    def committee_split(self):
        rng = self.rng
        ws = rng.shuffle(rng.choice([[1] * 6, [1] * 6, [1] * 7, [1] * 8, [2, 1, 1, 1, 1], [3, 2, 2, 1, 1, 1, 1]]))
        ranks = sorted(rng.shuffle(list(range(16)))[:len(ws)])
        c = list(zip(ranks, ws))
        return c, list(ranks), None, (sum(ws) - 1) // 5

    def split_vote(self, c, honest, byz, f):
        """View v: the proposal (N, P1) reaches only a subset W1 weighing at least the sub-quorum
        (they vote, no certificate); everybody times out and TimeoutQC(v) is assembled WITHOUT some
        of those voters, so that it shows no sub-quorum for P1; view v+1: the leader legally proposes
        a FRESH (N, P2), everybody votes, exactly one node x (not in W1) receives the votes and
        commits P2, the others time out and assemble TimeoutQC(v+1) from W1 first; then the
        synchronous suffix, in which the leader of v+2 must re-propose (N, P2)."""
        T, rng = self.T, self.rng
        N, wt, q, s = T.N, dict(c), M.quorum(c), M.subquorum(c)
        leader = lambda v: c[v % len(c)][0]
        node_of = {r: k for k, r in enumerate(honest)}
        hw = sum(wt[r] for r in honest)
        self.directed_variant = "split:none"
        found = self.find_clean_view(c, honest, 2)
        if not found:
            self.note("directed:no_clean_view")
            return
        V, ip = found
        plan = None
        for _ in range(40):
            W1, w1 = [], 0
            for r in rng.shuffle(honest):
                if w1 >= s:
                    break
                W1.append(r)
                w1 += wt[r]
            Om, wo = [], 0
            for r in rng.shuffle(W1):
                if w1 - wo < s:
                    break
                Om.append(r)
                wo += wt[r]
            xs = [r for r in honest if r not in W1 and r != leader(V + 2) and hw - wt[r] >= q]
            if s <= w1 < q and w1 - wo < s and hw - wo >= q and xs:
                plan = (W1, Om, rng.choice(xs))
                break
        if plan is None:
            self.note("directed:split_infeasible")
            return
        W1, Om, x = plan
        self.directed_variant = "split"
        self.note("directed:split_vote")
        # view V: partial vote for P1, TimeoutQC(V) without the voters Om
        for r in W1:
            self.emit({"t": "deliver", "k": node_of[r], "i": ip})
        for k in range(N):
            self.emit({"t": "timer", "k": k})
        self.timeouts_to(range(N), V, [r for r in honest if r not in Om])
        V2 = V + 1
        if not all(T.view[k] == V2 and T.phase[k] == 0 for k in range(N)):
            self.note("directed:split_view_not_reached")
            return
        props = [i for i, m in enumerate(T.soup) if m["kind"] == 0 and m["view"] == V2 and m["key"] == leader(V2)]
        if not props:
            self.note("directed:split_no_second_proposal")
            return
        # view V+1: everybody votes for the fresh proposal, only x sees the votes
        for k in range(N):
            self.emit({"t": "deliver", "k": k, "i": props[-1]})
        kx = node_of[x]
        h0 = T.nblocks[kx]
        for i in rng.shuffle(T.unseen(kx, lambda m: m["kind"] == 1 and m["view"] == V2)):
            self.emit({"t": "deliver", "k": kx, "i": i})
            if T.nblocks[kx] > h0:
                self.note("directed:one_node_committed")
                break
        O = [k for k in range(N) if k != kx]
        for k in O:
            self.emit({"t": "timer", "k": k})
        S, w = [], 0
        for r in W1 + rng.shuffle([honest[k] for k in O if honest[k] not in W1]):
            if w >= q:
                break
            S.append(r)
            w += wt[r]
        self.timeouts_to(O, V2, S)

    def commit_then_timeout(self, c, honest, byz, f):
        """View v: the leader proposes A; chosen voters vote; exactly one light node (sometimes
        nobody) receives the quorum of commit votes and commits A; the others time out in v and
        assemble the TimeoutQC from a chosen signer subset (non-voters first, then the heavy voters
        of A, then as few light voters as needed); then the synchronous suffix.  Variants: few
        voters (a fresh proposal is legal), nobody commits, everybody votes, the committed node
        crashes at the completing vote or is stopped, a Byzantine light member votes too and/or
        reports a conflicting high vote."""
        T, rng = self.T, self.rng
        N, wt, q = T.N, dict(c), M.quorum(c)
        leader = lambda v: c[v % len(c)][0]
        node_of = {r: k for k, r in enumerate(honest)}
        found = self.find_clean_view(c, honest, 1)
        if not found:
            self.note("directed:no_clean_view")
            self.directed_variant = "none"
            return
        V, ip = found
        lights = [r for r in honest if wt[r] == 1]
        heavies = [r for r in honest if wt[r] > 1]
        hw = sum(wt[r] for r in honest)
        cands = [r for r in lights if r != leader(V + 1) and hw - wt[r] >= q]
        z = 0 if self.force_commit_one else rng.below(8)
        variant = "commit_one" if z < 5 else ("nobody_commits" if z == 5 else ("few_voters" if z == 6 else "all_vote"))
        if not cands and variant in ("commit_one", "all_vote"):
            variant = "nobody_commits"
        C = rng.choice(cands) if variant in ("commit_one", "all_vote") else None
        # voters of A
        if variant == "few_voters":
            voters = rng.shuffle(lights)[:rng.range(1, 2)]
        elif variant == "all_vote":
            voters = list(honest)
        else:
            voters = ([C] if C is not None else []) + heavies
            for r in rng.shuffle([r for r in lights if r != C]):
                if sum(wt[x] for x in voters) >= q:
                    break
                voters.append(r)
        self.directed_variant = variant
        self.note("directed:" + variant)
        for r in voters:
            self.emit({"t": "deliver", "k": node_of[r], "i": ip})
        voted = {m["key"] for m in T.soup if m["kind"] == 1 and m["view"] == V and m["key"] in honest}
        byz_votes = byz is not None and rng.chance(1, 2)
        if byz_votes and voted and C is not None:
            self.note("directed:byz_votes_too")
            self.emit({"t": "byz_echo", "key": byz, "kind": 1, "back": 0, "alt": None, "targets": [node_of[C]]})
        # the certificate at exactly one node
        stopped = None
        if C is not None:
            kc = node_of[C]
            h0 = T.nblocks[kc]
            idx = rng.shuffle(T.unseen(kc, lambda m: m["kind"] == 1 and m["view"] == V))
            crash = rng.chance(1, 3)
            w, keys = (wt[byz] if byz_votes and voted else 0), set()
            for i in idx:
                key = T.soup[i]["key"]
                completes = key not in keys and w < q <= w + wt.get(key, 0)
                keys.add(key)
                w += wt.get(key, 0)
                if completes and crash:
                    self.note("directed:crash_at_completing_vote")
                    self.emit({"t": "crash_deliver", "k": kc, "i": i, "cp": rng.choice([0, 0, 1]), "applied": rng.chance(1, 2)})
                else:
                    self.emit({"t": "deliver", "k": kc, "i": i})
                if T.nblocks[kc] > h0:
                    break
            if T.nblocks[kc] > h0:
                self.note("directed:one_node_committed")
            if not crash and rng.chance(1, 5):
                self.note("directed:committed_node_stopped")
                self.emit({"t": "stop", "k": kc})
                stopped = kc
        # everybody else times out in view V
        O = [k for k in range(N) if C is None or k != node_of[C]]
        for k in O:
            self.emit({"t": "timer", "k": k})
        if byz is not None and rng.chance(1, 2):
            self.note("directed:byz_conflicting_high_vote")
            self.emit({"t": "byz_echo", "key": byz, "kind": 2, "back": rng.below(len(O)), "alt": 400 + rng.below(50), "targets": O})
        okeys = [honest[k] for k in O]
        if variant == "all_vote":
            order = rng.shuffle(okeys)
        else:
            order = (rng.shuffle([r for r in okeys if r not in voted]) + [r for r in okeys if r in voted and wt[r] > 1] +
                     rng.shuffle([r for r in okeys if r in voted and wt[r] == 1]))
        S, w = [], 0
        for r in order:
            if w >= q:
                break
            S.append(r)
            w += wt[r]
        self.timeouts_to(O, V, S)
        if stopped is not None and rng.chance(2, 3):
            self.emit({"t": "restart", "k": stopped})

    # ---- directed family "laggard after a partial view change" (liveness) ----
    def committee_laggard(self):
        rng = self.rng
        ws = rng.shuffle(rng.choice([[1] * 6, [1] * 6, [1] * 7, [2, 1, 1, 1, 1], [1] * 6]))
        ranks = sorted(rng.shuffle(list(range(16)))[:len(ws)])
        c = list(zip(ranks, ws))
        f = (sum(ws) - 1) // 5
        lights = [r for r, w in c if w == 1]
        # the faulty member: a silent Byzantine one (not simulated), a node stopped later, or none
        self.lag_mode = rng.choice(["byz", "stop", "stop", "none"])
        byz = rng.choice(lights) if self.lag_mode == "byz" else None
        return c, [r for r in ranks if r != byz], byz, f

    def laggard(self, c, honest, byz, f):
        """All nodes time out in view v; fewer than a quorum of them (the nodes AHEAD) receive the
        quorum of view-v timeouts and enter v+1 while the laggard(s) are partitioned away; the
        partition outlasts one view timeout (the nodes ahead time out once in v+1); everything sent
        to the laggards so far is LOST; one more member may be faulty (silent Byzantine or stopped).
        Then the network heals: only the new-view re-broadcast at later timer expiries can bring
        the laggards to v+1, and without them the nodes ahead never assemble TimeoutQC(v+1)."""
        T, rng = self.T, self.rng
        N, wt, q = T.N, dict(c), M.quorum(c)
        leader = lambda v: c[v % len(c)][0]
        self.directed_variant = "laggard:none"
        found = self.find_clean_view(c, honest, 0)
        if not found:
            self.note("directed:no_clean_view")
            return
        V, ip = found
        if rng.chance(1, 2):
            for k in range(N):
                self.emit({"t": "deliver", "k": k, "i": ip})
        for k in range(N):
            self.emit({"t": "timer", "k": k})
        up = list(range(N))
        D = None
        if self.lag_mode == "stop":
            cands = [k for k in up if wt[honest[k]] <= f]
            if cands:
                D = rng.choice(cands)
                self.note("directed:laggard_one_stopped")
                self.emit({"t": "stop", "k": D})
                up.remove(D)
                self.keep_down = True
        # laggards: the nodes ahead must weigh less than a quorum, all up nodes together a quorum
        z = rng.below(6)
        want = "next_leader" if z < 2 else ("two" if z == 2 else ("half" if z == 3 else "one"))
        Ls = []
        if want == "next_leader" and leader(V + 1) in honest and honest.index(leader(V + 1)) in up:
            Ls = [honest.index(leader(V + 1))]
        pool = rng.shuffle([k for k in up if k not in Ls])
        target = {"two": 2, "half": len(up) // 2}.get(want, 1)
        while pool and (len(Ls) < target or sum(wt[honest[k]] for k in up if k not in Ls) >= q):
            Ls.append(pool.pop())
        A = [k for k in up if k not in Ls]
        if not A or sum(wt[honest[k]] for k in up) < q:
            self.note("directed:laggard_infeasible")
            return
        self.directed_variant = "laggard:" + want
        self.note("directed:laggard_" + want)
        # the nodes ahead assemble TimeoutQC(V) (any signers) and enter V+1
        self.timeouts_to(A, V, set(wt))
        if rng.chance(1, 2):
            # they also hear each other in V+1 (new-views, the proposal and the votes: no quorum)
            for _ in range(2):
                for k in A:
                    self.deliver_where(k, lambda m: m["view"] == V + 1 and m["key"] in [honest[a] for a in A])
        # the partition outlasts one view timeout: first timer expiry in V+1 of the nodes ahead
        for k in A:
            if T.view[k] == V + 1:
                self.emit({"t": "timer", "k": k})
        if rng.chance(1, 3):
            for k in Ls:
                self.emit({"t": "timer", "k": k})
        # everything sent to the laggards so far is lost
        for k in Ls:
            self.emit({"t": "lose", "k": k})

    # ---- a case ----
    def run(self, directed=False):
        rng, opts = self.rng, self.opts
        self.force_commit_one = directed == "commit_one"
        self.keep_down = False
        c, honest, byz, f = (self.committee_laggard() if directed == "laggard" else
                             self.committee_split() if directed == "split" else
                             self.committee_directed() if directed else self.committee())
        self.F = rng.choice([0, 0, 1, 7])
        header = {"committee": M.committee_json(c), "nodes": honest, "first_block": str(self.F), "max_payload": 100, "ops": []}
        self.T = Tracker(c, honest, byz)
        self.drv = Driver(header, opts.get("watchdog_s", 90))
        self.T.absorb(self.drv.init)
        tactics = ([self.t_rand_deliver] * 6 + [self.t_deliver_all] * 3 + [self.t_timer] * 2 + [self.t_round] * 2 +
                   [self.t_partition] * 2 + [self.t_quorum_race] * 2 + [self.t_crash] * 2 + [self.t_byz] * 4 +
                   [self.t_restart, self.t_stop, self.t_sync])
        if opts.get("no_crash"):
            tactics = [t for t in tactics if t not in (self.t_crash, self.t_restart, self.t_stop)]
        budget = rng.range(opts.get("prefix_min", 30), opts.get("prefix_ops", 120))
        hang = False
        try:
            if directed == "laggard":
                self.laggard(c, honest, byz, f)
            elif directed == "split":
                self.split_vote(c, honest, byz, f)
            elif directed:
                self.commit_then_timeout(c, honest, byz, f)
            while not directed and len(self.ops) < budget:
                rng.choice(tactics)()
            # the good period: faulty weight (Byzantine + stopped) must be at most f
            wt = dict(c)
            faulty = wt[byz] if byz is not None else 0
            for k in range(self.T.N):
                if self.T.alive[k] == 2 and (faulty + wt[honest[k]] > f or (rng.chance(1, 2) and not self.keep_down)):
                    self.note("restart:before_suffix")
                    self.emit({"t": "restart", "k": k})
                elif self.T.alive[k] == 2:
                    faulty += wt[honest[k]]
            suffix_start = len(self.ops)
            down = [k for k in range(self.T.N) if self.T.alive[k] == 2]
            noisy = byz is not None and rng.chance(1, 2) and not directed
            self.case_meta = {"byz": byz, "down": down}
            kf = faulty_run({"_c": c, "_meta": self.case_meta, "nodes": honest})
            for _ in range(max(opts.get("rounds", 10), round_bound(kf) + 1)):
                if noisy and rng.chance(1, 2):
                    self.t_byz()
                self.note("round:suffix")
                self.emit({"t": "round"})
            summary = self.drv.end()
        except Hang:
            hang = True
            self.drv.close()
            suffix_start, down, noisy, summary = len(self.ops), [], False, {"soup": [], "blocks": []}
        case = dict(header)
        case["ops"] = self.ops
        case["_c"] = c
        case["_kinds"] = self.kinds
        case["_meta"] = {"byz": byz, "f": f, "suffix_start": suffix_start, "down": down, "noisy_suffix": noisy,
                         "directed": getattr(self, "directed_variant", None)}
        out = {"obs": [self.drv.init] + self.obs + [summary["blocks"]], "soup": summary["soup"], "blocks": summary["blocks"]}
        if hang:
            out["hang"] = True
            out["ops_done"] = len(self.ops)
        return case, out


def gen_case(rng, opts, directed=False):
    return Gen(rng, opts).run(directed)


# ---------------------------------------------------------------------------
# Coq rendering

def c_nat(n):
    return "%d%%nat" % n


def c_nats(xs):
    return coq_list([c_nat(x) for x in xs])


def c_sop(op):
    t = op["t"]
    if t == "deliver":
        return "SDeliver %s %s" % (c_nat(op["k"]), c_nat(op["i"]))
    if t == "timer":
        return "STimer %s" % c_nat(op["k"])
    if t == "byz":
        return "SByz %s {| m_key := %d; m_sig_ok := %s; m_msg := %s |}" % (
            c_nats(op["targets"]), op["key"], coq_bool(op["sig_ok"]), RG.c_cmsg(op["m"]))
    if t == "byz_lead":
        return "SByzLead %d %s %d %s" % (op["key"], coq_z(op["payload"]), op["mode"], c_nats(op["targets"]))
    if t == "byz_echo":
        return "SByzEcho %d %d %s %s %s" % (op["key"], op["kind"], c_nat(op["back"]),
                                            coq_opt(None if op["alt"] is None else coq_z(op["alt"])), c_nats(op["targets"]))
    if t == "crash_deliver":
        return "SCrashDeliver %s %s %s %s" % (c_nat(op["k"]), c_nat(op["i"]), c_nat(op["cp"]), coq_bool(op["applied"]))
    if t == "crash_timer":
        return "SCrashTimer %s %s %s" % (c_nat(op["k"]), c_nat(op["cp"]), coq_bool(op["applied"]))
    if t == "restart":
        return "SRestart %s" % c_nat(op["k"])
    if t == "stop":
        return "SStop %s" % c_nat(op["k"])
    if t == "sync":
        return "SSync %s" % c_nat(op["k"])
    if t == "deliver_all":
        return "SDeliverAllTo %s" % c_nat(op["k"])
    if t == "lose":
        return "SLoseAllTo %s" % c_nat(op["k"])
    if t == "deliver_from":
        return "SDeliverFrom %s %s" % (c_nat(op["k"]), coq_list([coq_z(x) for x in op["keys"]]))
    if t == "round":
        return "SRound"
    raise ValueError(t)


def c_case(case):
    cfg = ("{| cg := 0; ce := 0; cC := %s; cme := 0; cfirst := %s; cmaxpay := %d; "
           "cpsize := (fun p => if p <? 500 then 20 else 320); cpok := (fun _ p => p <? 1000); cchk := true |}" % (
               M.c_committee(case["_c"]), coq_z(case["first_block"]), case["max_payload"]))
    return "(%s, %s, %s)" % (cfg, coq_list([coq_z(k) for k in case["nodes"]]), coq_list([c_sop(o) for o in case["ops"]]))


def strip(case):
    return {k: v for k, v in case.items() if not k.startswith("_")}


# ---------------------------------------------------------------------------
# monitors (evaluated on the implementation alone)

def faulty_run(case):
    """longest run of consecutive views (round robin over the committee) whose leader is not an up
    honest node during the suffix"""
    c, meta = case["_c"], case["_meta"]
    bad = {meta["byz"]} | {case["nodes"][k] for k in meta["down"]}
    flags = [r in bad for r, _ in c]
    if all(flags):
        return len(flags)
    best = cur = 0
    for x in flags + flags:
        cur = cur + 1 if x else 0
        best = max(best, cur)
    return best


def round_bound(k):
    """R(k): number of synchronous rounds within which every up honest node must have committed a
    new block, for at most k consecutive faulty leaders (derivation: evidence of C06, `rule`)."""
    return 9 + 2 * k


def monitors(case, out):
    bad = []
    c, meta, honest = case["_c"], case["_meta"], case["nodes"]
    F = int(case["first_block"])
    wt = dict(c)
    q = M.quorum(c)
    stats = {}
    if out.get("hang"):
        bad.append({"monitor": "C06", "failed": "the simulation hung after %d operations (watchdog)" % out.get("ops_done", -1)})
        return bad, stats
    # C01: agreement + append-only
    by_num = {}
    for k, bl in enumerate(out["blocks"]):
        for n, (num, p) in enumerate(bl):
            if int(num) != F + n:
                bad.append({"monitor": "C01", "failed": f"node {k}: queued block numbers are not consecutive: position {n} holds {num}"})
            by_num.setdefault(int(num), set()).add(p)
    for num, ps in sorted(by_num.items()):
        if len(ps) > 1:
            bad.append({"monitor": "C01", "failed": f"block {num} committed with different payloads {sorted(ps)}"})
    height = {}
    for i, ob in enumerate(out["obs"][:-1]):
        for nd in ob[1]:
            if len(nd) > 2:
                if int(nd[2]) < height.get(nd[0], 0):
                    bad.append({"monitor": "C01", "failed": f"node {nd[0]}: number of committed blocks decreased at op {i}"})
                height[nd[0]] = int(nd[2])
    # C02 / C03 on the soup: certified payloads per block number; one commit vote per view and key
    votes = {}
    per_key_view = {}
    for key, sig_ok, m in out["soup"]:
        if m[0] != 1 or not sig_ok or key not in wt:
            continue
        view, num, p = int(m[1][0][2]), int(m[1][1][0]), m[1][1][1]
        votes.setdefault((view, num, p), set()).add(key)
        if key in honest:
            per_key_view.setdefault((key, view), set()).add((num, p))
    cert = {}
    for (view, num, p), ks in votes.items():
        if sum(wt[k] for k in ks) >= q:
            cert.setdefault(num, set()).add(p)
    for num, ps in cert.items():
        if len(ps) > 1:
            bad.append({"monitor": "C02", "failed": f"two payloads {sorted(ps)} have quorums of commit votes for block {num}"})
    for (key, view), bs in per_key_view.items():
        if len(bs) > 1:
            bad.append({"monitor": "C03", "failed": f"honest validator {key} signed two commit votes in view {view}: {sorted(bs)}"})
    for num, ps in by_num.items():
        for p in ps:
            if p not in cert.get(num, set()):
                bad.append({"monitor": "C01", "failed": f"block {num} payload {p} was committed without a quorum of commit votes in the soup"})
    # no honest node may stop by itself (panic / blocked for good / internal error)
    for i, ob in enumerate(out["obs"][:-1]):
        for nd in ob[1]:
            if len(nd) > 1 and nd[1] == 0:
                bad.append({"monitor": "C06", "failed": f"honest node {nd[0]} stopped by itself (panic, blocked or internal error) at op {i}"})
                break
    # C06: from the start of every round of the suffix, every up honest node commits a new block
    # within R rounds
    ss = meta["suffix_start"]
    rounds = [i for i in range(ss, len(case["ops"])) if case["ops"][i]["t"] == "round"]
    if rounds:
        kf = faulty_run(case)
        R = round_bound(kf)
        hs = [dict(height0(out, ss))]          # heights after 0, 1, 2, ... rounds of the suffix
        ups = []
        for i in rounds:
            nds = out["obs"][i + 1][1]
            hs.append({nd[0]: int(nd[2]) for nd in nds if len(nd) > 2})
            ups = [nd[0] for nd in nds if nd[1] == 1]
        worst = 0
        for k in ups:
            for s0 in range(len(rounds)):
                r = next((r for r in range(s0 + 1, len(hs)) if hs[r].get(k, 0) > hs[s0].get(k, 0)), None)
                if r is None:
                    if len(hs) - 1 - s0 >= R:
                        bad.append({"monitor": "C06", "failed": f"node {k} committed no new block in the {len(hs) - 1 - s0} synchronous rounds after round {s0} of the suffix (bound R({kf}) = {R})",
                                    "rounds_executed": len(rounds)})
                        break
                else:
                    worst = max(worst, r - s0)
                    if r - s0 > R:
                        bad.append({"monitor": "C06", "failed": f"node {k} needed {r - s0} synchronous rounds after round {s0} of the suffix to commit a new block (bound R({kf}) = {R})"})
                        break
        stats = {"faulty_run": kf, "R": R, "rounds_needed": worst, "rounds": len(rounds)}
    return bad, stats


def height0(out, ss):
    """block counts of all nodes when the suffix starts"""
    h = {}
    for ob in out["obs"][:ss + 1]:
        for nd in ob[1]:
            if len(nd) > 2:
                h[nd[0]] = int(nd[2])
    return h.items()


# ---------------------------------------------------------------------------
# digest of an observation (Model.Sim.obs_hash)

P61 = 1 << 63


def obs_hash(j):
    h = 7
    stack = [common.norm_obs(j)]
    while stack:
        x = stack.pop()
        if isinstance(x, list):
            h = (h * 1000003 + 2 + 12345) % P61
            h = (h * 1000003 + len(x) + 12345) % P61
            stack.extend(reversed(x))
        else:
            h = (h * 1000003 + 1 + 12345) % P61
            h = (h * 1000003 + x + 12345) % P61
    return h


# ---------------------------------------------------------------------------
# shared runner

def run_sim_cases(rep, prop, opts, n, rng, broken, extra_cases=()):
    """Generates n schedules against the implementation, evaluates the model on them, diffs the
    observation lists, applies the monitors. Reusable by C01 (opts select the mix)."""
    for b, prof in (("sim", "dev"),):
        ok, out = common.cargo_build([b], prof)
        if not ok:
            raise common.MachineryError("cargo build failed: " + out[-2000:])
    t0 = time.time()
    cases, outs = [], []
    cp = os.path.join(common.CORPUS, prop + "_sim.json")
    corpus = list(extra_cases)
    if os.path.exists(cp):
        corpus += json.load(open(cp))
    if corpus:
        for c in corpus:
            c["_c"] = [(int(k), int(w)) for k, w in c["committee"]]
            c.setdefault("_kinds", {})
            if "_meta" not in c:
                c["_meta"] = c.get("meta", {"byz": None, "f": 0, "suffix_start": len(c["ops"]), "down": [], "noisy_suffix": False})
        couts = common.run_impl("sim", [strip(c) for c in corpus], "dev")
        for c, o in zip(corpus, couts):
            if "crash" in o or "skipped" in o:
                raise common.MachineryError(f"sim harness crashed on a corpus case: {str(o)[:800]}")
            cases.append(c)
            outs.append(o)
    # a fixed quarter of the schedules (at least 2) belongs to the directed family "commit then timeout"
    # (every other one of them is the plain variant: one node commits, the others time out)
    # one schedule in 8 belongs to the directed family "split vote, then commit then timeout", one in 8 to
    # "laggard after a partial view change"
    rngs = [(rng.fork(), "commit_one" if i % 8 == 1 else ("split" if i % 8 == 3 else "laggard" if i % 8 == 7 else (i % 4 == 1 or (n < 8 and i < min(2, n)))))
            for i in range(n)]
    with ThreadPoolExecutor(max_workers=opts.get("workers", 12)) as ex:
        for case, out in ex.map(lambda r: gen_case(r[0], opts, r[1]), rngs):
            cases.append(case)
            outs.append(out)
    t_gen = time.time() - t0
    coq_cases, mon_fail, kinds, stats = [], [], {}, []
    steps, dist = 0, set()
    for i, (c, o) in enumerate(zip(cases, outs)):
        for k, v in c.get("_kinds", {}).items():
            kinds[k] = kinds.get(k, 0) + v
        bad, st = monitors(c, o)
        stats.append(st)
        for b in bad:
            mon_fail.append({"case": strip(c), "meta": c["_meta"], "case_index": i, **b})
        if o.get("hang"):
            continue
        coq_cases.append((i, c_case(c), "(OZ %d)" % obs_hash(o["obs"])))
        for ob in o["obs"][:-1]:
            steps += len(ob[0])
            for nd in ob[1]:
                dist.add(json.dumps(nd[1:]))
    t1 = time.time()
    pre = "From EC Require Import Model.Msgs Model.Replica Model.ReplicaRun Model.Sim."
    try:
        mmh, _ = common.run_model_cases(prop, pre, "Model.Sim.sim_run_hash", coq_cases, shard_size=opts.get("shard", 2),
                                        timeout=opts.get("model_timeout", 2400))
        # full observations: of the disagreeing schedules (to locate the difference) and of one sample
        full_ids = sorted(mmh)[:3] + ([coq_cases[0][0]] if coq_cases else [])
        by_id = {i: inp for (i, inp, _) in coq_cases}
        full = [(i, by_id[i], common.to_obsv(outs[i]["obs"])) for i in dict.fromkeys(full_ids)]
        mmf, samp = common.run_model_cases(prop + "_full", pre, "Model.Sim.sim_run", full, shard_size=1,
                                           sample_ids=full_ids[-1:], timeout=opts.get("model_timeout", 2400))
    except RuntimeError as e:
        raise common.MachineryError(str(e)[:1500])
    mm = {i: mmf.get(i) for i in mmh}
    if mm:
        broken.append(f"correspondence vh sim vs Model.Sim.sim_run: {len(mm)} of {len(coq_cases)} schedules disagree")
    return {"cases": cases, "outs": outs, "mm": mm, "samp": samp, "mon_fail": mon_fail, "kinds": kinds, "stats": stats,
            "steps": steps, "dist": len(dist), "t_gen": round(t_gen, 1), "t_model": round(time.time() - t1, 1)}


def first_diff(model_obs, impl_obs):
    if model_obs is None:
        return None
    m = model_obs if isinstance(model_obs, list) else common.norm_obs(model_obs)
    im = common.norm_obs(impl_obs)
    for k, (a, b) in enumerate(zip(m, im)):
        if a != b:
            where = None
            if isinstance(a, list) and isinstance(b, list) and len(a) == 3 and len(b) == 3:
                for part, (x, y) in zip(("steps", "nodes", "sent"), zip(a, b)):
                    if x != y:
                        where = part
                        for u, v in zip(x, y):
                            if u != v:
                                a, b = u, v
                                break
                        break
            return k, where, a, b
    return None


# ---------------------------------------------------------------------------
# live runs: the real component (Config::run: run loop with its view timer, proposer loop, inbound
# queue) of every node on one manual clock, the harness being the network; monitors only

def gen_live_laggard(rng, opts):
    """directed live script "laggard after a partial view change": one member is faulty (silent
    Byzantine or stopped), the laggards go deaf (what they send still travels, so the others can
    change view with their votes; what is sent to them is lost) for two view timeouts, then the
    network heals"""
    g = Gen(rng, opts)
    c, honest, byz, f = g.committee_laggard()
    N, wt, q = len(honest), dict(c), M.quorum(c)
    script = [{"t": "tick", "ms": rng.range(1, 30)}]
    up = list(range(N))
    stopped = []
    if g.lag_mode == "stop":
        D = rng.choice([k for k in up if wt[honest[k]] <= f])
        script.append({"t": "stop", "k": D})
        up.remove(D)
        stopped = [D]
        script.append({"t": "tick", "ms": rng.range(1, 30)})
    pool = rng.shuffle(up)
    Ls = [pool.pop()]
    while pool and (sum(wt[honest[k]] for k in up if k not in Ls) >= q or rng.chance(1, 4)) and len(Ls) < len(up) - 1:
        Ls.append(pool.pop())
    script.append({"t": "deaf", "ks": sorted(Ls)})
    script.append({"t": "tick", "ms": 1001})
    script.append({"t": "tick", "ms": rng.choice([1001, 1001, 400])})
    script.append({"t": "heal"})
    meta = {"byz": byz, "f": f, "down": stopped, "suffix_start": len(script), "directed": "live_laggard"}
    kf = faulty_run({"_c": c, "_meta": meta, "nodes": honest})
    for _ in range(round_bound(kf) + 2):
        script.append({"t": "tick", "ms": 1001})
        script.append({"t": "sync"})
    return {"committee": M.committee_json(c), "nodes": honest, "first_block": str(rng.choice([0, 0, 3])),
            "live_seed": rng.next() >> 1, "script": script, "_c": c, "_meta": meta, "_kinds": {"live:laggard": 1}}


def gen_live(rng, opts):
    g = Gen(rng, opts)
    c, honest, byz, f = g.committee()
    N = len(honest)
    wt = dict(c)
    script = [{"t": "tick", "ms": rng.range(1, 50)}]
    stopped = set()
    kinds = {}

    def note(k):
        kinds[k] = kinds.get(k, 0) + 1

    for _ in range(rng.range(3, opts.get("live_phases", 8))):
        z = rng.below(10)
        if z < 3:
            ks = rng.shuffle(list(range(N)))
            cut = rng.range(1, N - 1)
            script.append({"t": "cut", "groups": [sorted(ks[:cut]), sorted(ks[cut:])]})
            note("live:partition")
        elif z == 3:
            script.append({"t": "cut", "groups": [sorted(set(range(N)) - {rng.below(N)})]})
            note("live:isolate_one")
        elif z < 6:
            script.append({"t": "drop", "pct": rng.choice([20, 40, 60, 90])})
            note("live:drops")
        elif z == 6:
            script.append({"t": "heal"})
            note("live:heal")
        elif z == 7 and len(stopped) < 2:
            k = rng.below(N)
            stopped.add(k)
            script.append({"t": "stop", "k": k})
            note("live:stop")
        elif z == 8 and stopped:
            k = rng.choice(sorted(stopped))
            stopped.discard(k)
            script.append({"t": "start", "k": k})
            note("live:restart")
        for _ in range(rng.range(1, 3)):
            script.append({"t": "tick", "ms": rng.choice([200, 600, 1001, 1001, 1700])})
        if rng.chance(1, 4):
            script.append({"t": "sync"})
    # the good period
    faulty = wt[byz] if byz is not None else 0
    for k in sorted(stopped):
        if faulty + wt[honest[k]] > f or rng.chance(1, 2):
            script.append({"t": "start", "k": k})
            stopped.discard(k)
        else:
            faulty += wt[honest[k]]
    script.append({"t": "heal"})
    suffix_start = len(script)
    meta = {"byz": byz, "f": f, "down": sorted(stopped), "suffix_start": suffix_start}
    kf = faulty_run({"_c": c, "_meta": meta, "nodes": honest})
    for _ in range(round_bound(kf) + 2):
        script.append({"t": "tick", "ms": 1001})
        script.append({"t": "sync"})
    return {"committee": M.committee_json(c), "nodes": honest, "first_block": str(rng.choice([0, 0, 3])),
            "live_seed": rng.next() >> 1, "script": script, "_c": c, "_meta": meta, "_kinds": kinds}


def live_monitors(case, out):
    bad = []
    meta = case["_meta"]
    if out.get("hang") or "live" not in out:
        return [{"monitor": "C06", "failed": "the live run hung (watchdog) or the harness crashed: " + json.dumps(out)[:200]}], {}
    F = int(case["first_block"])
    by_num = {}
    for k, bl in enumerate(out["blocks"]):
        for n, (num, p) in enumerate(bl):
            if int(num) != F + n:
                bad.append({"monitor": "C01", "failed": f"live: node {k}: queued block numbers are not consecutive at position {n}"})
            by_num.setdefault(int(num), set()).add(p)
    for num, ps in by_num.items():
        if len(ps) > 1:
            bad.append({"monitor": "C01", "failed": f"live: block {num} committed with different payloads {sorted(ps)}"})
    # heights after every (tick, sync) pair of the suffix
    ss = meta["suffix_start"]
    kf = faulty_run(case)
    R = round_bound(kf)
    hs = [out["live"][ss]]
    i = ss
    while i + 2 < len(out["live"]):
        i += 2
        hs.append(out["live"][i])
    worst = 0
    for k in range(len(case["nodes"])):
        if k in meta["down"]:
            continue
        for s0 in range(len(hs) - 1):
            r = next((r for r in range(s0 + 1, len(hs)) if hs[r][k][1] > hs[s0][k][1]), None)
            if r is None:
                if len(hs) - 1 - s0 >= R:
                    bad.append({"monitor": "C06", "failed": f"live: node {k} committed no new block in the {len(hs) - 1 - s0} view timeouts after tick {s0} of the good period (bound R({kf}) = {R})"})
                    break
            else:
                worst = max(worst, r - s0)
                if r - s0 > R:
                    bad.append({"monitor": "C06", "failed": f"live: node {k} needed {r - s0} view timeouts to commit a new block (bound R({kf}) = {R})"})
                    break
    return bad, {"faulty_run": kf, "R": R, "ticks_needed": worst, "ticks": len(hs) - 1}


def run_live_cases(opts, n, rng):
    # every third live run is the directed script "laggard after a partial view change"
    cases = [(gen_live_laggard if i % 3 == 1 else gen_live)(rng.fork(), opts) for i in range(n)]
    env_wd = str(opts.get("live_watchdog_s", 75))
    os.environ["SIM_WATCHDOG_S"] = env_wd
    try:
        with ThreadPoolExecutor(max_workers=opts.get("workers", 12)) as ex:
            outs = list(ex.map(lambda c: common.run_impl("sim", [strip(c)], "dev")[0], cases))
    finally:
        os.environ.pop("SIM_WATCHDOG_S", None)
    fails, stats, kinds = [], [], {}
    for i, (c, o) in enumerate(zip(cases, outs)):
        bad, st = live_monitors(c, o)
        stats.append(st)
        for k, v in c["_kinds"].items():
            kinds[k] = kinds.get(k, 0) + v
        for b in bad:
            fails.append({"case": strip(c), "meta": c["_meta"], "case_index": i, "live": True, **b})
    return {"cases": cases, "outs": outs, "fails": fails, "stats": stats, "kinds": kinds}
