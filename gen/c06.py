"""C06 — progress after the network heals: local liveness theorems (Properties/C06.v) + cluster
correspondence (vh sim vs Model.Sim.sim_run) + monitors on the implementation's runs: commit
within R(k) synchronous rounds from every adversarially reached state, agreement / append-only
(C01), certificate uniqueness (C02) and no commit-vote equivocation (C03) on the same histories."""
import json

import common
import sim_gen as SG
from common import Rng

import os
PROP_FILES = ["theories/Properties/C06.v"] + (["theories/Properties/C06Global.v"] if os.path.exists(os.path.join(common.COQ, "theories/Properties/C06Global.v")) else [])

RULE = (
    "schedules: 4-7 validators (unit / small / medium weights), at most one Byzantine member (weight <= f) that is "
    "not simulated as a node, honest nodes = real replicas; adversarial prefix of 30-120 operations chosen while "
    "watching the real run (random partial deliveries of new / duplicate / arbitrary soup indices, deliver-all, "
    "partitions = deliveries restricted to the messages of a subset, timers, one node alone assembling a certificate, "
    "crashes at a persist point of a timer / proposal / new-view / vote step with the write applied or lost, clean "
    "restarts, stops, block sync, Byzantine equivocating leader with 2 payloads to 2 subsets, malformed proposals, "
    "echoed / conflicting commit votes, echoed timeouts with forged high votes, replayed new-views, future / stale votes, "
    "forged honest signatures, a certificate assembled from honest view-0 timeouts) followed by a synchronous suffix "
    "of max(10, R(k)+1) SRound operations (optionally with Byzantine messages still arriving). Compared per operation: "
    "result class of every handler invocation, snapshot of every touched node (view, phase, high vote, certificates "
    "per signer, caches), every message appended to the soup, and finally all queued blocks (via a 63-bit digest; "
    "full diff on disagreement). Monitors on the implementation alone: C06 every up honest node commits a new block "
    "within R(k) = 9 + 2k rounds counted from the start of EVERY suffix round (k = longest run of consecutive "
    "round-robin leaders that are Byzantine or stopped); no honest node stops by itself; no hang (watchdog); C01 "
    "agreement + consecutive append-only stores + committed blocks certified by votes in the soup; C02 one certified "
    "payload per block number; C03 one commit vote per honest key and view across crashes. "
    "Directed families (fixed fractions of the schedules): commit-then-timeout on weighted committees (2 in 8), split vote then commit-then-timeout (1 in 8), laggard after a partial view change (1 in 8: fewer than a quorum enter v+1 while the laggards are partitioned away for more than one view timeout and everything sent to them is lost (SLoseAllTo), one member silent or stopped; variants: next leader lags, two laggards, half/half; also every third live run, with deaf nodes). "
    "R(k) derivation (round = deliver everything sent before the round to everybody, sync blocks, fire the timer of "
    "every node whose view did not change): <= 3 rounds until every up node has re-broadcast or received the highest "
    "justification (a node that moved by accepting a proposal only announces its certificate at its next timer), "
    "<= 2 rounds to leave the view they then share (timer round + certificate round), 2 rounds per view with a "
    "faulty leader, possibly 2 more when the first honest leader lacks the previous block when it enters its view "
    "(it gets it by the sync at the end of that round), and 2 rounds (proposal/votes, certificate) in the "
    "first view with a working honest leader: 3 + 2 + 2k + 2 + 2 = 9 + 2k. distinct = distinct node snapshots")


def run(rep):
    tier, rng = rep.tier, Rng(rep.seed)
    broken = []
    # translator: the replica handlers (guards, state updates, effect order) and the proposer's decision are
    # regenerated from the source and proved equal to Model/Replica.v (Properties/C05Gen2-4.v)
    import rust2coq
    translator, gen_files = rust2coq.step(rust2coq.REPLICA_STEP, rust2coq.REPLICA_PROPS, broken)
    rep.cov["translator"] = translator
    po = common.proof_obligations(PROP_FILES + gen_files)
    if not po["ok"]:
        broken.append("Coq obligations of Properties/C06.v: " + (po["log_tail"] or str(po["hygiene_problems"] or po["bad_axioms"])))
    opts = {"prefix_ops": 120, "rounds": 10 if tier == "quick" else 30, "shard": 2 if tier == "quick" else 4}
    n = 25 if tier == "quick" else 600
    R = SG.run_sim_cases(rep, "C06", opts, n, rng, broken)
    # replica-local rules progress depends on (availability: a committed block is durable before the proposal cache
    # is pruned and the state backed up; certificates shown are retained; timeouts report the latest vote), on
    # single-replica scenarios with crashes — the cluster engine persists a block as soon as it is queued, so a
    # payload lost between queueing and flushing cannot be exhibited there
    import c05
    RR = c05.run_replica_cases(rep, "C06", {"rounds": 6, "crash": True, "extreme": False}, 24 if tier == "quick" else 400, rng.fork(), broken)
    for pf in RR["pred_fail"]:
        R["mon_fail"].append({"monitor": "C06 replica-local rule", "failed": pf["failed"], "case": pf["case"], "harness": "replica",
                              "meta": {"step": pf.get("step")}})
    # live runs of the real component (run loop with its timer, proposer loop, inbound queue)
    L = SG.run_live_cases(opts, 6 if tier == "quick" else 80, rng)
    R["mon_fail"] += L["fails"]
    for k, v in L["kinds"].items():
        R["kinds"][k] = R["kinds"].get(k, 0) + v
    report(rep, "C06", po, R, broken)
    ls = [s for s in L["stats"] if s]
    rep.cov["live_runs"] = {
        "what": "Config::run of every node (StateMachine::run with the real view timer on a manual clock, run_proposer, the "
                "prunable inbound queue) with the harness as network: partitions, isolation, 20-90% drops, stops/restarts, then a "
                "healed period of R(k)+2 view timeouts with block sync; monitors only (no model): commit within R(k) view timeouts "
                "from every tick of the good period, agreement, consecutive stores",
        "runs": len(L["cases"]), "view_timeouts_needed_max": max([s["ticks_needed"] for s in ls] or [0]),
        "blocks_committed": sum(len(o.get("blocks", [[]])[0]) for o in L["outs"] if o.get("blocks")),
        "messages_forwarded": sum(o.get("forwarded", 0) for o in L["outs"]), "messages_dropped": sum(o.get("dropped", 0) for o in L["outs"]),
    }


def report(rep, prop, po, R, broken, only=None):
    mm, cases, outs = R["mm"], R["cases"], R["outs"]
    mon = [m for m in R["mon_fail"] if only is None or m["monitor"] in only]
    if mon:
        rep.violation(f"{prop} violated on the implementation ({mon[0]['monitor']} monitor): " + mon[0]["failed"],
                      {"failing_input": mon[0], "more": [m["failed"] for m in mon[1:6]], "broken": broken})
    elif broken:
        first = None
        if mm:
            i = sorted(mm)[0]
            fd = SG.first_diff(mm[i], outs[i]["obs"])
            first = {"case": SG.strip(cases[i]), "meta": cases[i]["_meta"],
                     "first_differing_op": (fd[0] - 1) if fd else None, "part": fd[1] if fd else None,
                     "op": cases[i]["ops"][fd[0] - 1] if fd and fd[0] > 0 else None,
                     "model_obs": fd[2] if fd else None, "impl_obs": fd[3] if fd else None}
        rep.violation(f"{prop} no longer shown to hold: " + "; ".join(broken)[:500],
                      {"broken": broken, "first_disagreement": first}, found_input=False)
    st = [s for s in R["stats"] if s]
    by_k = {}
    for s in st:
        by_k[s["faulty_run"]] = max(by_k.get(s["faulty_run"], 0), s["rounds_needed"])
    i0 = 0
    rep.cov.update({
        "obligations": po["obligations"] + 1, "discharged": po["discharged"] + (0 if mm else 1),
        "checker_cmd": "make -C coq theories/Properties/C06.vo + coqc on generated cases_*.v (vm_compute of Model.Sim.sim_run_hash / sim_run)",
        "trusted_base": common.standard_trusted_base([
            "H-SIG/H-HASH symbolic cryptography; bft hook feature verif_hooks (step-driven Replica wrapper + create_proposal, add-only)",
            "harness engine (blocks persisted as soon as queued; payload verdict by id; crash = set_state error), harness network = the soup",
            "observation digest (polynomial, modulo 2^63) for the bulk comparison; full observations compared on any digest mismatch and for one sample",
            "H-ATOM/H-ENG: wall-clock timers, tokio scheduling, TCP and the block fetcher are replaced by the round abstraction"]),
        "theorems": po["theorems"], "axioms": po["axioms"],
        "evaluations": R["steps"], "distinct_nontrivial": R["dist"], "scenarios": len(cases),
        "rule": RULE,
        "input_distribution": R["kinds"],
        "rounds_needed_max_by_faulty_run": by_k, "round_bound": {str(k): SG.round_bound(k) for k in sorted(by_k)},
        "samples": [{"committee": cases[i0]["committee"], "nodes": cases[i0]["nodes"], "ops_head": cases[i0]["ops"][:4],
                     "impl_obs_head": outs[i0]["obs"][:2], "model_obs_equal": i0 not in mm,
                     "model_obs_head": (R["samp"].get(i0) or [])[:2]}] if cases else [],
        "correspondence_mismatches": len(mm), "monitor_failures": len(R["mon_fail"]),
        "timing_s": {"generation+impl": R["t_gen"], "model": R["t_model"]},
        "partial": ("PROVED (Coq, all states / inputs / outcomes of one replica): just_ok invariant incl. crashes and restarts; "
                    "timer_always_enabled (exact effect list); reachable_timer_enabled; catch_up; the invariant and the enabled timer in every "
                    "reachable state of the cluster model Model/Sim.v under any schedule (C06_cluster_invariant, C06_cluster_timer_always_enabled). "
                    "NOT PROVED: the global statement C06_full (Definition in Properties/C06.v over Model/Sim.v: every up honest "
                    "node commits within rounds_bound k = 9 + 2k synchronous rounds after any admissible prefix) — it is monitored "
                    "on the implementation's runs and, through the correspondence, on the model's; sync_rounds_align / "
                    "aligned_view_commits of DESIGN §5 are not proved either. The inbound queue (C16 freshest_survives) is not "
                    "part of the cluster model: the soup delivers every message."),
    })
    rep.assumptions += ["H-SIG, H-HASH, H-ADV (Byzantine messages carry only signatures of Byzantine keys or of messages in the soup)",
                        "H-ENG (payloads accepted, blocks persisted when queued, missing blocks fetchable)",
                        "H-ATOM (round abstraction of time)"]


def replay(path):
    d = json.load(open(path))
    fi = d.get("failing_input") or d.get("first_disagreement")
    if not fi:
        print("no concrete input:", d.get("broken"))
        return 1
    case = fi["case"]
    if "store_first" in case:
        import c05
        return c05.replay(path)
    if "script" in case:
        return replay_live(fi)
    case["_c"] = [(int(k), int(w)) for k, w in case["committee"]]
    case["_meta"] = fi.get("meta") or {"byz": None, "f": 0, "suffix_start": len(case["ops"]), "down": [], "noisy_suffix": False}
    common.cargo_build(["sim"], "dev")
    o = common.run_impl("sim", [SG.strip(case)], "dev")[0]
    if o.get("hang"):
        print("HANG after", o.get("ops_done"), "operations")
        return 0
    for i, ob in enumerate(o["obs"][:-1]):
        op = case["ops"][i - 1] if i > 0 else {"t": "start"}
        nodes = [(nd[0], nd[1], nd[2], nd[3][0] if len(nd) > 3 else None, nd[3][1] if len(nd) > 3 else None) for nd in ob[1]]
        print(i - 1, json.dumps(op)[:110], "| steps", len(ob[0]), "| (node, up, blocks, view, phase)", nodes,
              "| sent", [(s[0], s[1][0]) for s in ob[2]])
    print("blocks", o["blocks"])
    bad, st = SG.monitors(case, o)
    print("monitors:", st)
    for b in bad:
        print("  FAILED", b["monitor"], b["failed"])
    return 0


def replay_live(fi):
    case = fi["case"]
    case["_c"] = [(int(k), int(w)) for k, w in case["committee"]]
    case["_meta"] = fi["meta"]
    common.cargo_build(["sim"], "dev")
    o = common.run_impl("sim", [SG.strip(case)], "dev")[0]
    if "live" not in o:
        print("HANG / crash:", json.dumps(o)[:300])
        return 0
    print("start", "| (running, blocks, persisted view, phase) per node", o["live"][0])
    for i, st in enumerate(o["live"][1:]):
        print(i, json.dumps(case["script"][i]), "|", st)
    bad, st = SG.live_monitors(case, o)
    print("monitors:", st)
    for b in bad:
        print("  FAILED", b["monitor"], b["failed"])
    return 0
