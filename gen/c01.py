"""C01 — agreement: Layer A (abstract vote history) + Layer B (refinement of the concrete protocol
model, when proved) theorems; correspondence of the replica model with the implementation under
crashes; cluster simulation with agreement / append-only monitors."""
import json
import os

import common
import c05
from common import Rng


def prop_files():
    fs = ["theories/Properties/C01Abs.v"]
    for f in ("theories/Properties/C01.v",):
        if os.path.exists(os.path.join(common.COQ, f)):
            fs.append(f)
    return fs


def append_only_pred(case, out):
    """Per node: the blocks handed to the execution layer have consecutive increasing numbers starting at the
    store's first block, each exactly once (never replaced or reordered), across crashes and restarts."""
    bad = []
    q = [int(x) for x in out.get("queued", [])]
    first = int(case["store_first"])
    for k, n in enumerate(q):
        if n != first + k:
            bad.append({"failed": f"blocks handed to storage are not consecutive: {q[:k + 1]} (store starts at {first})"})
            break
    # every queue-block effect must be for a block certified by a commit certificate the replica holds/held
    seen = {}
    for i, ob in enumerate(out["obs"]):
        if ob == [9] or len(ob) < 2:
            continue
        effs = []
        if ob[0] == [7]:
            effs = ob[1][0] + ob[2][0]
        else:
            effs = ob[1][0]
        for e in effs:
            if e[0] == 2:
                n, h = int(e[1]), e[2]
                if n in seen and seen[n] != h:
                    bad.append({"step": i, "failed": f"block {n} committed twice with different payloads {seen[n]} and {h}"})
                seen[n] = h
    return bad


def _replica_preds(case, out):
    """append-only stores + the crash-safety rules of C03 (a vote is recorded durably before it is sent, one vote
    per view across incarnations): agreement across crashes and restarts rests on them"""
    import c03
    return append_only_pred(case, out) + c03.extra_pred(case, out)


def run(rep):
    tier, rng = rep.tier, Rng(rep.seed)
    broken = []
    import rust2coq
    translator, gen_files = rust2coq.step(rust2coq.REPLICA_STEP, rust2coq.REPLICA_PROPS, broken)
    files = prop_files() + gen_files
    po = common.proof_obligations(files)
    po["files"] = files
    if not po["ok"]:
        broken.append("Coq obligations of " + ",".join(files) + ": " + (po["log_tail"] or str(po["hygiene_problems"] or po["bad_axioms"])))
    R = c05.run_replica_cases(rep, "C01", {"rounds": 7 if tier == "quick" else 10, "crash": True, "extreme": False},
                              40 if tier == "quick" else 800, rng, broken, extra_pred=_replica_preds)
    sim_cov = None
    import sim_gen as SG
    S = SG.run_sim_cases(rep, "C01", {"prefix_ops": 100, "rounds": 8, "shard": 2}, 8 if tier == "quick" else 250, rng.fork(), broken)
    cluster_fail = []
    for mfail in S["mon_fail"]:
        if mfail["monitor"] in ("C01", "C02", "C03"):
            cluster_fail.append({"case": mfail.get("case"), "meta": mfail.get("meta"), "failed": "cluster simulation, %s monitor: %s" % (mfail["monitor"], mfail["failed"])})
    # a disagreement in the cluster is the primary replay
    R["pred_fail"] = cluster_fail + R["pred_fail"]
    sim_cov = {"schedules": len(S["cases"]), "mismatches": len(S["mm"]),
               "monitor_failures": len([m for m in S["mon_fail"] if m["monitor"] in ("C01", "C02", "C03")]),
               "what": "N real replicas vs Model/Sim.v on adversarial schedules (partitions, equivocating Byzantine leader, forged/stale votes, crashes, restarts, sync) + synchronous suffix; monitors: all nodes' committed payloads agree per block number, consecutive stores, one certified payload per number, one commit vote per key and view"}
    c05.report(rep, "C01", po, R, broken,
               "single-replica scenarios as in C05 plus crashes at persist points (both outcomes) and restarts: outcome, ordered effects and snapshot compared per step; monitors: blocks handed to storage are consecutive, never replaced; cluster simulation (when present): all nodes' committed payloads agree per block number")
    if sim_cov:
        rep.cov["cluster_simulation"] = sim_cov
    rep.cov["translator"] = translator
    rep.cov["partial"] = ("agreement is proved for the abstract vote-history model (Properties/C01Abs.v: abs_certificate_unique, I1-I3) "
                          + ("and for the concrete protocol model through the refinement (Properties/C01.v)" if len(files) > 1 else
                             "; the refinement of the concrete replica model to it is in progress — until then the link is the replica correspondence")
                          + "; epoch hand-over is outside the theorem")
    rep.assumptions += ["H-SIG, H-ADV, H-HASH, H-ENG (set_state atomic)"]


def replay(path):
    d = json.load(open(path))
    fi = d.get("failing_input") or d.get("first_disagreement") or {}
    case = fi.get("case") or {}
    if "store_first" not in case and ("nodes" in case or "script" in case or "ops" in case):
        import c06
        return c06.replay(path)
    return c05.replay(path)
