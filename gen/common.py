"""Shared machinery of the /verif check driver.

Pieces: splitmix64 PRNG, Coq build + hygiene + Print Assumptions parsing, cargo
build of the Rust harness, running impl and model on the same cases, diffing,
evidence and violation reporting.
"""
import fcntl
import json
import os
import re
import subprocess
import sys
import time

ROOT = os.path.dirname(os.path.dirname(os.path.abspath(__file__)))
COQ = os.path.join(ROOT, "coq")
HARNESS = os.path.join(ROOT, "harness")
BUILD = os.path.join(ROOT, "build")
EVIDENCE = os.path.join(ROOT, "evidence")
REPLAY = os.path.join(ROOT, "replay")
CORPUS = os.path.join(ROOT, "corpus")
REPO = "/repo"

ALLOWED_AXIOMS = {
    # stdlib axioms that a tactic or library may pull in; each is named in DESIGN.md §2.2.
    # (empty on purpose: the development is expected to be axiom free)
}

MASK = (1 << 64) - 1


class Rng:
    """splitmix64; every random choice of a run derives from one state."""

    def __init__(self, seed):
        self.s = seed & MASK

    def next(self):
        self.s = (self.s + 0x9E3779B97F4A7C15) & MASK
        z = self.s
        z = ((z ^ (z >> 30)) * 0xBF58476D1CE4E5B9) & MASK
        z = ((z ^ (z >> 27)) * 0x94D049BB133111EB) & MASK
        return z ^ (z >> 31)

    def below(self, n):
        return self.next() % n if n > 0 else 0

    def range(self, lo, hi):
        """inclusive"""
        return lo + self.below(hi - lo + 1)

    def choice(self, xs):
        return xs[self.below(len(xs))]

    def chance(self, num, den):
        return self.below(den) < num

    def shuffle(self, xs):
        xs = list(xs)
        for i in range(len(xs) - 1, 0, -1):
            j = self.below(i + 1)
            xs[i], xs[j] = xs[j], xs[i]
        return xs

    def fork(self):
        return Rng(self.next())


class Lock:
    def __init__(self, name):
        os.makedirs(BUILD, exist_ok=True)
        self.path = os.path.join(BUILD, name + ".lock")

    def __enter__(self):
        self.f = open(self.path, "w")
        fcntl.flock(self.f, fcntl.LOCK_EX)
        return self

    def __exit__(self, *a):
        fcntl.flock(self.f, fcntl.LOCK_UN)
        self.f.close()


def sh(cmd, cwd=None, timeout=None, env=None, input=None):
    e = dict(os.environ)
    e.update({"CARGO_NET_OFFLINE": "true"})
    if env:
        e.update(env)
    p = subprocess.run(cmd, cwd=cwd, timeout=timeout, env=e, input=input,
                       stdout=subprocess.PIPE, stderr=subprocess.STDOUT, text=True,
                       shell=isinstance(cmd, str))
    return p.returncode, p.stdout


# ---------------------------------------------------------------------------
# Coq

FORBIDDEN = re.compile(
    r"Admitted|\badmit\b|\bAxiom\b|\bAxioms\b|\bParameter\b|\bParameters\b|\bConjecture\b|"
    r"Unset Guard|bypass_check|type-in-type|impredicative-set|Admit Obligations|"
    r"Unset Positivity|Unset Universe|native_compute")


def coq_hygiene():
    """Greps the development for forbidden vernacular; checks Variable/Hypothesis only in Sections."""
    problems = []
    for d, _, fs in os.walk(os.path.join(COQ, "theories")):
        for f in fs:
            if not f.endswith(".v"):
                continue
            p = os.path.join(d, f)
            depth = 0
            for i, line in enumerate(open(p), 1):
                if FORBIDDEN.search(line):
                    problems.append(f"{p}:{i}: forbidden: {line.strip()}")
                s = line.strip()
                if re.match(r"Section\s+\w+", s):
                    depth += 1
                elif re.match(r"End\s+\w+\s*\.", s) and depth > 0:
                    depth -= 1
                elif depth == 0 and re.match(r"(Variable|Variables|Hypothesis|Hypotheses|Context)\b", s):
                    problems.append(f"{p}:{i}: Variable/Hypothesis outside a Section")
    cp = open(os.path.join(COQ, "_CoqProject")).read()
    if FORBIDDEN.search(cp):
        problems.append("_CoqProject: forbidden flag")
    return problems


def coq_makefile():
    vs = []
    for d, _, fs in os.walk(os.path.join(COQ, "theories")):
        for f in sorted(fs):
            if f.endswith(".v"):
                vs.append(os.path.relpath(os.path.join(d, f), COQ))
    vs.sort()
    head = ("-Q theories EC\n"
            "-arg -w -arg -notation-overridden,-deprecated-hint-without-locality,"
            "-deprecated-instance-without-locality\n")
    body = head + "\n".join(vs) + "\n"
    cp = os.path.join(COQ, "_CoqProject")
    if not os.path.exists(cp) or open(cp).read() != body:
        open(cp, "w").write(body)
    if (not os.path.exists(os.path.join(COQ, "Makefile"))
            or os.path.getmtime(os.path.join(COQ, "Makefile")) < os.path.getmtime(cp)):
        rc, out = sh(["coq_makefile", "-f", "_CoqProject", "-o", "Makefile"], cwd=COQ)
        if rc != 0:
            raise RuntimeError("coq_makefile failed: " + out)


def coq_build(targets, timeout=1500, force=()):
    """Builds the given .vo targets (paths relative to coq/). `force` targets are recompiled so
    that their Print Assumptions output is produced on this run. Returns (ok, output)."""
    with Lock("coq"):
        coq_makefile()
        for t in force:
            for ext in (".vo", ".glob", ".vos", ".vok"):
                p = os.path.join(COQ, t[:-3] + ext) if t.endswith(".vo") else None
                if p and os.path.exists(p):
                    os.remove(p)
        rc, out = sh(["timeout", str(timeout), "make", "-j16"] + list(targets), cwd=COQ)
    return rc == 0, out


def parse_theorems(vfile):
    """Names of Theorem/Example statements in a Properties file."""
    src = open(os.path.join(COQ, vfile)).read()
    return re.findall(r"^(?:Theorem|Example|Lemma|Corollary)\s+(\w+)", src, re.M)


def parse_assumptions(output):
    """Parses the output of `Print Assumptions` commands, in order. Returns a list of lists of
    axiom names ([] = closed under the global context)."""
    res = []
    lines = output.splitlines()
    i = 0
    while i < len(lines):
        l = lines[i]
        if l.startswith("Closed under the global context"):
            res.append([])
        elif l.startswith("Axioms:"):
            ax = []
            i += 1
            while i < len(lines) and (lines[i].startswith(" ") or re.match(r"^[\w.']+\s*:", lines[i])):
                m = re.match(r"^([\w.']+)\s*:", lines[i])
                if m:
                    ax.append(m.group(1))
                i += 1
            res.append(ax)
            continue
        i += 1
    return res


def proof_obligations(prop_files, extra_targets=()):
    """Builds the property files (forcing recompilation of the Properties files themselves) and
    returns a dict describing obligations."""
    t0 = time.time()
    problems = coq_hygiene()
    targets = [f[:-2] + ".vo" for f in prop_files] + list(extra_targets)
    ok, out = coq_build(targets, force=[f[:-2] + ".vo" for f in prop_files])
    theorems = []
    for f in prop_files:
        theorems += parse_theorems(f)
    assumptions = parse_assumptions(out)
    bad_axioms = sorted({a for ax in assumptions for a in ax if a not in ALLOWED_AXIOMS})
    n_pa = len(assumptions)
    discharged = len(theorems) if (ok and not problems and not bad_axioms) else 0
    return {
        "ok": ok and not problems and not bad_axioms,
        "build_ok": ok,
        "hygiene_problems": problems,
        "theorems": theorems,
        "print_assumptions": n_pa,
        "axioms": sorted({a for ax in assumptions for a in ax}),
        "bad_axioms": bad_axioms,
        "obligations": len(theorems),
        "discharged": discharged,
        "log_tail": "\n".join(out.splitlines()[-25:]) if not ok else "",
        "wall_s": time.time() - t0,
    }


# ---------------------------------------------------------------------------
# Coq terms

def coq_z(n):
    n = int(n)
    return f"({n})" if n < 0 else str(n)


def coq_list(xs):
    return "[" + "; ".join(xs) + "]"


def coq_bool(b):
    return "true" if b else "false"


def coq_opt(x):
    return "None" if x is None else f"(Some {x})"


def to_obsv(j):
    """JSON value (nested arrays of ints / decimal strings / bools) -> Coq obsv literal."""
    if isinstance(j, bool):
        return f"(OZ {1 if j else 0})"
    if isinstance(j, int):
        return f"(OZ {coq_z(j)})"
    if isinstance(j, str):
        return f"(OZ {coq_z(int(j))})"
    if isinstance(j, list):
        return "(OL " + coq_list([to_obsv(x) for x in j]) + ")"
    raise ValueError(f"to_obsv: {j!r}")


def norm_obs(j):
    """Normalises a JSON observation to nested lists of python ints."""
    if isinstance(j, bool):
        return 1 if j else 0
    if isinstance(j, int):
        return j
    if isinstance(j, str):
        return int(j)
    if isinstance(j, list):
        return [norm_obs(x) for x in j]
    raise ValueError(f"norm_obs: {j!r}")


class CoqParser:
    """Parses printed Coq values built from obsv constructors, lists, pairs and integers."""

    def __init__(self, s):
        self.t = re.findall(r"\[|\]|\(|\)|;|,|-?\d+|%\w+|[A-Za-z_][\w']*", s)
        self.i = 0

    def peek(self):
        return self.t[self.i] if self.i < len(self.t) else None

    def eat(self, x=None):
        t = self.peek()
        if x is not None and t != x:
            raise ValueError(f"expected {x} got {t} at {self.i}")
        self.i += 1
        return t

    def skip_scope(self):
        while self.peek() is not None and self.peek().startswith("%"):
            self.i += 1

    def value(self):
        t = self.peek()
        if t == "[":
            self.eat()
            xs = []
            if self.peek() == "]":
                self.eat()
            else:
                while True:
                    xs.append(self.value())
                    if self.peek() == ";":
                        self.eat()
                        continue
                    self.eat("]")
                    break
            self.skip_scope()
            return xs
        if t == "(":
            self.eat()
            xs = [self.value()]
            while self.peek() == ",":
                self.eat()
                xs.append(self.value())
            self.eat(")")
            self.skip_scope()
            return xs[0] if len(xs) == 1 else tuple(xs)
        if re.match(r"-?\d+$", t):
            self.eat()
            self.skip_scope()
            return int(t)
        if t in ("OZ", "OL"):
            self.eat()
            return self.value()
        if t == "true":
            self.eat()
            return True
        if t == "false":
            self.eat()
            return False
        # constructor application: name args...
        self.eat()
        args = []
        while self.peek() not in (None, "]", ")", ";", ","):
            args.append(self.value())
        return (t, *args) if args else t


def parse_coq_evals(out):
    """Splits coqc output into the values printed by successive `Eval` commands."""
    vals = []
    for m in re.finditer(r"^\s*= (.*?)\n\s*: ", out, re.S | re.M):
        vals.append(m.group(1))
    return vals


def run_model_cases(prop, preamble, run_fn, cases_coq, shard_size=400, sample_ids=(), timeout=900):
    """Evaluates the model inside Coq on `cases_coq` = list of (id:int, input_term:str, expected_obsv:str).
    `run_fn` is a Coq term of type input -> obsv. Returns (mismatches: {id: model_obs}, samples: {id: model_obs}).
    One coqc process per shard, 16 in parallel."""
    d = os.path.join(BUILD, "cases", prop)
    os.makedirs(d, exist_ok=True)
    for f in os.listdir(d):
        os.remove(os.path.join(d, f))
    shards = [cases_coq[i:i + shard_size] for i in range(0, len(cases_coq), shard_size)]
    sample_ids = set(sample_ids)
    files = []
    for k, sh_cases in enumerate(shards):
        name = f"cases_{k}"
        with open(os.path.join(d, name + ".v"), "w") as f:
            f.write("From Coq Require Import ZArith List String.\nFrom EC Require Import Lib.Obs.\n")
            f.write(preamble + "\n")
            f.write("Import ListNotations.\nOpen Scope Z_scope.\nSet Printing Width 100000000.\nSet Printing Depth 100000000.\n")
            f.write(f"Definition run_case := ({run_fn}).\n")
            f.write("Definition cases := [\n")
            f.write(";\n".join(f"({i}, ({inp}), {exp})" for (i, inp, exp) in sh_cases))
            f.write("\n].\n")
            f.write("Eval vm_compute in (check_cases run_case cases).\n")
            samp = [c for c in sh_cases if c[0] in sample_ids]
            if samp:
                f.write("Eval vm_compute in (map (fun c => (fst c, run_case (snd c))) [\n")
                f.write(";\n".join(f"({i}, ({inp}))" for (i, inp, _) in samp))
                f.write("\n]).\n")
        files.append(name)
    procs = []
    results = {}
    pending = list(files)
    running = []
    t_end = time.time() + timeout

    def launch(name):
        p = subprocess.Popen(["coqc", "-noglob", "-Q", os.path.join(COQ, "theories"), "EC", name + ".v"],
                             cwd=d, stdout=subprocess.PIPE, stderr=subprocess.STDOUT, text=True)
        return (name, p)

    while pending or running:
        while pending and len(running) < 16:
            running.append(launch(pending.pop(0)))
        name, p = running.pop(0)
        try:
            out, _ = p.communicate(timeout=max(1, t_end - time.time()))
        except subprocess.TimeoutExpired:
            p.kill()
            raise RuntimeError(f"model evaluation timed out in {name}")
        if p.returncode != 0:
            raise RuntimeError(f"coqc failed on {name}.v:\n{out[-3000:]}")
        results[name] = out
    mismatches, samples = {}, {}
    for name in files:
        vals = parse_coq_evals(results[name])
        if not vals:
            raise RuntimeError(f"no Eval output in {name}: {results[name][-2000:]}")
        mm = CoqParser(vals[0]).value()
        for (i, o) in mm:
            mismatches[i] = o
        if len(vals) > 1:
            for (i, o) in CoqParser(vals[1]).value():
                samples[i] = o
    return mismatches, samples


# ---------------------------------------------------------------------------
# Rust harness

def target_dir():
    """Cargo target directory; VERIF_CARGO_TARGET selects a private one (avoids waiting on the
    build lock while several builders share the default directory)."""
    return os.environ.get("VERIF_CARGO_TARGET") or os.path.join(HARNESS, "target")


def cargo_build(bins, profile="dev", timeout=3000):
    """Builds harness binaries against /repo's current working tree. Returns (ok, output)."""
    with Lock("cargo-" + os.path.basename(target_dir())):
        cmd = ["cargo", "build", "--offline", "-q", "--target-dir", target_dir()]
        if profile == "release":
            cmd.append("--release")
        for b in bins:
            cmd += ["--bin", b]
        rc, out = sh(cmd, cwd=HARNESS, timeout=timeout)
    return rc == 0, out


def bin_path(name, profile="dev"):
    return os.path.join(target_dir(), "release" if profile == "release" else "debug", name)


def run_impl(binname, cases, profile="dev", args=(), timeout=3000, shards=16):
    """Feeds JSON cases (list of dicts) to a harness binary, sharded over processes; returns outputs in order."""
    if not cases:
        return []
    n = len(cases)
    shards = max(1, min(shards, (n + 49) // 50))
    chunks = [cases[i * n // shards:(i + 1) * n // shards] for i in range(shards)]
    procs = []
    for ch in chunks:
        data = "".join(json.dumps(c) + "\n" for c in ch)
        p = subprocess.Popen([bin_path(binname, profile)] + list(args), stdin=subprocess.PIPE,
                             stdout=subprocess.PIPE, stderr=subprocess.PIPE, text=True)
        procs.append((p, data, len(ch)))
    # feed concurrently via threads to avoid pipe deadlocks
    import threading
    outs = [None] * len(procs)

    def work(k):
        p, data, _ = procs[k]
        try:
            o, e = p.communicate(data, timeout=timeout)
        except subprocess.TimeoutExpired:
            p.kill()
            o, e = "", "timeout"
        outs[k] = (p.returncode, o, e)

    ths = [threading.Thread(target=work, args=(k,)) for k in range(len(procs))]
    for t in ths:
        t.start()
    for t in ths:
        t.join()
    res = []
    for k, (rc, o, e) in enumerate(outs):
        lines = [json.loads(l) for l in o.splitlines() if l.strip()]
        if len(lines) != procs[k][2]:
            # the process died (abort / crash) on case number len(lines) of this chunk
            ch = chunks[k]
            res += lines
            res.append({"crash": True, "rc": rc, "stderr": (e or "")[-2000:]})
            res += [{"skipped": True}] * (len(ch) - len(lines) - 1)
        else:
            res += lines
    return res


# ---------------------------------------------------------------------------
# Reporting

def load_known_findings():
    p = os.path.join(ROOT, "known_findings.json")
    if not os.path.exists(p):
        return {"open": [], "fixed": []}
    return json.load(open(p))


class Report:
    def __init__(self, prop, tier, seed):
        self.prop, self.tier, self.seed = prop, tier, seed
        self.t0 = time.time()
        self.violations = []
        self.cov = {}
        self.assumptions = []
        self.known_printed = []

    def violation(self, what, replay_obj, found_input=True):
        os.makedirs(REPLAY, exist_ok=True)
        k = len(self.violations)
        path = os.path.join(REPLAY, f"{self.prop}-{self.seed}-{k}.json")
        obj = {"property": self.prop, "what": what, "seed": self.seed, "tier": self.tier,
               "failing_input_found": found_input}
        obj.update(replay_obj)
        json.dump(obj, open(path, "w"), indent=1, default=str)
        self.violations.append((path, what, found_input))

    def known(self, text):
        self.known_printed.append(text)

    def finish(self, level="proof"):
        os.makedirs(EVIDENCE, exist_ok=True)
        ev = {
            "property_id": self.prop,
            "tier": self.tier,
            "seed": self.seed,
            "level": level,
            "coverage": self.cov,
            "assumptions": self.assumptions,
            "wall_s": round(time.time() - self.t0, 2),
            "violations": len(self.violations),
        }
        json.dump(ev, open(os.path.join(EVIDENCE, f"{self.prop}.json"), "w"), indent=1, default=str)
        for t in self.known_printed:
            print(f"KNOWN-FINDING: property={self.prop} {t}")
        for (path, what, found) in self.violations:
            tail = "" if found else " no-failing-input-found"
            print(f"# {what}")
            print(f"VIOLATION property={self.prop} replay={path}{tail}")
        sys.stdout.flush()
        return 1 if self.violations else 0



# ---------------------------------------------------------------------------
# independent re-check (thorough tier): coqchk on the property's compiled modules

STDLIB_PRIMITIVE_PREFIXES = ("Coq.Numbers.Cyclic.Int63.PrimInt63.", "Coq.Numbers.Cyclic.Int63.Uint63.",
                             "Coq.Numbers.Cyclic.Int63.Sint63.")


def coqchk(prop_files, timeout=3000):
    """Runs `coqchk -o -silent` on the given Properties/*.v modules (and, transitively, on everything they depend
    on) using a private copy of the .vo files, so that a concurrent build cannot change them mid-run. Returns
    {"ok", "modules": {name: {"rc", "axioms": [...]}}}. Allowed axioms: none, except the standard library's own
    primitive 63-bit integer declarations (loaded by Model/Sim.v for an observation hash; no theorem uses them)."""
    import shutil
    import tempfile
    tmp = tempfile.mkdtemp(prefix="coqchk.", dir=os.path.join(ROOT, "build"))
    res = {"ok": True, "modules": {}}
    try:
        subprocess.run(["rsync", "-a", "--include=*/", "--include=*.vo", "--exclude=*",
                        os.path.join(COQ, "theories"), tmp + "/"], check=True)
        for f in prop_files:
            mod = "EC." + f[len("theories/"):-2].replace("/", ".")
            try:
                r = subprocess.run(["coqchk", "-o", "-silent", "-Q", "theories", "EC", mod], cwd=tmp,
                                   capture_output=True, text=True, timeout=timeout)
                out, rc = r.stdout + r.stderr, r.returncode
            except subprocess.TimeoutExpired:
                out, rc = "timeout", 124
            ax, on = [], False
            for l in out.splitlines():
                if l.startswith("* Axioms:"):
                    on = True
                    rest = l[len("* Axioms:"):].strip()
                    if rest and rest != "<none>":
                        ax.append(rest)
                    continue
                if l.startswith("* "):
                    on = False
                if on and l.strip():
                    ax.append(l.strip())
            bad = [a for a in ax if not a.startswith(STDLIB_PRIMITIVE_PREFIXES)]
            res["modules"][mod] = {"rc": rc, "axioms": ax if len(ax) <= 3 else ax[:3] + ["... %d standard-library primitive-integer names in all" % len(ax)],
                                   "not_allowed": bad}
            if rc != 0 or bad:
                res["ok"] = False
                res["modules"][mod]["tail"] = out[-600:]
    finally:
        shutil.rmtree(tmp, ignore_errors=True)
    return res


class MachineryError(Exception):
    pass


def standard_trusted_base(extra=()):
    return [
        "Coq 8.16.1 kernel (vm_compute used; no native_compute)",
        "axioms: none (Print Assumptions: Closed under the global context) unless listed under 'axioms'",
        "hand-written Gallina model tied to /repo by differential correspondence (Rust harness vs model evaluated by vm_compute in coqc)",
        "python driver gen/*.py and Rust harness harness/src/bin/*.rs (feed both sides the same cases; compare)",
        "rustc/cargo, the repository's dependencies",
    ] + list(extra)
