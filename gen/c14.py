"""C14 — multiplexed streams isolated, ordered, flow-controlled.

theorems (Properties/C14.v) + correspondence (harness bin `mux` vs Model.Mux.run_case) + predicates
evaluated on the behaviour of the real multiplexer alone."""
import json
import os
import re
import resource
import common
from common import Rng, coq_z, coq_list, coq_bool

# the model walks byte lists of up to 2^16 elements recursively: coqc (a child process) needs a deep stack
try:
    resource.setrlimit(resource.RLIMIT_STACK, (resource.RLIM_INFINITY, resource.RLIM_INFINITY))
except (ValueError, OSError):
    pass

PROP_FILES = ["theories/Properties/C14.v"]

FK_OPEN, FK_DATA, FK_CLOSE, FK_BAD = 0, 0x4000, 0x8000, 0xC000
SK_CONNECT = 0x2000
MAXP = (1 << 61) - 1


# ---------------------------------------------------------------------------
# case -> Coq term

def coq_pairs(l):
    return coq_list(["(%s, %s)" % (coq_z(a), coq_z(b)) for a, b in l])


def coq_cfg(c):
    return "(mkCfg %s %s %s %s)" % tuple(coq_z(x) for x in c)


def coq_op(op):
    n = op[0]
    if n == "open":
        return "OOpen %s %s %s %s" % tuple(coq_z(x) for x in op[1:5])
    if n == "write":
        return "OWrite %s %s" % (coq_z(op[1]), coq_z(op[2]))
    if n == "flush":
        return "OFlush %s" % coq_z(op[1])
    if n == "read":
        return "ORead %s %s" % (coq_z(op[1]), coq_z(op[2]))
    if n == "dropw":
        return "ODropW %s" % coq_z(op[1])
    if n == "dropr":
        return "ODropR %s" % coq_z(op[1])
    if n == "rawframe":
        return "ORawFrame %s %s %s" % (coq_z(op[1]), coq_z(op[2]), coq_z(op[3]))
    if n == "rawbytes":
        return "ORawBytes %s" % coq_list([coq_z(b) for b in op[1]])
    if n == "rawclose":
        return "ORawClose"
    raise ValueError(op)


def coq_case(c):
    m = c["mode"]
    if m == "header":
        return "CHeader %s %s" % (coq_list([coq_z(r) for r in c["raws"]]),
                                  coq_list(["(%s, %s, %s)" % tuple(coq_z(x) for x in t) for t in c["news"]]))
    if m == "verify":
        return "CVerify %s %s %s" % (coq_cfg(c["cfg"]), coq_pairs(c["accept"]), coq_pairs(c["connect"]))
    sides = []
    for i in range(2):
        sides.append("(mkSide %s %s %s)" % (coq_cfg(c["cfg"][i]), coq_pairs(c["caps"][i]["accept"]),
                                            coq_pairs(c["caps"][i]["connect"])))
    return "CScript %s %s %s %s" % (coq_bool(m == "raw"), sides[0], sides[1],
                                    coq_list([coq_op(o) for o in c["ops"]]))


def impl_obs(c, o):
    if "panic" in o:
        return [-1]
    return o["obs"]


# ---------------------------------------------------------------------------
# generators

def gen_header_cases(rng, n):
    cases = []
    per = 4096
    # every one of the 2^16 header values goes through header_parts on every run
    for k in range(0, 1 << 16, per):
        news = []
        for _ in range(24):
            fk = rng.choice([FK_OPEN, FK_DATA, FK_CLOSE, FK_BAD, rng.below(1 << 16)])
            sk = rng.choice([0, SK_CONNECT, rng.below(1 << 16)])
            idv = rng.choice([0, 1, 8190, 8191, 8192, 8193, 65535, rng.below(8192), rng.below(1 << 16)])
            news.append([fk, sk, idv])
        cases.append({"mode": "header", "raws": list(range(k, k + per)), "news": news, "kind": "header"})
    return cases


def gen_limits(rng, ncaps):
    capids = rng.shuffle([0, 1, 2, 3, 7, 1 << 40, (1 << 64) - 1])[:ncaps]
    return capids


def gen_verify_cases(rng, n):
    cases = []
    for _ in range(n):
        cfg = [rng.choice([1, 100, 65535, 65536, 1 << 20]),
               rng.choice([0, 1000, MAXP - 1, MAXP, MAXP + 1, (1 << 64) - 1]),
               rng.choice([0, 10, MAXP, MAXP + 1, (1 << 63)]),
               rng.choice([0, 1, 150, 65535, 65536, 70000, (1 << 64) - 1])]
        def lim():
            k = rng.below(5)
            out = []
            for c in rng.shuffle([0, 1, 2, 5, 9])[:k]:
                out.append([c, rng.choice([0, 1, 5, 4096, 4097, 8191, 8192, 8193, (1 << 32) - 1, (1 << 31)])])
            return out
        cases.append({"mode": "verify", "cfg": cfg, "accept": lim(), "connect": lim(), "kind": "verify"})
    return cases


def gen_cfg(rng, big):
    rfs = rng.choice([1, 2, 7, 16, 80, 100, 1000, 65535, 70000]) if not big else rng.choice([64, 100, 1000, 4096, 65535])
    rbs = rng.choice([0, 1, rfs, rfs * 2, 100, 800, 1000, 5000, 100000, 1 << 20])
    rfc = rng.choice([0, 1, 2, 3, 7, 10, 100, 1000])
    if rng.chance(2, 3):
        # comfortable limits: the interesting behaviour is then in the streams, not in the blocking
        rbs = max(rbs, rfs * 4, 1000)
        rfc = max(rfc, 8)
    wfs = rng.choice([1, 2, 5, 79, 150, 1000, 65535]) if not big else rng.choice([79, 150, 1000, 4000, 65535])
    return [rfs, rbs, rfc, wfs]


def gen_caps(rng):
    ncaps = rng.range(1, 3)
    pool = rng.shuffle([0, 1, 2, 3, 9, 1 << 33])
    def side():
        d = {}
        for name in ("accept", "connect"):
            l = []
            for c in pool[:ncaps]:
                if rng.chance(9, 10):
                    l.append([c, rng.choice([0, 1, 1, 2, 2, 5])])
            if rng.chance(1, 8):
                l.append([pool[ncaps], rng.choice([1, 2])])
            d[name] = rng.shuffle(l)
        return d
    return [side(), side()]


def stream_limit(caps, opener, kind, cap):
    """min(local limit, peer limit) for queue `kind` (0 accept, 1 connect) of side `opener`."""
    mine = dict(map(tuple, caps[opener]["accept" if kind == 0 else "connect"]))
    peer = dict(map(tuple, caps[1 - opener]["connect" if kind == 0 else "accept"]))
    if cap not in mine:
        return None
    return min(mine[cap], peer.get(cap, 0))


def gen_pair_case(rng, nops, big):
    cfg = [gen_cfg(rng, big), gen_cfg(rng, big)]
    caps = gen_caps(rng)
    ops = []
    slots = {}  # slot -> dict(side, kind, cap, r, w, opened?)
    next_slot = 1
    total_written = 0
    budget = 40000 if not big else 400000
    # directions: (connecting side, cap)
    dirs = []
    for side in (0, 1):
        for cap, _ in caps[side]["connect"]:
            dirs.append((side, cap))
    while len(ops) < nops:
        z = rng.below(100)
        live = [s for s, d in slots.items()]
        if (z < 14 or not live) and dirs and next_slot < 250:
            side, cap = rng.choice(dirs)
            which = rng.below(10)
            # usually open both ends; sometimes only one end (the other later or never)
            if which < 7:
                order = [(side, 1), (1 - side, 0)]
                if rng.chance(1, 2):
                    order.reverse()
            elif which < 8:
                order = [(side, 1)]
            elif which < 9:
                order = [(1 - side, 0)]
            else:
                order = [(side, 1), (1 - side, 0), (side, 1)]
            for (sd, kind) in order:
                ops.append(["open", sd, kind, cap, next_slot])
                slots[next_slot] = {"side": sd, "kind": kind, "cap": cap, "r": True, "w": True}
                next_slot += 1
        elif z < 16:
            # invalid: unknown capability / reused slot / unknown slot
            k = rng.below(3)
            if k == 0:
                ops.append(["open", rng.below(2), rng.below(2), 12345, next_slot])
                next_slot += 1
            elif k == 1 and live:
                ops.append(["open", rng.below(2), rng.below(2), 0, rng.choice(live)])
            else:
                ops.append([rng.choice(["flush", "dropw", "dropr"]), 999])
        elif z < 45:
            ws = [s for s in live if slots[s]["w"]]
            if not ws:
                continue
            s = rng.choice(ws)
            n = rng.choice([0, 1, 2, 3, 10, 77, 79, 80, 150, 151, 300, 1000, rng.below(3000)])
            if big and rng.chance(1, 4):
                n = rng.choice([65535, 65536, 70000, rng.below(70000)])
            if total_written + n > budget:
                n = rng.below(50)
            total_written += n
            ops.append(["write", s, n])
            if rng.chance(1, 2):
                ops.append(["flush", s])
        elif z < 52:
            ws = [s for s in live if slots[s]["w"]]
            if ws:
                ops.append(["flush", rng.choice(ws)])
        elif z < 80:
            rs = [s for s in live if slots[s]["r"]]
            if not rs:
                continue
            s = rng.choice(rs)
            n = rng.choice([0, 1, 2, 5, 10, 50, 79, 100, 101, 500, 1000, 5000, rng.below(4000)])
            if big and rng.chance(1, 4):
                n = rng.choice([65536, 70000, 100000])
            ops.append(["read", s, n])
        elif z < 90:
            ws = [s for s in live if slots[s]["w"]]
            if ws:
                s = rng.choice(ws)
                slots[s]["w"] = False
                ops.append(["dropw", s])
                if rng.chance(1, 3) and slots[s]["r"]:
                    slots[s]["r"] = False
                    ops.append(["dropr", s])
        else:
            rs = [s for s in live if slots[s]["r"]]
            if rs:
                s = rng.choice(rs)
                slots[s]["r"] = False
                ops.append(["dropr", s])
        for s in list(slots):
            if not slots[s]["r"] and not slots[s]["w"]:
                del slots[s]
    # drain: read everything that is left so that completeness is observable
    for s, d in list(slots.items()):
        if d["r"] and rng.chance(3, 4):
            ops.append(["read", s, 1 << 20 if big else 50000])
    return {"mode": "pair", "cfg": cfg, "caps": caps, "ops": ops, "kind": "pair"}


def raw_hdr(fk, sk, idv):
    return fk | sk | idv


def gen_raw_case(rng, nops):
    """one real Mux (side B); the peer is the harness writing whatever it likes."""
    cfgB = gen_cfg(rng, False)
    if rng.chance(1, 2):
        cfgB[1] = rng.choice([100, 500, 1000, 3000])
        cfgB[2] = rng.choice([1, 2, 5, 10])
    caps = gen_caps(rng)
    kind = "raw"
    if rng.chance(1, 25):
        # duplicate capability in the announced list: handshake is rejected
        l = caps[0][rng.choice(["accept", "connect"])]
        if l:
            l.append([l[0][0], 3])
            kind = "raw-duphs"
    nacc = sum(min(m, dict(map(tuple, caps[0]["connect"])).get(c, 0)) for c, m in caps[1]["accept"])
    ncon = sum(min(m, dict(map(tuple, caps[0]["accept"])).get(c, 0)) for c, m in caps[1]["connect"])
    ops = []
    next_slot = 1
    slots = []
    bad_at = rng.below(nops * 3) if rng.chance(1, 3) else -1
    for k in range(nops):
        z = rng.below(100)
        # peer frames from its CONNECT ends go to B's accept table and vice versa
        sk = rng.choice([0, SK_CONNECT])
        n = nacc if sk == SK_CONNECT else ncon
        if k == bad_at:
            w = rng.below(4)
            if w == 0:
                ops.append(["rawframe", raw_hdr(rng.choice([FK_OPEN, FK_DATA, FK_CLOSE]), sk, n + rng.below(3)), -1, 0]); kind = "raw-badid"
            elif w == 1:
                ops.append(["rawframe", raw_hdr(FK_BAD, sk, rng.below(max(n, 1) + 1)), -1, 0]); kind = "raw-badkind"
            elif w == 2:
                ops.append(["rawclose"]); kind = "raw-close"
            else:
                ops.append(["rawbytes", [rng.below(256) for _ in range(rng.range(1, 9))]]); kind = "raw-junk"
            continue
        idv = rng.below(n) if n > 0 else 0
        if z < 45:
            ln = rng.choice([0, 1, 2, 10, 79, 100, 101, 500, 1000, 3000, rng.below(5000)])
            if rng.chance(1, 60):
                ln = 65535
            present = ln
            if rng.chance(1, 12):
                present = rng.below(ln + 1)      # truncated payload (the rest may follow later, or never)
            ops.append(["rawframe", raw_hdr(FK_DATA, sk, idv), ln, present])
            if present < ln and rng.chance(1, 2):
                ops.append(["rawbytes", [rng.below(256) for _ in range(min(ln - present, 300))]])
        elif z < 60:
            ops.append(["rawframe", raw_hdr(FK_OPEN, sk, idv), -1, 0])
        elif z < 70:
            ops.append(["rawframe", raw_hdr(FK_CLOSE, sk, idv), -1, 0])
        elif z < 80 and (caps[1]["accept"] or caps[1]["connect"]):
            kd = rng.below(2)
            l = caps[1]["accept" if kd == 0 else "connect"]
            if l:
                ops.append(["open", 1, kd, rng.choice(l)[0], next_slot])
                slots.append(next_slot)
                next_slot += 1
        elif z < 90 and slots:
            ops.append(["read", rng.choice(slots), rng.choice([0, 1, 10, 100, 1000, 5000])])
        elif z < 94 and slots:
            ops.append([rng.choice(["dropr", "dropw"]), rng.choice(slots)])
        elif z < 97 and slots:
            ops.append(["write", rng.choice(slots), rng.choice([0, 1, 100, 1000])])
        else:
            ops.append(["rawbytes", [rng.below(256)]])   # a single byte: partial header
    return {"mode": "raw", "cfg": [[1, 0, 0, 1], cfgB], "caps": caps, "ops": ops, "kind": kind}


def gen_flood_case(rng):
    """non-cooperative peer: opens streams, then floods them; the application of B never reads."""
    rfs = rng.choice([1, 10, 100, 1000, 65535])
    rbs = rng.choice([0, 1, 50, 100, 1000, 10000, 100000])
    rfc = rng.choice([0, 1, 2, 5, 10, 50])
    cfgB = [rfs, rbs, rfc, 100]
    capl = [[0, rng.range(1, 3)], [1, rng.range(0, 2)]]
    caps = [{"accept": capl, "connect": capl}, {"accept": capl, "connect": capl}]
    nacc = sum(m for _, m in capl)
    ops = []
    accept_opened = rng.chance(1, 2)
    if accept_opened:
        ops.append(["open", 1, 0, 0, 1])
    # OPEN every stream first: from then on nothing sent to it is discarded
    opened = []
    for i in range(nacc):
        if rng.chance(4, 5):
            ops.append(["rawframe", raw_hdr(FK_OPEN, SK_CONNECT, i), -1, 0])
            opened.append(i)
    targets = opened if (opened and rng.chance(4, 5)) else list(range(nacc))
    for _ in range(rng.range(5, 40)):
        ln = rng.choice([1, 10, 100, 999, 1000, 1001, 5000, rng.range(1, 3000)])
        if rng.chance(1, 80):
            ln = 65535
        ops.append(["rawframe", raw_hdr(FK_DATA, SK_CONNECT, rng.choice(targets)), ln, ln])
        if rng.chance(1, 6):
            ops.append(["rawframe", raw_hdr(rng.choice([FK_OPEN, FK_CLOSE]), SK_CONNECT, rng.choice(targets)), -1, 0])
    return {"mode": "raw", "cfg": [[1, 0, 0, 1], cfgB], "caps": caps, "ops": ops, "kind": "raw-flood"}


def corpus_cases():
    capl = [[0, 1]]
    one = [{"accept": capl, "connect": capl}, {"accept": capl, "connect": capl}]
    return [
        # F4 regression: header with both frame kind bits set, stream id in range (was unreachable!())
        {"mode": "raw", "cfg": [[1, 0, 0, 1], [100, 1000, 10, 100]], "caps": one,
         "ops": [["rawframe", 0xC000 | SK_CONNECT, -1, 0]], "kind": "raw-badkind F4"},
        {"mode": "raw", "cfg": [[1, 0, 0, 1], [100, 1000, 10, 100]], "caps": one,
         "ops": [["rawframe", 0xC000, -1, 0]], "kind": "raw-badkind F4"},
        # the worked example of the module documentation, both directions, partial reads
        {"mode": "pair", "cfg": [[100, 1000, 10, 150], [80, 800, 7, 79]],
         "caps": [{"accept": [[0, 2]], "connect": [[0, 2], [3, 1]]}, {"accept": [[0, 3], [3, 1]], "connect": [[0, 1]]}],
         "ops": [["open", 0, 1, 0, 1], ["open", 1, 0, 0, 2], ["write", 1, 500], ["read", 2, 100], ["flush", 1],
                 ["read", 2, 500], ["dropw", 1], ["read", 2, 10], ["write", 2, 3000], ["dropw", 2], ["read", 1, 5000],
                 ["dropr", 1], ["dropr", 2], ["open", 0, 1, 0, 3], ["open", 1, 0, 0, 4]], "kind": "pair"},
        # data of a stream dropped without reading must not reach the next incarnation
        {"mode": "pair", "cfg": [[100, 1000, 10, 50], [100, 1000, 10, 50]], "caps": one,
         "ops": [["open", 0, 1, 0, 1], ["open", 1, 0, 0, 2], ["write", 1, 300], ["dropw", 1], ["dropr", 1],
                 ["dropw", 2], ["dropr", 2], ["open", 0, 1, 0, 3], ["open", 1, 0, 0, 4], ["write", 3, 20], ["dropw", 3],
                 ["read", 4, 1000]], "kind": "pair"},
    ]
