"""C14 — multiplexed streams isolated, ordered, flow-controlled.

theorems (Properties/C14.v) + correspondence (harness bin `mux` vs Model.Mux.run_case) + predicates
evaluated on the behaviour of the real multiplexer alone."""
import json
import os
import re
import resource
import common
from common import Rng, coq_z, coq_list, coq_bool

# the model walks byte lists of up to 2^16 elements recursively: coqc (a child process) needs a deep stack
try:
    resource.setrlimit(resource.RLIMIT_STACK, (resource.RLIM_INFINITY, resource.RLIM_INFINITY))
except (ValueError, OSError):
    pass

PROP_FILES = ["theories/Properties/C14.v"]

FK_OPEN, FK_DATA, FK_CLOSE, FK_BAD = 0, 0x4000, 0x8000, 0xC000
SK_CONNECT = 0x2000
MAXP = (1 << 61) - 1


# ---------------------------------------------------------------------------
# case -> Coq term

def coq_pairs(l):
    return coq_list(["(%s, %s)" % (coq_z(a), coq_z(b)) for a, b in l])


def coq_cfg(c):
    return "(mkCfg %s %s %s %s)" % tuple(coq_z(x) for x in c)


def coq_op(op):
    n = op[0]
    if n == "open":
        return "OOpen %s %s %s %s" % tuple(coq_z(x) for x in op[1:5])
    if n == "write":
        return "OWrite %s %s" % (coq_z(op[1]), coq_z(op[2]))
    if n == "flush":
        return "OFlush %s" % coq_z(op[1])
    if n == "read":
        return "ORead %s %s" % (coq_z(op[1]), coq_z(op[2]))
    if n == "dropw":
        return "ODropW %s" % coq_z(op[1])
    if n == "dropr":
        return "ODropR %s" % coq_z(op[1])
    if n == "rawframe":
        return "ORawFrame %s %s %s" % (coq_z(op[1]), coq_z(op[2]), coq_z(op[3]))
    if n == "rawbytes":
        return "ORawBytes %s" % coq_list([coq_z(b) for b in op[1]])
    if n == "rawrepeat":
        return "ORawBytes %s" % coq_list([coq_z(b) for b in list(op[1]) * op[2]])
    if n == "rawclose":
        return "ORawClose"
    raise ValueError(op)


def coq_case(c):
    m = c["mode"]
    if m == "header":
        return "CHeader %s %s" % (coq_list([coq_z(r) for r in c["raws"]]),
                                  coq_list(["(%s, %s, %s)" % tuple(coq_z(x) for x in t) for t in c["news"]]))
    if m == "verify":
        return "CVerify %s %s %s" % (coq_cfg(c["cfg"]), coq_pairs(c["accept"]), coq_pairs(c["connect"]))
    sides = []
    for i in range(2):
        sides.append("(mkSide %s %s %s)" % (coq_cfg(c["cfg"][i]), coq_pairs(c["caps"][i]["accept"]),
                                            coq_pairs(c["caps"][i]["connect"])))
    return "CScript %s %s %s %s" % (coq_bool(m == "raw"), sides[0], sides[1],
                                    coq_list([coq_op(o) for o in c["ops"]]))


def impl_obs(c, o):
    if "panic" in o:
        return [-1]
    if c["mode"] in ("pair", "raw"):
        # frames of one round grouped by stream (kind, id), per-stream order kept (python's sort is stable)
        # in the round in which a run ends with an error, hand-overs and written frames race with the cancellation of
        # the stream tasks (tokio's randomised select): only reads and skips of that round are compared
        out = []
        for ob in o["obs"]:
            if ob[5]:
                out.append([[e for e in ob[0] if not (len(e) == 2 and e[1] == 0)], [], []] + ob[3:])
            else:
                out.append([ob[0], sorted(ob[1], key=lambda f: f[0] % 16384), sorted(ob[2], key=lambda f: f[0] % 16384)] + ob[3:])
        return out
    return o["obs"]


# ---------------------------------------------------------------------------
# generators

def gen_header_cases(rng, n):
    cases = []
    per = 4096
    # every one of the 2^16 header values goes through header_parts on every run
    for k in range(0, 1 << 16, per):
        news = []
        for _ in range(24):
            fk = rng.choice([FK_OPEN, FK_DATA, FK_CLOSE, FK_BAD, rng.below(1 << 16)])
            sk = rng.choice([0, SK_CONNECT, rng.below(1 << 16)])
            idv = rng.choice([0, 1, 8190, 8191, 8192, 8193, 65535, rng.below(8192), rng.below(1 << 16)])
            news.append([fk, sk, idv])
        cases.append({"mode": "header", "raws": list(range(k, k + per)), "news": news, "kind": "header"})
    return cases


def gen_limits(rng, ncaps):
    capids = rng.shuffle([0, 1, 2, 3, 7, 1 << 40, (1 << 64) - 1])[:ncaps]
    return capids


def gen_verify_cases(rng, n):
    cases = []
    for _ in range(n):
        cfg = [rng.choice([1, 100, 65535, 65536, 1 << 20]),
               rng.choice([0, 1000, MAXP - 1, MAXP, MAXP + 1, (1 << 64) - 1]),
               rng.choice([0, 10, MAXP, MAXP + 1, (1 << 63)]),
               rng.choice([0, 1, 150, 65535, 65536, 70000, (1 << 64) - 1])]
        def lim():
            k = rng.below(5)
            out = []
            for c in rng.shuffle([0, 1, 2, 5, 9])[:k]:
                out.append([c, rng.choice([0, 1, 5, 4096, 4097, 8191, 8192, 8193, (1 << 32) - 1, (1 << 31)])])
            return out
        cases.append({"mode": "verify", "cfg": cfg, "accept": lim(), "connect": lim(), "kind": "verify"})
    return cases


def gen_cfg(rng, big):
    rfs = rng.choice([1, 2, 7, 16, 80, 100, 1000, 65535, 70000]) if not big else rng.choice([64, 100, 1000, 4096, 65535])
    rbs = rng.choice([0, 1, rfs, rfs * 2, 100, 800, 1000, 5000, 100000, 1 << 20])
    rfc = rng.choice([0, 1, 2, 3, 7, 10, 100, 1000])
    if rng.chance(2, 3):
        # comfortable limits: the interesting behaviour is then in the streams, not in the blocking
        rbs = max(rbs, rfs * 4, 1000)
        rfc = max(rfc, 8)
    wfs = rng.choice([1, 2, 5, 79, 150, 1000, 65535]) if not big else rng.choice([79, 150, 1000, 4000, 65535])
    return [rfs, rbs, rfc, wfs]


def gen_caps(rng):
    ncaps = rng.range(1, 3)
    pool = rng.shuffle([0, 1, 2, 3, 9, 1 << 33])
    def side():
        d = {}
        for name in ("accept", "connect"):
            l = []
            for c in pool[:ncaps]:
                if rng.chance(9, 10):
                    l.append([c, rng.choice([0, 1, 1, 2, 2, 5])])
            if rng.chance(1, 8):
                l.append([pool[ncaps], rng.choice([1, 2])])
            d[name] = rng.shuffle(l)
        return d
    return [side(), side()]


def stream_limit(caps, opener, kind, cap):
    """min(local limit, peer limit) for queue `kind` (0 accept, 1 connect) of side `opener`."""
    mine = dict(map(tuple, caps[opener]["accept" if kind == 0 else "connect"]))
    peer = dict(map(tuple, caps[1 - opener]["connect" if kind == 0 else "accept"]))
    if cap not in mine:
        return None
    return min(mine[cap], peer.get(cap, 0))


def gen_pair_case(rng, nops, big):
    cfg = [gen_cfg(rng, big), gen_cfg(rng, big)]
    caps = gen_caps(rng)
    ops = []
    slots = {}  # slot -> dict(side, kind, cap, r, w, est)
    next_slot = 1
    total_written = 0
    budget = 40000 if not big else 400000
    # directions: (connecting side, cap); approximate bookkeeping of which slots are established
    dirs = []
    for side in (0, 1):
        for cap, _ in caps[side]["connect"]:
            dirs.append((side, cap))
    free = {d: (stream_limit(caps, d[0], 1, d[1]) or 0) if dict(map(tuple, caps[1 - d[0]]["accept"])).get(d[1]) is not None else 0 for d in dirs}
    if not any(free.values()) and rng.chance(9, 10):
        return gen_pair_case(rng, nops, big)   # (a few cases keep a partition without any stream)
    live_dirs = [d for d in dirs if free[d] > 0] or dirs
    pend = {d: ([], []) for d in dirs}     # (waiting accept slots, waiting connect slots)
    pair_of = {}

    def match(d):
        acc, con = pend[d]
        while acc and con and free[d] > 0:
            x, y = acc.pop(0), con.pop(0)
            free[d] -= 1
            slots[x]["est"] = slots[y]["est"] = True
            pair_of[x], pair_of[y] = y, x

    def poke(r):
        # does the pending read of r complete now? (estimate: flushed bytes of the counterpart, or it closed)
        if r is None or r not in slots or slots[r]["rpend"] is None:
            return
        w = pair_of.get(r)
        if w is None or w not in slots:
            return
        avail = slots[w]["fl"] - slots[r]["cons"]
        if avail >= slots[r]["rpend"] or not slots[w]["w"]:
            slots[r]["cons"] += max(0, min(avail, slots[r]["rpend"]))
            slots[r]["rpend"] = None

    def closed(s):
        d = slots[s]["dir"]
        o = pair_of.get(s)
        if o is not None and all(not slots[z][h] for z in (s, o) if z in slots for h in ("r", "w")):
            free[d] += 1
            match(d)

    while len(ops) < nops:
        z = rng.below(100)
        est = [s for s, d in slots.items() if d["est"]]
        anyslot = list(slots)
        pick = est if (est and rng.chance(19, 20)) else anyslot
        if (z < 12 or not est) and dirs and next_slot < 250:
            side, cap = d = rng.choice(dirs if (est and rng.chance(1, 3)) else live_dirs)
            which = rng.below(10) if est else rng.below(7)
            # usually open both ends; sometimes only one end (the other later or never), sometimes one too many
            if which < 7:
                order = [(side, 1), (1 - side, 0)]
                if rng.chance(1, 2):
                    order.reverse()
            elif which < 8:
                order = [(side, 1)]
            elif which < 9:
                order = [(1 - side, 0)]
            else:
                order = [(side, 1), (1 - side, 0), (side, 1)]
            for (sd, kind) in order:
                ops.append(["open", sd, kind, cap, next_slot])
                known = dict(map(tuple, caps[sd]["accept" if kind == 0 else "connect"])).get(cap) is not None
                slots[next_slot] = {"side": sd, "kind": kind, "cap": cap, "r": True, "w": True, "est": False, "dir": d,
                                    "wr": 0, "fl": 0, "cons": 0, "rpend": None}
                if known:
                    pend[d][kind].append(next_slot)
                next_slot += 1
            match(d)
        elif z < 14:
            # invalid: unknown capability / reused slot / unknown slot
            k = rng.below(3)
            if k == 0:
                ops.append(["open", rng.below(2), rng.below(2), 12345, next_slot])
                next_slot += 1
            elif k == 1 and anyslot:
                ops.append(["open", rng.below(2), rng.below(2), 0, rng.choice(anyslot)])
            else:
                ops.append([rng.choice(["flush", "dropw", "dropr"]), 999])
        elif z < 42:
            ws = [s for s in pick if slots[s]["w"]]
            if not ws:
                continue
            s = rng.choice(ws)
            n = rng.choice([0, 1, 2, 3, 10, 77, 79, 80, 150, 151, 300, 1000, rng.below(3000)])
            if big and rng.chance(1, 4):
                n = rng.choice([65535, 65536, 70000, rng.below(70000)])
            if total_written + n > budget:
                n = rng.below(50)
            total_written += n
            ops.append(["write", s, n])
            wfs_ = cfg[slots[s]["side"]][3]
            slots[s]["wr"] += n
            slots[s]["fl"] = max(slots[s]["fl"], (slots[s]["wr"] - 1) // wfs_ * wfs_ if slots[s]["wr"] else 0)
            if rng.chance(1, 2):
                ops.append(["flush", s])
                slots[s]["fl"] = slots[s]["wr"]
            poke(pair_of.get(s))
        elif z < 48:
            ws = [s for s in pick if slots[s]["w"]]
            if ws:
                s = rng.choice(ws)
                ops.append(["flush", s])
                slots[s]["fl"] = slots[s]["wr"]
                poke(pair_of.get(s))
        elif z < 80:
            rs = [s for s in pick if slots[s]["r"] and (slots[s]["rpend"] is None or rng.chance(1, 20))]
            if not rs:
                continue
            s = rng.choice(rs)
            n = rng.choice([0, 1, 2, 5, 10, 50, 79, 100, 101, 500, 1000, 5000, rng.below(4000)])
            w = pair_of.get(s)
            if w is not None and w in slots and rng.chance(1, 2):
                # often ask for what is (nearly) there
                n = max(0, slots[w]["fl"] - slots[s]["cons"] + rng.choice([-1, 0, 0, 0, 1]))
            if big and rng.chance(1, 4):
                n = rng.choice([65536, 70000, 100000])
            ops.append(["read", s, n])
            if slots[s]["rpend"] is None:
                slots[s]["rpend"] = n
                poke(s)
        elif z < 91:
            ws = [s for s in pick if slots[s]["w"]]
            if ws:
                s = rng.choice(ws)
                slots[s]["w"] = False
                slots[s]["fl"] = slots[s]["wr"]
                ops.append(["dropw", s])
                poke(pair_of.get(s))
                if rng.chance(1, 3) and slots[s]["r"] and slots[s]["rpend"] is None:
                    slots[s]["r"] = False
                    ops.append(["dropr", s])
                closed(s)
        else:
            rs = [s for s in pick if slots[s]["r"] and (slots[s]["rpend"] is None or rng.chance(1, 20))]
            if rs:
                s = rng.choice(rs)
                ops.append(["dropr", s])
                if slots[s]["rpend"] is None:
                    slots[s]["r"] = False
                    closed(s)
    # drain: read everything that is left so that completeness is observable
    for s, d in list(slots.items()):
        if d["r"] and d["est"] and d["rpend"] is None and rng.chance(3, 4):
            ops.append(["read", s, 1 << 20 if big else 50000])
    return {"mode": "pair", "cfg": cfg, "caps": caps, "ops": ops, "kind": "pair"}


def gen_eosreuse_case(rng):
    """Directed family: a read half that has seen end-of-stream is KEPT while the reusable stream starts its next
    transient stream (same id: one stream per capability), and is then read again.  End-of-stream is sticky: the old
    half returns 0 bytes at once, the frames queued behind its CLOSE belong to the next handle.
    Variants: reader on the accept / connect side, 2-4 incarnations, data of the next stream already queued or
    arriving later, empty incarnations, traffic in the reverse direction."""
    cfg = []
    for _ in (0, 1):
        rfs, rbs, rfc, wfs = gen_cfg(rng, False)
        cfg.append([rfs, max(rbs, rfs * 4, 1000), max(rfc, 8), wfs])
    rs, kr = rng.below(2), rng.below(2)
    c = rng.choice([0, 1, 3, 9])
    lim = 1 if rng.chance(5, 6) else 2
    caps = [{"accept": [], "connect": []}, {"accept": [], "connect": []}]
    caps[rs]["accept" if kr == 0 else "connect"].append([c, lim])
    caps[1 - rs]["connect" if kr == 0 else "accept"].append([c, rng.choice([lim, lim + 1])])
    if rng.chance(1, 3):
        caps[rs]["connect" if kr == 0 else "accept"].append([c, 1])
        caps[1 - rs]["accept" if kr == 0 else "connect"].append([c, 1])
    ops, nxt, old = [], 1, None
    for j in range(rng.range(2, 4)):
        r, w = nxt, nxt + 1
        nxt += 2
        o = [["open", rs, kr, c, r], ["open", 1 - rs, 1 - kr, c, w]]
        ops += o if rng.chance(1, 2) else o[::-1]
        n = rng.choice([0, 0, 1, 5, 80, 300, 1000])
        if old is not None and rng.chance(1, 2):
            ops.append(["read", old, rng.choice([1, 10, 1000])])          # nothing of the next stream has arrived yet
        if n:
            ops.append(["write", w, n])                                    # (not applicable while w is not established)
        ops.append(["flush", w])
        if old is not None:
            if rng.chance(3, 4):
                ops.append(["read", old, rng.choice([1, max(n, 1), 5000])])  # OPEN (and DATA) of the next stream are queued behind the CLOSE
            if rng.chance(1, 4):
                ops.append(["read", old, 0])
            ops.append(["dropr", old])
        n2 = rng.choice([0, 1, 7, 150, 700])
        if n2:
            ops.append(["write", w, n2])
            if rng.chance(1, 2):
                ops.append(["flush", w])
        if rng.chance(1, 3):
            k = rng.choice([1, 20, 400])
            ops += [["write", r, k], ["flush", r], ["read", w, k]]
        if (n + n2) and rng.chance(1, 2):
            ops.append(["read", r, rng.choice([1, n + n2])])
        ops.append(["dropw", w])
        ops.append(["read", r, n + n2 + rng.choice([1, 100, 5000])])       # short read: end of stream
        if rng.chance(1, 2):
            ops.append(["read", r, 7])
        rel = [["dropw", r], ["dropr", w]]
        ops += rel if rng.chance(1, 2) else rel[::-1]
        old = r
    ops.append(["read", old, 3])
    if rng.chance(1, 2):
        ops.append(["dropr", old])
    return {"mode": "pair", "cfg": cfg, "caps": caps, "ops": ops, "kind": "pair-eosreuse"}


def gen_cachetail_case(rng):
    """Directed family: a reader stops in the MIDDLE of a DATA frame (k < frame length bytes, e.g. a 4-byte prefix),
    abandons the transient stream, and the same reusable stream (one per capability) then carries the next transient
    stream with distinguishable bytes: the new reader must receive exactly the new writer's bytes, never the unread tail.
    Variants: reader on the accept / connect side, read half dropped before / after the writer closed, tail shorter or
    longer than the first read of the next stream, 2-4 incarnations, the last one read to end-of-stream."""
    cfg = []
    for _ in (0, 1):
        rfs, rbs, rfc, wfs = gen_cfg(rng, False)
        rfs = rfs if rfs >= 16 else rng.choice([16, 80, 100])
        wfs = wfs if wfs >= 16 else rng.choice([16, 79, 150])
        cfg.append([rfs, max(rbs, rfs * 4, 1000), max(rfc, 8), wfs])
    rs, kr = rng.below(2), rng.below(2)
    c = rng.choice([0, 1, 3, 9])
    caps = [{"accept": [], "connect": []}, {"accept": [], "connect": []}]
    caps[rs]["accept" if kr == 0 else "connect"].append([c, 1])
    caps[1 - rs]["connect" if kr == 0 else "accept"].append([c, rng.choice([1, 2])])
    ops, nxt, tail = [], 1, None
    wfs_w, rfs_r = cfg[1 - rs][3], cfg[rs][0]

    def boundary(x):          # x bytes of the stream end exactly at the end of a chunk the dispatcher hands over
        return (x % wfs_w) % rfs_r == 0

    m = rng.range(2, 4)
    for j in range(m):
        r, w = nxt, nxt + 1
        nxt += 2
        o = [["open", rs, kr, c, r], ["open", 1 - rs, 1 - kr, c, w]]
        ops += o if rng.chance(1, 2) else o[::-1]
        n = rng.choice([8, 20, 79, 150, 300, 1000])
        ops += [["write", w, n], ["flush", w]]
        cons = 0
        if tail is not None:
            # first read of the new stream: shorter than, equal to, longer than the stale tail
            first = min(n, max(1, rng.choice([1, 4, tail - 1, tail, tail + 1, n])))
            ops.append(["read", r, first])
            cons = first
        if j == m - 1:
            ops += [["dropw", w], ["read", r, 5000]]
            break
        c0 = min(n, wfs_w, rfs_r)
        cands = [k for k in (1, 4, 4, c0 // 2, c0 - 1, rng.range(1, max(1, n - 1))) if k >= 1 and cons + k < n and not boundary(cons + k)]
        if cands:
            k = rng.choice(cands)
            ops.append(["read", r, k])                           # stops inside a DATA frame: the rest stays in the read cache
            cons += k
        if cons < n and not boundary(cons):
            tail = 1
            while cons + tail < n and not boundary(cons + tail):
                tail += 1
        else:
            tail = 1
        if rng.chance(1, 2):
            ops += [["dropw", w], ["dropr", r]]                  # abandoned after the writer closed
        else:
            ops += [["dropr", r], ["dropw", w]]                  # ... before
        rel = [["dropw", r], ["dropr", w]]
        ops += rel if rng.chance(1, 2) else rel[::-1]
    return {"mode": "pair", "cfg": cfg, "caps": caps, "ops": ops, "kind": "pair-cachetail"}


def raw_hdr(fk, sk, idv):
    return fk | sk | idv


def gen_raw_case(rng, nops):
    """one real Mux (side B); the peer is the harness writing whatever it likes."""
    cfgB = gen_cfg(rng, False)
    if rng.chance(1, 2):
        cfgB[1] = rng.choice([100, 500, 1000, 3000])
        cfgB[2] = rng.choice([1, 2, 5, 10])
    caps = gen_caps(rng)
    kind = "raw"
    if rng.chance(1, 25):
        # duplicate capability in the announced list: handshake is rejected
        l = caps[0][rng.choice(["accept", "connect"])]
        if l:
            l.append([l[0][0], 3])
            kind = "raw-duphs"
    nacc = sum(min(m, dict(map(tuple, caps[0]["connect"])).get(c, 0)) for c, m in caps[1]["accept"])
    ncon = sum(min(m, dict(map(tuple, caps[0]["accept"])).get(c, 0)) for c, m in caps[1]["connect"])
    ops = []
    next_slot = 1
    slots = []
    bad_at = rng.below(nops * 3) if rng.chance(1, 3) else -1
    bad_index = None
    for k in range(nops):
        z = rng.below(100)
        # peer frames from its CONNECT ends go to B's accept table and vice versa
        sk = rng.choice([0, SK_CONNECT])
        n = nacc if sk == SK_CONNECT else ncon
        if k == bad_at:
            w = rng.below(4)
            bad_index = len(ops)
            if w == 0:
                ops.append(["rawframe", raw_hdr(rng.choice([FK_OPEN, FK_DATA, FK_CLOSE]), sk, n + rng.below(3)), -1, 0]); kind = "raw-badid"
            elif w == 1:
                ops.append(["rawframe", raw_hdr(FK_BAD, sk, rng.below(max(n, 1) + 1)), -1, 0]); kind = "raw-badkind"
            elif w == 2:
                ops.append(["rawclose"]); kind = "raw-close"
            else:
                ops.append(["rawbytes", [rng.below(256) for _ in range(rng.range(1, 9))]]); kind = "raw-junk"
            continue
        idv = rng.below(n) if n > 0 else 0
        if z < 45:
            ln = rng.choice([0, 1, 2, 10, 79, 100, 101, 500, 1000, 3000, rng.below(5000)])
            if rng.chance(1, 60):
                ln = 65535
            if cfgB[0] <= 2:
                ln = min(ln, 600)   # read_frame_size 1 or 2: every payload byte (pair) is a frame of its own in the queues
            present = ln
            if rng.chance(1, 12):
                present = rng.below(ln + 1)      # truncated payload (the rest may follow later, or never)
            ops.append(["rawframe", raw_hdr(FK_DATA, sk, idv), ln, present])
            if present < ln and rng.chance(1, 2):
                ops.append(["rawbytes", [rng.below(256) for _ in range(min(ln - present, 300))]])
        elif z < 60:
            ops.append(["rawframe", raw_hdr(FK_OPEN, sk, idv), -1, 0])
        elif z < 70:
            ops.append(["rawframe", raw_hdr(FK_CLOSE, sk, idv), -1, 0])
        elif z < 80 and (caps[1]["accept"] or caps[1]["connect"]):
            kd = rng.below(2)
            l = caps[1]["accept" if kd == 0 else "connect"]
            if l:
                ops.append(["open", 1, kd, rng.choice(l)[0], next_slot])
                slots.append(next_slot)
                next_slot += 1
        elif z < 90 and slots:
            ops.append(["read", rng.choice(slots), rng.choice([0, 1, 10, 100, 1000, 5000])])
        elif z < 94 and slots:
            ops.append([rng.choice(["dropr", "dropw"]), rng.choice(slots)])
        elif z < 97 and slots:
            ops.append(["write", rng.choice(slots), rng.choice([0, 1, 100, 1000])])
        else:
            ops.append(["rawbytes", [rng.below(256)]])   # a single byte: partial header
    c = {"mode": "raw", "cfg": [[1, 0, 0, 1], cfgB], "caps": caps, "ops": ops, "kind": kind}
    if kind.startswith("raw-bad"):
        c["bad_at"] = bad_index
    return c


def gen_flood_case(rng):
    """non-cooperative peer: opens streams, then floods them; the application of B never reads."""
    rfs = rng.choice([1, 10, 100, 1000, 65535])
    rbs = rng.choice([0, 1, 50, 100, 1000, 10000, 100000])
    rfc = rng.choice([0, 1, 2, 5, 10, 50])
    cfgB = [rfs, rbs, rfc, 100]
    capl = [[0, rng.range(1, 3)], [1, rng.range(0, 2)]]
    caps = [{"accept": capl, "connect": capl}, {"accept": capl, "connect": capl}]
    nacc = sum(m for _, m in capl)
    ops = []
    accept_opened = rng.chance(1, 2)
    if accept_opened:
        ops.append(["open", 1, 0, 0, 1])
    # OPEN every stream first: from then on nothing sent to it is discarded
    opened = []
    for i in range(nacc):
        if rng.chance(4, 5):
            ops.append(["rawframe", raw_hdr(FK_OPEN, SK_CONNECT, i), -1, 0])
            opened.append(i)
    targets = opened if (opened and rng.chance(4, 5)) else list(range(nacc))
    for _ in range(rng.range(5, 40)):
        ln = rng.choice([1, 10, 100, 999, 1000, 1001, 5000, rng.range(1, 3000)])
        if rng.chance(1, 80):
            ln = 65535
        ops.append(["rawframe", raw_hdr(FK_DATA, SK_CONNECT, rng.choice(targets)), ln, ln])
        if rng.chance(1, 6):
            ops.append(["rawframe", raw_hdr(rng.choice([FK_OPEN, FK_CLOSE]), SK_CONNECT, rng.choice(targets)), -1, 0])
    return {"mode": "raw", "cfg": [[1, 0, 0, 1], cfgB], "caps": caps, "ops": ops, "kind": "raw-flood"}


def frame_bytes(hdr, payload_len=None):
    b = [hdr & 255, hdr >> 8]
    if payload_len is not None:
        b += [payload_len & 255, payload_len >> 8] + [(p * 7 + 3) % 256 for p in range(payload_len)]
    return b


def gen_ctlflood_case(rng, nframes):
    """control-frame flood: a peer that finished the handshake pushes N >> read_frame_count OPEN / CLOSE frames
    (variants: mixed with DATA of size 0 / 1) at a stream that nobody drains."""
    k = rng.range(3, 12)
    cfgB = [100, rng.choice([1000, 5000, 100000]), k, 100]
    capl = [[0, 2], [1, 1]]
    caps = [{"accept": capl, "connect": capl}, {"accept": capl, "connect": capl}]
    target = rng.choice(["unaccepted", "unconnected", "held-by-reader"])
    ops = []
    if target == "unconnected":
        sk, idv = 0, rng.below(3)                 # frames of the peer's ACCEPT ends go to B's connect streams, which B never opens
    else:
        sk, idv = SK_CONNECT, rng.below(3)        # B's accept streams
    if target == "held-by-reader":
        idv = 0
        ops.append(["open", 1, 0, 0, 1])          # B's application accepts on capability 0 and then never reads
    ops.append(["rawframe", raw_hdr(FK_OPEN, sk, idv), -1, 0])     # recv_open takes this one; everything after it is queued
    pattern = rng.choice(["open", "open-close", "close", "close-open-data0", "open-data1"])
    o_, c_ = frame_bytes(raw_hdr(FK_OPEN, sk, idv)), frame_bytes(raw_hdr(FK_CLOSE, sk, idv))
    d0, d1 = frame_bytes(raw_hdr(FK_DATA, sk, idv), 0), frame_bytes(raw_hdr(FK_DATA, sk, idv), 1)
    unit = {"open": [o_], "open-close": [o_, c_], "close": [c_], "close-open-data0": [c_, o_, d0], "open-data1": [o_, d1]}[pattern]
    reps = max(1, nframes // len(unit))
    ops.append(["rawrepeat", [b for f in unit for b in f], reps])
    return {"mode": "raw", "cfg": [[1, 0, 0, 1], cfgB], "caps": caps, "ops": ops, "kind": "raw-ctlflood",
            "flood": {"target": target, "pattern": pattern, "unit": [len(f) for f in unit], "reps": reps, "k": k,
                      "holds": [0 if len(f) == 4 else 1 for f in unit]}}


def pred_ctlflood(c, o):
    """frames the multiplexer has taken off the transport while nobody drains the stream: at most
    read_frame_count held + the one in hand (its header is read before the permit is awaited)."""
    if "panic" in o:
        return [{"failed": "the multiplexer panicked: " + o["panic"]}]
    fl = c["flood"]
    k = fl["k"]
    obs = o["obs"]
    if len(obs) < len(c["ops"]) + 1:
        return []            # the run ended early (reported elsewhere)
    pulled = obs[-1][4]
    # bytes before the flood: the initial OPEN (consumed by recv_open, holds nothing afterwards)
    pos = 2
    taken_holding, taken = 0, 0
    sent = fl["reps"] * len(fl["unit"])
    for r in range(fl["reps"]):
        for ln, holds in zip(fl["unit"], fl["holds"]):
            if pos < pulled:
                taken += 1
                taken_holding += holds
            pos += ln
        if pos >= pulled:
            break
    if taken_holding > k + 1:
        return [{"failed": f"peer pushed {sent} frames ({fl['pattern']}) at a stream nobody drains ({fl['target']}); the multiplexer took "
                           f"{taken_holding} queued frames off the transport, read_frame_count = {k} (allowed: {k} held + 1 in hand)",
                 "frames_pushed": sent, "frames_taken": taken_holding, "limit": k}]
    return []


def flood_runner(seed, tier):
    """control-frame flood family on the real Mux, predicate only (used by gen/c10.py as well)."""
    rng = Rng(seed ^ 0xC0F100D)
    n = 12 if tier == "quick" else 60
    cases = [gen_ctlflood_case(rng, 5000) for _ in range(n)]
    # ... and the DATA flood family (peer ignores flow control, the application never reads): the bytes the
    # multiplexer takes off the transport stay within read_buffer_size + the headers of read_frame_count + 1 frames
    dcases = [gen_flood_case(rng) for _ in range(40 if tier == "quick" else 400)]
    ok, out = common.cargo_build(["mux"], "dev")
    if not ok:
        raise common.MachineryError("cargo build of harness bin mux failed: " + out[-2000:])
    outs = common.run_impl("mux", cases, "dev", timeout=600)
    failures, taken = [], []
    for c, o in zip(cases, outs):
        if "crash" in o or "skipped" in o:
            raise common.MachineryError(f"harness mux crashed on a control-frame flood case: {o}")
        for b in pred_ctlflood(c, o):
            failures.append({"what": "mux: " + b["failed"],
                             "failing_input": {"runner": "c14-ctlflood", "case": {k: c[k] for k in c if k != "kind"}, "kind": c["kind"], **b}})
        if "obs" in o:
            taken.append(o["obs"][-1][4])
    douts = common.run_impl("mux", dcases, "dev", timeout=600)
    for c, o in zip(dcases, douts):
        if "crash" in o or "skipped" in o:
            raise common.MachineryError(f"harness mux crashed on a data flood case: {o}")
        for b in pred_flood(c, o):
            failures.append({"what": "mux: " + b["failed"],
                             "failing_input": {"runner": "c14-dataflood", "case": {k: c[k] for k in c if k != "kind"}, "kind": c["kind"], **b}})
    return {"failures": failures,
            "coverage": {"cases": len(cases), "data_flood_cases": len(dcases), "frames_pushed_per_case": 5000,
                         "patterns": sorted({c["flood"]["pattern"] for c in cases}), "targets": sorted({c["flood"]["target"] for c in cases}),
                         "read_frame_count_range": [3, 12], "max_bytes_pulled": max(taken) if taken else 0}}


def corpus_cases():
    capl = [[0, 1]]
    one = [{"accept": capl, "connect": capl}, {"accept": capl, "connect": capl}]
    return [
        # F4 regression: header with both frame kind bits set, stream id in range (was unreachable!())
        {"mode": "raw", "cfg": [[1, 0, 0, 1], [100, 1000, 10, 100]], "caps": one,
         "ops": [["rawframe", 0xC000 | SK_CONNECT, -1, 0]], "kind": "raw-badkind F4", "bad_at": 0},
        {"mode": "raw", "cfg": [[1, 0, 0, 1], [100, 1000, 10, 100]], "caps": one,
         "ops": [["rawframe", 0xC000, -1, 0]], "kind": "raw-badkind F4", "bad_at": 0},
        # the worked example of the module documentation, both directions, partial reads
        {"mode": "pair", "cfg": [[100, 1000, 10, 150], [80, 800, 7, 79]],
         "caps": [{"accept": [[0, 2]], "connect": [[0, 2], [3, 1]]}, {"accept": [[0, 3], [3, 1]], "connect": [[0, 1]]}],
         "ops": [["open", 0, 1, 0, 1], ["open", 1, 0, 0, 2], ["write", 1, 500], ["read", 2, 100], ["flush", 1],
                 ["read", 2, 500], ["dropw", 1], ["read", 2, 10], ["write", 2, 3000], ["dropw", 2], ["read", 1, 5000],
                 ["dropr", 1], ["dropr", 2], ["open", 0, 1, 0, 3], ["open", 1, 0, 0, 4]], "kind": "pair"},
        # data of a stream dropped without reading must not reach the next incarnation
        {"mode": "pair", "cfg": [[100, 1000, 10, 50], [100, 1000, 10, 50]], "caps": one,
         "ops": [["open", 0, 1, 0, 1], ["open", 1, 0, 0, 2], ["write", 1, 300], ["dropw", 1], ["dropr", 1],
                 ["dropw", 2], ["dropr", 2], ["open", 0, 1, 0, 3], ["open", 1, 0, 0, 4], ["write", 3, 20], ["dropw", 3],
                 ["read", 4, 1000]], "kind": "pair"},
    ]


# ---------------------------------------------------------------------------
# predicates: the property statement evaluated on the behaviour of the real multiplexer alone

WIRE_GRAMMAR = re.compile(r"^C?(OD*C)*(OD*)?$")


def pred_header(c, o):
    bad = []
    raws, news = o["obs"]
    for raw, (f, s, i) in zip(c["raws"], raws):
        if f + s + i != raw or f not in (0, 0x4000, 0x8000, 0xC000) or s not in (0, 0x2000) or not (0 <= i <= 8191) \
                or (f | s | i) != raw:
            bad.append({"raw": raw, "failed": f"header fields ({f},{s},{i}) do not partition the 16 bits of {raw}"})
    for t, r in zip(c["news"], news):
        fk, sk, idv = t
        if idv > 8191:
            if r[0] != 1:
                bad.append({"new": t, "failed": "StreamId::new accepted an id above the 13-bit mask"})
            continue
        if r[0] != 0:
            bad.append({"new": t, "failed": "Header::new panicked on a valid stream id"})
            continue
        h = r[1]
        if fk in (FK_OPEN, FK_DATA, FK_CLOSE) and sk in (0, SK_CONNECT):
            if (h & 0xC000, h & 0x2000, h & 0x1FFF) != (fk, sk, idv) or [h & 255, h >> 8] != r[2:4]:
                bad.append({"new": t, "failed": f"Header::new({t}) = {h} does not decode to the same fields"})
    return bad


def skipped_ops(c, o):
    """indices (into ops) of ops the harness reported as not applicable"""
    sk = set()
    for k, ob in enumerate(o["obs"][1:]):
        if any(len(e) == 2 and e[1] == -1 for e in ob[0]):
            sk.add(k)
    return sk


def pred_script(c, o):
    """isolation, order, completeness, end-of-stream, wire grammar, open-stream bound."""
    bad = []
    if "panic" in o:
        return [{"failed": "the multiplexer panicked: " + o["panic"]}]
    ops, obs = c["ops"], o["obs"]
    raw = c["mode"] == "raw"
    slot_info = {}
    open_round, dropw_at, dropr_at = {}, {}, {}
    sk = skipped_ops(c, o)
    for k, op in enumerate(ops[:len(obs) - 1]):
        if k in sk:
            continue
        if op[0] == "open":
            slot_info[op[4]] = {"side": op[1], "kind": op[2], "cap": op[3]}
        elif op[0] == "dropw":
            dropw_at[op[1]] = k
        elif op[0] == "dropr":
            dropr_at[op[1]] = k
    # open completions, per round; open-stream bound
    limit = {}
    live = {}
    for rnd, ob in enumerate(obs):
        # ops are applied before round rnd (rnd >= 1): op index rnd-1
        if rnd >= 1 and (rnd - 1) not in sk:
            op = ops[rnd - 1]
            if op[0] in ("dropw", "dropr"):
                s = op[1]
                if s in open_round and s in dropw_at and s in dropr_at and max(dropw_at[s], dropr_at[s]) == rnd - 1:
                    info = slot_info[s]
                    key = (info["side"], info["kind"], info["cap"])
                    live[key] = live.get(key, 0) - 1
        for e in ob[0]:
            if len(e) == 2 and e[1] == 0:
                s = e[0]
                open_round[s] = rnd
                info = slot_info[s]
                key = (info["side"], info["kind"], info["cap"])
                live[key] = live.get(key, 0) + 1
                lim = stream_limit(c["caps"], info["side"], info["kind"], info["cap"]) if not (raw and False) else None
                if lim is not None and live[key] > lim:
                    bad.append({"failed": f"{live[key]} transient streams open at once on side {info['side']} "
                                          f"{'connect' if info['kind'] else 'accept'} capability {info['cap']}, limit min(local,peer) = {lim}",
                                "round": rnd})
    if not raw:
        # data: every read returns bytes of exactly one writer of the other side, consecutive from 0
        src_of, total_read, eos_at = {}, {}, {}
        read_ops = [k for k, op in enumerate(ops) if op[0] == "read"]
        for r in o["reads"]:
            s = r["slot"]
            total_read[s] = total_read.get(s, 0) + r["len"]
            if r["len"] > 0:
                if len(r["srcs"]) != 1:
                    bad.append({"failed": f"slot {s} read {r['len']} bytes at offset {r['off']} that no peer sub-stream wrote there "
                                          f"(matching writers: {r['srcs']})", "read": r})
                    continue
                w = r["srcs"][0]
                if s in src_of and src_of[s] != w:
                    bad.append({"failed": f"slot {s} received data of two different peer sub-streams ({src_of[s]} and {w})", "read": r})
                src_of.setdefault(s, w)
            if r["len"] < r["want"]:
                eos_at[s] = True
        for s, w in src_of.items():
            a, b = slot_info[s], slot_info.get(w)
            if b is None or a["side"] == b["side"] or a["cap"] != b["cap"] or a["kind"] == b["kind"]:
                bad.append({"failed": f"slot {s} {a} received data written on slot {w} {b}: not the matching sub-stream of the same capability"})
                continue
            if w in src_of and src_of[w] != s:
                bad.append({"failed": f"slot {s} reads from {w} but {w} reads from {src_of[w]}: sub-streams are not paired"})
            acc, con = (s, w) if a["kind"] == 0 else (w, s)
            if open_round.get(acc, 1 << 60) > open_round.get(con, -1):
                bad.append({"failed": f"accept-side slot {acc} (established in round {open_round.get(acc)}) is paired with connect-side slot {con} "
                                      f"(established in round {open_round.get(con)}): the connecting side cannot be established first"})
        # attribution to the counterpart HANDLE: with a single reusable stream per direction the transient streams are
        # sequential, the j-th handle established on the connecting side is the counterpart of the j-th on the accepting side
        partner = {}
        for X in (0, 1):
            for cap, _ in c["caps"][X]["connect"]:
                if stream_limit(c["caps"], X, 1, cap) != 1:
                    continue
                con = sorted((open_round[s], s) for s, i in slot_info.items() if s in open_round and (i["side"], i["kind"], i["cap"]) == (X, 1, cap))
                acc = sorted((open_round[s], s) for s, i in slot_info.items() if s in open_round and (i["side"], i["kind"], i["cap"]) == (1 - X, 0, cap))
                if len({r_ for r_, _ in con}) != len(con) or len({r_ for r_, _ in acc}) != len(acc):
                    continue   # (cannot order them; the open-stream bound above reports it)
                for (_, x), (_, y) in zip(con, acc):
                    partner[x], partner[y] = y, x
        for s, w in src_of.items():
            if s in partner and partner[s] != w:
                bad.append({"failed": f"slot {s} received data written on slot {w}, but its counterpart (same incarnation of the only reusable stream "
                                      f"of capability {slot_info[s]['cap']}) is slot {partner[s]}: bytes of another transient stream of the same reusable stream"})
        # end-of-stream is sticky (mirrors the last clause of C14_handle_isolation_and_order: once g_eos is set the handle has
        # returned exactly the bytes of its counterpart, whose write half is closed, so nothing can be returned afterwards;
        # in the model read_exact on a closed stream completes at once with no chunk)
        eos_round = {}
        for rnd, ob in enumerate(obs):
            if rnd >= 1 and (rnd - 1) not in sk and rnd - 1 < len(ops) and ops[rnd - 1][0] == "read":
                s = ops[rnd - 1][1]
                if s in eos_round and not any(len(e) == 5 and e[0] == s and e[1] == 1 for e in ob[0]):
                    bad.append({"failed": f"slot {s} reported end-of-stream in round {eos_round[s]}; the read of {ops[rnd - 1][2]} bytes issued before round {rnd} "
                                          f"did not return (end-of-stream must be sticky: every later read returns 0 bytes at once)", "round": rnd})
            for e in ob[0]:
                if len(e) == 5 and e[1] == 1:
                    s = e[0]
                    if s in eos_round and e[3] > 0:
                        bad.append({"failed": f"slot {s} reported end-of-stream in round {eos_round[s]} and a later read (round {rnd}) returned {e[3]} bytes", "round": rnd})
                    if e[3] < e[2]:
                        eos_round.setdefault(s, rnd)
        seen = {}
        for s, w in src_of.items():
            if w in seen:
                bad.append({"failed": f"slots {seen[w]} and {s} both received the data of slot {w}"})
            seen[w] = s
        # end of stream: only after the counterpart closed, and then everything written was delivered
        for s in eos_at:
            w = src_of.get(s)
            if w is None:
                cands = [x for x, y in src_of.items() if y == s]
                w = cands[0] if cands else None
            if w is None:
                continue
            if w not in dropw_at:
                bad.append({"failed": f"slot {s} saw end-of-stream although its counterpart {w} never closed its write half"})
            elif s in eos_round and eos_round[s] < dropw_at[w] + 1:
                bad.append({"failed": f"slot {s} saw end-of-stream in round {eos_round[s]}, before its counterpart {w} closed its write half (round {dropw_at[w] + 1})"})
            elif total_read.get(s, 0) != o["written"].get(str(w), 0):
                bad.append({"failed": f"slot {s} saw end-of-stream after {total_read.get(s, 0)} bytes, counterpart {w} wrote {o['written'].get(str(w), 0)}"})
    # wire grammar per (side, stream kind, id) and frame sizes
    for side in (0, 1):
        if raw and side == 0:
            continue
        wfs = c["cfg"][side][3]
        seq = {}
        for ob in obs:
            for fr in ob[1 + side]:
                h = fr[0]
                key = (h & 0x2000, h & 0x1FFF)
                kind = {0: "O", 0x4000: "D", 0x8000: "C"}.get(h & 0xC000, "?")
                seq[key] = seq.get(key, "") + kind
                if kind == "D" and not (1 <= fr[1] <= wfs):
                    bad.append({"failed": f"side {side} wrote a DATA frame of {fr[1]} bytes, write_frame_size = {wfs}"})
        for key, sq in seq.items():
            if not WIRE_GRAMMAR.match(sq):
                bad.append({"failed": f"side {side} stream {key}: frame kinds {sq[:80]} do not follow CLOSE? (OPEN DATA* CLOSE)*"})
    return bad


def pred_flood(c, o):
    """flow control against a peer that ignores it: the application of B never reads."""
    bad = []
    if "panic" in o:
        return [{"failed": "the multiplexer panicked: " + o["panic"]}]
    rfs, rbs, rfc, _ = c["cfg"][1]
    opened = set()
    discarded = 0
    k = 0
    for rnd, ob in enumerate(o["obs"]):
        if rnd >= 1:
            op = c["ops"][rnd - 1]
            if op[0] == "rawframe":
                h = op[1]
                key = (h & 0x2000, h & 0x1FFF)
                size = 2 + (2 + op[3] if op[2] >= 0 else 0)
                if key not in opened:
                    discarded += size          # recv_open drops everything up to and including the first OPEN
                    if h & 0xC000 == 0:
                        opened.add(key)
        pulled = ob[4]
        bound = discarded + rbs + 4 * (rfc + 1)
        if pulled > bound:
            bad.append({"failed": f"the multiplexer pulled {pulled} bytes from a peer that ignores flow control while the application "
                                  f"read nothing; allowed: {discarded} discarded + read_buffer_size {rbs} + headers of {rfc}+1 frames = {bound}",
                        "round": rnd})
            break
    return bad


def predicate(c, o):
    if "crash" in o or "skipped" in o:
        return []
    m = c["mode"]
    if m == "header":
        return pred_header(c, o)
    if m == "verify":
        return []
    bad = pred_script(c, o)
    if c["kind"].startswith("raw-flood"):
        bad += pred_flood(c, o)
    if c["kind"].startswith("raw-ctlflood"):
        bad += pred_ctlflood(c, o)
    if c["kind"].startswith("raw-bad") and "obs" in o:
        # applies when every earlier frame was well formed and the multiplexer got as far as the bad header
        sent, aligned, reached = 0, True, None
        for k, op in enumerate(c["ops"]):
            if op[0] == "rawframe":
                is_data = (op[1] & 0xC000) == 0x4000
                if k != c.get("bad_at") and (is_data != (op[2] >= 0) or (is_data and op[2] != op[3]) or (not is_data and op[3] != 0)):
                    aligned = False
                sent += 2 + (2 + op[3] if op[2] >= 0 else 0)
                if k == c.get("bad_at"):
                    reached = sent
                    break
            elif op[0] in ("rawbytes", "rawclose"):
                aligned = False
        if aligned and reached is not None and len(o["obs"]) > c["bad_at"] + 1:
            ob = o["obs"][c["bad_at"] + 1]
            if ob[4] >= reached and ob[5] != [[1, 4]]:
                bad.append({"failed": f"a frame with an unassigned kind / out-of-range stream id was read and the run ended with status {ob[5]}, expected Protocol"})
    return bad


# ---------------------------------------------------------------------------

def build_cases(rng, tier):
    q = tier == "quick"
    cases = corpus_cases()
    p = os.path.join(common.CORPUS, "C14.json")
    if os.path.exists(p):
        cases += json.load(open(p))
    cases += gen_header_cases(rng, 0)
    cases += gen_verify_cases(rng, 40 if q else 400)
    npair, nbig, nraw, nflood, nops = (70, 4, 50, 25, 40) if q else (1500, 200, 1000, 400, 70)
    cases += [gen_pair_case(rng, rng.range(10, nops), False) for _ in range(npair)]
    cases += [gen_pair_case(rng, rng.range(10, nops), True) for _ in range(nbig)]
    cases += [gen_raw_case(rng, rng.range(5, nops)) for _ in range(nraw)]
    cases += [gen_flood_case(rng) for _ in range(nflood)]
    cases += [gen_ctlflood_case(rng, 2000 if q else 5000) for _ in range(10 if q else 80)]
    cases += [gen_eosreuse_case(rng) for _ in range(16 if q else 400)]
    cases += [gen_cachetail_case(rng) for _ in range(12 if q else 300)]
    return cases


def run(rep):
    tier, rng = rep.tier, Rng(rep.seed)
    cov = rep.cov
    broken = []
    # translator: the pure arithmetic/bit-level functions are regenerated from the Rust source on every run and must
    # still equal the hand model (Properties/*Gen.v)
    import rust2coq
    translator, gen_files = rust2coq.step(["mux_header", "pins_mux"], ["theories/Properties/C14Gen.v"], broken)
    po = common.proof_obligations(PROP_FILES + gen_files)
    if not po["ok"]:
        broken.append("Coq obligations of Properties/C14.v: " + (po["log_tail"] or str(po["hygiene_problems"] or po["bad_axioms"])))
    ok, out = common.cargo_build(["mux"], "dev")
    if not ok:
        raise common.MachineryError("cargo build failed: " + out[-2000:])
    cases = build_cases(rng, tier)
    outs = common.run_impl("mux", cases, "dev", timeout=600 if tier == "quick" else 2400)
    coq_cases, pred_fail, kinds = [], [], {}
    stats = {"ops": 0, "opens_completed": 0, "reads_completed": 0, "reads_with_data": 0, "reads_eos": 0, "bytes_read": 0,
             "wire_frames": 0, "runs_ended_with_error": 0, "rounds": 0, "skipped_ops": 0}
    distinct = set()
    crashed = []
    for i, (c, o) in enumerate(zip(cases, outs)):
        kinds[c["kind"].split(" ")[0]] = kinds.get(c["kind"].split(" ")[0], 0) + 1
        if "crash" in o or "skipped" in o:
            crashed.append(i)
            continue
        coq_cases.append((i, coq_case(c), common.to_obsv(impl_obs(c, o))))
        for b in predicate(c, o):
            pred_fail.append({"case": {k: c[k] for k in c if k != "kind"}, "kind": c["kind"], **b})
        if c["mode"] in ("pair", "raw") and "obs" in o:
            stats["ops"] += len(o["obs"]) - 1
            stats["rounds"] += len(o["obs"])
            for ob in o["obs"]:
                for e in ob[0]:
                    if len(e) == 2 and e[1] == 0:
                        stats["opens_completed"] += 1
                    elif len(e) == 2 and e[1] == -1:
                        stats["skipped_ops"] += 1
                    elif len(e) == 5:
                        stats["reads_completed"] += 1
                        stats["bytes_read"] += e[3]
                        stats["reads_with_data"] += 1 if e[3] > 0 else 0
                        stats["reads_eos"] += 1 if e[3] < e[2] else 0
                stats["wire_frames"] += len(ob[1]) + len(ob[2])
                if ob[5]:
                    stats["runs_ended_with_error"] += 1
                if ob[0] or ob[1] or ob[2]:
                    distinct.add(json.dumps([c["cfg"], ob[:3]]))
        elif c["mode"] == "header":
            stats["header_values"] = stats.get("header_values", 0) + len(c["raws"])
    if crashed:
        i = crashed[0]
        raise common.MachineryError(f"harness crashed/hung on case {i} ({cases[i]['kind']}): {outs[i]}")
    sample_ids = [0, 2, 3]
    mm, samp = common.run_model_cases("C14", "From EC Require Import Model.MuxHeader Model.Mux.", "Model.Mux.run_case",
                                      coq_cases, shard_size=6 if tier == "quick" else 24, sample_ids=sample_ids,
                                      timeout=600 if tier == "quick" else 3000)
    if mm:
        broken.append(f"correspondence harness mux vs Model.Mux.run_case: {len(mm)} disagreeing cases")
    if pred_fail:
        rep.violation("the multiplexer violates C14: " + pred_fail[0]["failed"],
                      {"failing_input": pred_fail[0], "more": [p["failed"] for p in pred_fail[1:6]], "broken": broken})
    elif broken:
        first = None
        if mm:
            i = sorted(mm)[0]
            io = impl_obs(cases[i], outs[i])
            mo = mm[i]
            at = next((k for k in range(max(len(io), len(mo))) if k >= len(io) or k >= len(mo) or io[k] != mo[k]), None)
            first = {"case": cases[i], "first_differing_round": at,
                     "impl_round": io[at] if at is not None and at < len(io) else None,
                     "model_round": mo[at] if at is not None and at < len(mo) else None}
        rep.violation("C14 no longer shown to hold: " + "; ".join(broken)[:600],
                      {"broken": broken, "first_disagreement": first}, found_input=False)
    cov.update({
        "obligations": po["obligations"] + 1,
        "discharged": po["discharged"] + (0 if mm else 1),
        "checker_cmd": "./coqmake theories/Properties/C14.vo (make; Proofs/MuxProofs.v, MuxRefine.v, MuxControl.v, MuxWire.v, MuxPair.v, MuxHandles.v) + coqc on generated build/cases/C14/cases_*.v (vm_compute of Model.Mux.run_case)",
        "trusted_base": common.standard_trusted_base([
            "H-ATOM: tokio channels, semaphores, Notify, oneshot and the ExclusiveLock hand-over are atomic transitions of the model; scheduling is the sequential script with a drain to quiescence after every operation",
            "the transport in the model and in the harness (tokio::io::duplex with a 2^30 byte buffer) never exerts back pressure on the writer",
        ] + translator["trusted"]),
        "translator": translator,
        "theorems": po["theorems"], "axioms": po["axioms"],
        "evaluations": stats["rounds"] + stats.get("header_values", 0),
        "distinct_nontrivial": len(distinct),
        "rule": "non-trivial = distinct (configs, events, frames written by A, frames written by B) observation rounds in which a stream was "
                "established, a read completed or a frame was written; every observation also carries the bytes each multiplexer pulled from its transport and the run status",
        "input_distribution": {"cases_by_kind": kinds, **stats,
                               "generator": "pair: 1-3 capabilities from {0,1,2,3,9,2^33}, limits {0,1,2,5} per side and direction, configs read_frame_size {1..70000} "
                                            "read_buffer_size {0..2^20} read_frame_count {0..1000} write_frame_size {1..65535}, scripts of 10-40 (quick) / 10-70 (thorough) "
                                            "ops: opens (both ends, one end only, over the limit), writes 0-3000 bytes (big cases up to 70000), flushes, reads 0-5000 bytes (big: 100000), "
                                            "drops of either half in any order, ~2% invalid ops; raw: arbitrary frames (any kind incl. the unassigned one, ids in and out of range, "
                                            "truncated payloads, single bytes, close) against one real Mux whose application opens/reads/drops; raw-flood: OPEN then DATA floods, "
                                            "application never reads; raw-ctlflood: after one OPEN, 2000 (quick) / 5000 OPEN, CLOSE, OPEN+CLOSE, CLOSE+OPEN+DATA(0), OPEN+DATA(1) frames at a stream "
                                            "nobody accepts / nobody connects / whose reader never reads, read_frame_count 3..12 (predicate: queued frames taken off the transport <= read_frame_count + 1); pair-eosreuse: one reusable stream per capability, 2-4 transient streams in sequence on it, each read to end-of-stream, the old read half KEPT while the write halves are released and the peer starts the next transient stream on the same id (data already queued behind the CLOSE or arriving later, reader on the accept or on the connect side, empty streams, reverse traffic), then the old half is read again before it is dropped (predicates: end-of-stream is sticky - a later read returns 0 bytes at once; bytes are attributed to the counterpart handle of the same incarnation; end-of-stream not before the counterpart closed - they mirror the end-of-stream clause of C14_handle_isolation_and_order); pair-cachetail: one reusable stream per capability, 2-4 transient streams in sequence, the reader of each but the last stops inside a DATA frame (1, 4, half, all but one byte of the first chunk) and abandons the stream before or after the writer closed, the next writer sends distinguishable bytes, first read of the next stream shorter / equal / longer than the unread tail (oracle: isolation and counterpart-handle predicates); header: all 2^16 values + 384 (kind,kind,id) triples; verify: boundary configs"},
        "samples": [{"case": cases[i], "impl": impl_obs(cases[i], outs[i]), "model_obs": samp.get(i)} for i in sample_ids if i < len(cases)],
        "correspondence_mismatches": len(mm), "predicate_failures": len(pred_fail),
        "partial": "Proved (closed, no axioms). Components: header layout for all 2^16 values; totality of the frame-kind match; both sides compute the same "
                   "id->capability table for all limit maps; streams per capability = min(local, peer); verify implies ids fit 13 bits; routing of the dispatcher and "
                   "Protocol error for foreign ids / unassigned kind; FIFO use of the transport; flow control on the LTS built from the model's dispatcher step; read_exact "
                   "order/loss/duplication free, EOS only after CLOSE, frames after a CLOSE invisible; write_all framing; isolation inside an endpoint. "
                   "Composed system (every reachable quiescent state of the two-sided model, or of one endpoint against any raw peer byte sequence, under any application script): "
                   "(1) each endpoint refines the flow-control LTS, hence held payload <= read_buffer_size, held frames <= read_frame_count, frames <= read_frame_size for the executable "
                   "endpoint model (C14_endpoint_refines, C14_endpoint_buffer_bounded[_A]); (2) at most one transient stream per reusable stream and open transient streams per capability "
                   "<= min(local limit, peer limit) (C14_one_transient_per_stream[_A], C14_open_streams_bounded[_A]; invariant K of Proofs/MuxControl.v: unique handles, FIFO queues hold only "
                   "idle streams of their capability, hand-over only of a stream no handle holds). "
                   "(3) end-to-end isolation and order for the pair of multiplexers with configurations accepted by Mux::verify and 1 <= write_frame_size <= 65535 (side_ok), in every "
                   "reachable state, with ghost histories of written/read bytes in the model: (i) wire: parsing the serialisation of any list of well-formed frames gives the frames back, and "
                   "the chunking dispatcher is that parser (C14_wire_parse, C14_dispatcher_parses); (ii)/(iii) per pair of reusable streams and per incarnation: tokens sent after the n-th "
                   "OPEN = tokens the reader took ++ tokens in flight; the pair never fails; the bytes read_exact took in incarnation n are a prefix of the payload of the sender's n-th "
                   "incarnation, all of it and closed at end-of-stream (C14_pair_invariant, C14_pair_never_fails, C14_stream_isolation_and_order); (iv) handles: the bytes the reads of a live "
                   "reader handle returned (+ read in progress) are a prefix of the bytes the application of the other side wrote through ONE handle, of opposite kind, the writer of that "
                   "incarnation of the paired stream; after a read reported end-of-stream they are exactly all bytes written through it and its write half is closed "
                   "(C14_handle_isolation_and_order, C14_handle_invariant; paired reusable streams carry the same capability: C14_paired_streams_same_capability; no stage was refuted). "
                   "Implementation-side mirrors of the end-of-stream clause of C14_handle_isolation_and_order (after g_eos the handle has returned exactly the bytes of its counterpart, whose "
                   "write half is closed; a read on a closed stream completes at once with no chunk): predicates 'every read issued after a handle reported end-of-stream returns 0 bytes in "
                   "the same round', 'bytes are attributed to the counterpart handle of the same incarnation (j-th established handle on each side of a single reusable stream)', "
                   "'end-of-stream not before the counterpart closed'; directed family pair-eosreuse. "
                   "NOT proved: the rephrasing of (iv) on the observation stream of a script (C14_full = C14_remaining_isolation_and_order in Properties/C14.v): events of complete_read "
                   "vs the ghost history over rounds, history of a handle after its read half was dropped, capability recorded per handle (paired streams have equal capability and opposite kinds: proved; handles do not record the capability they were opened with), configurations "
                   "outside side_ok; these rest on the differential correspondence and on the predicates (single-source contiguous reads, symmetric pairing, EOS only after close and complete). "
                   "Scheduler: theorems quantify over the settle-to-quiescence scheduler of the model (the one the correspondence uses), tokio primitives "
                   "atomic (H-ATOM); other interleavings of the real runtime are covered only as far as the quiescent observations agree. Head-of-line blocking is documented behaviour, "
                   "not claimed absent; back pressure of a bounded transport on the writer is not modelled. "
                   "OBSERVATION (no change in /repo): write_frame_size = 0 and read_frame_size = 0 are accepted by Config::verify; with write_frame_size = 0 WriteStream::write_all never "
                   "terminates (spins without yielding), with read_frame_size = 0 the dispatcher loops forever on the first non-empty DATA frame producing empty chunks; both values are "
                   "excluded from the generators and from the harness runs; the flow-control theorems only assume limits >= 0.",
    })
    rep.assumptions += ["H-ATOM (DESIGN.md 2.3): atomicity of tokio channel / semaphore / oneshot / Notify operations and FIFO fairness of the StreamQueue mutex and bounded channel"]


def replay(path):
    d = json.load(open(path))
    fi = d.get("failing_input") or d.get("first_disagreement")
    if not fi or "case" not in fi:
        print("no concrete input in replay file:", d.get("broken"))
        return 1
    c = dict(fi["case"])
    c.setdefault("kind", fi.get("kind", "replay"))
    common.cargo_build(["mux"], "dev")
    o = common.run_impl("mux", [c], "dev")[0]
    print(json.dumps({"impl": o, "predicate": predicate(c, o)}, indent=1)[:20000])
    mm, samp = common.run_model_cases("C14replay", "From EC Require Import Model.MuxHeader Model.Mux.", "Model.Mux.run_case",
                                      [(0, coq_case(c), common.to_obsv(impl_obs(c, o)))], sample_ids=[0])
    print("model:", json.dumps(samp.get(0))[:20000])
    print("model agrees with implementation" if not mm else "model DISAGREES with implementation")
    return 0
