"""C18, part 3 — concurrent use of the address book (checks H-ATOM on the code).
Real OS threads call ValidatorAddrsWatch::announce / ::update on one book at once (vh addrrace) while a
sampler thread reads the published book.  Oracle: (1) implementation-side predicates (no key's stamp
ever decreases across published versions, an entry accepted by a finished update stays unless
superseded, final book = newest accepted per key); (2) Model.AddrBook.run_lin_case: every final book
must be the result of SOME interleaving of the atomic model operations respecting program order, and
every published book a state some interleaving passes through."""
import json
import common
from common import coq_z, coq_list

POOL = 8


def gen_case(rng, trials):
    committee = sorted(rng.shuffle(list(range(POOL)))[:rng.range(3, 5)])
    me = rng.choice(committee)
    others = [k for k in committee if k != me]
    ver = {k: rng.choice([1, 1, 2, 7, (1 << 64) - 40]) for k in others}
    addr = [rng.range(1, 1 << 20)]

    def fresh():
        addr[0] += 1
        return addr[0]

    def ent(k, v, t):
        a = fresh()
        return [k, a, v, t, k, a, v, t]

    init = [ent(k, ver[k], rng.below(5)) for k in others if rng.chance(3, 4)]
    if rng.chance(1, 3):
        init.append(ent(me, rng.choice([0, 3, 1000]), rng.below(5)))
    shape = rng.choice([[2, 2], [1, 2], [2, 3], [2, 2, 2], [1, 2, 2], [1, 1, 2, 2], [2, 1, 1, 2], [3, 3]])
    n_ann = 1 if len(shape) < 3 else rng.choice([1, 2])
    threads = []
    for ti, nops in enumerate(shape):
        ops = []
        for _ in range(nops):
            if ti < n_ann:
                ops.append({"a": [fresh(), rng.choice([0, 5, 10 ** 18, rng.below(10 ** 6)])]})
            else:
                batch = []
                for k in rng.shuffle(others)[:rng.choice([1, 1, 2])]:
                    ver[k] += rng.choice([1, 1, 2])
                    batch.append(ent(k, ver[k], rng.below(10)))
                if rng.chance(1, 6):      # an announcement of the node's own key arriving from a peer
                    batch.append(ent(me, rng.choice([2, 5, 2000]), rng.below(10)))
                ops.append({"u": batch})
        threads.append(ops)
    return {"pool": POOL, "committee": committee, "self": me, "trials": trials, "init": init, "threads": threads}


def corpus_cases(trials):
    v = lambda k, a, ver, ts: [k, a, ver, ts, k, a, ver, ts]
    return [
        # the loopback announcer against a peer's batch that advances B and introduces C
        {"pool": POOL, "committee": [0, 1, 2, 3], "self": 0, "trials": trials, "init": [v(1, 5, 1, 1)],
         "threads": [[{"a": [100, 5]}, {"a": [101, 6]}], [{"u": [v(1, 6, 2, 1), v(2, 7, 0, 1)]}, {"u": [v(1, 8, 3, 1)]}]]},
        {"pool": POOL, "committee": [0, 1, 2], "self": 2, "trials": trials, "init": [v(0, 5, 1, 1), v(2, 9, 4, 0)],
         "threads": [[{"a": [100, 5]}], [{"u": [v(0, 6, 2, 1)]}, {"u": [v(2, 10, 9, 9)]}], [{"u": [v(1, 7, 1, 1)]}, {"u": [v(0, 8, 3, 0)]}]]},
    ]


def json_case(c):
    enc = lambda e: [e[0], str(e[1]), str(e[2]), str(e[3]), e[4], str(e[5]), str(e[6]), str(e[7])]
    return {"pool": c["pool"], "committee": c["committee"], "self": c["self"], "trials": c["trials"],
            "init": [enc(e) for e in c["init"]],
            "threads": [[{"u": [enc(e) for e in o["u"]]} if "u" in o else {"a": [str(o["a"][0]), str(o["a"][1])]} for o in t]
                        for t in c["threads"]]}


def book_obs(rows):
    return [[r[0], int(r[1]), int(r[2]), int(r[3]), 1 if r[4] else 0] for r in rows]


def coq_op(c, o):
    if "u" in o:
        return "OUpdate %s %s" % (coq_list([coq_z(k) for k in c["committee"]]),
                                  coq_list(["mk_entry " + " ".join(coq_z(x) for x in e) for e in o["u"]]))
    return "OAnnounce %d %s %s" % (c["self"], coq_z(o["a"][0]), coq_z(o["a"][1]))


def observed_sets(o):
    fins, samples = [], []
    for t in o["trials"]:
        f = book_obs(t["final"])
        if f not in fins:
            fins.append(f)
        for s in t["samples"]:
            b = book_obs(s[2])
            if b not in samples:
                samples.append(b)
    return fins, samples


def coq_case(c, o):
    fins, samples = observed_sets(o)
    init = coq_list([coq_op(c, {"u": c["init"]})])
    ts = coq_list([coq_list([coq_op(c, op) for op in t]) for t in c["threads"]])
    return "(true, %s, %s, %s, %s)" % (init, ts, coq_list([common.to_obsv(f) for f in fins]),
                                        coq_list([common.to_obsv(s) for s in samples]))


def expected_obs(o):
    fins, samples = observed_sets(o)
    return [[1] * len(fins), [1] * len(samples)]


def predicate(c, o, st=None):
    bad = []
    me = c["self"]
    newest = {}
    for e in c["init"] + [e for t in c["threads"] for op in t if "u" in op for e in op["u"]]:
        newest[e[0]] = max(newest.get(e[0], (-1, 0)), (e[2], e[3]))
    for ti, t in enumerate(o["trials"]):
        def fail(msg, **kw):
            bad.append({"trial": ti, "failed": msg, "trial_obs": t, **kw})
        for th, (ops, log) in enumerate(zip(c["threads"], t["ops"])):
            for (s, e, r) in log:
                if r != "ok":
                    fail(f"operation of thread {th} ended with {r}")
        versions = [(s[0], s[1], book_obs(s[2])) for s in t["samples"]] + [(1 << 62, 1 << 62, book_obs(t["final"]))]
        prev = {}
        for (s0, s1, b) in versions:
            cur = {r[0]: (r[2], r[3]) for r in b}
            for r in b:
                if not r[4]:
                    fail(f"published entry of key {r[0]} does not verify")
            for k in prev:
                if k not in cur:
                    fail(f"entry of key {k} disappeared from a later published version (lost insert)", before=prev, after=cur)
                elif cur[k] < prev[k]:
                    fail(f"stored stamp of key {k} went back from {prev[k]} to {cur[k]} across published versions (rollback)", before=prev, after=cur)
            prev = cur
        for th, (ops, log) in enumerate(zip(c["threads"], t["ops"])):
            for op, (s, e, r) in zip(ops, log):
                if "u" not in op or r != "ok":
                    continue
                for (s0, s1, b) in versions:
                    if s0 <= e:
                        continue
                    cur = {r_[0]: (r_[2], r_[3]) for r_ in b}
                    for en in op["u"]:
                        if cur.get(en[0], (-1, 0)) < (en[2], en[3]):
                            fail(f"entry ({en[0]}, v{en[2]}, t{en[3]}) accepted by an update that had returned is missing from a later published version "
                                 f"(key holds {cur.get(en[0])})")
        fin = {r[0]: (r[2], r[3]) for r in book_obs(t["final"])}
        for k, stp in newest.items():
            if k != me and fin.get(k) != stp:
                fail(f"final book holds {fin.get(k)} for key {k}; the newest accepted announcement is {stp}")
        if me not in fin and any("a" in op for th in c["threads"] for op in th):
            fail("the node's own announcement is missing from the final book")
        if st is not None:
            st["trials"] = st.get("trials", 0) + 1
            st["published_versions_seen"] = st.get("published_versions_seen", 0) + len(versions)
            if bad and bad[-1]["trial"] == ti:
                st["bad_trials"] = st.get("bad_trials", 0) + 1
        if len(bad) > 40:
            break
    # keep the report small
    seen, out = set(), []
    for b in bad:
        if b["failed"] not in seen:
            seen.add(b["failed"])
            out.append(b)
    return out


def make_cases(rng, n, trials):
    return corpus_cases(trials) + [gen_case(rng, trials) for _ in range(n)]


# ---------------------------------------------------------------------------
# deterministic interleaving (vh addrrace_det, needs proposed_hooks/C18_lock.diff)

def det_cases(rng, n):
    out = []
    for c in corpus_cases(1) + [gen_case(rng, 1) for _ in range(n)]:
        ops = [op for t in c["threads"] for op in t]
        # keep program order of every thread, merge the threads in a random way
        idx = [0] * len(c["threads"])
        order = []
        while len(order) < len(ops):
            live = [i for i, t in enumerate(c["threads"]) if idx[i] < len(t)]
            i = rng.choice(live)
            order.append(c["threads"][i][idx[i]])
            idx[i] += 1
        out.append({"pool": c["pool"], "committee": c["committee"], "self": c["self"], "init": c["init"], "ops": order})
    return out


def det_json(c):
    j = json_case({**c, "trials": 1, "threads": [c["ops"]]})
    return {"pool": j["pool"], "committee": j["committee"], "self": j["self"], "init": j["init"], "ops": j["threads"][0]}


def det_coq_case(c, o):
    init = coq_list([coq_op(c, {"u": c["init"]})])
    ts = coq_list([coq_list([coq_op(c, op) for op in c["ops"]])])
    return "(true, %s, %s, %s, %s)" % (init, ts, coq_list([common.to_obsv(book_obs(o["final"]))]), coq_list([common.to_obsv(book_obs(o["before"]))]))


def det_predicate(c, o):
    bad = []
    if not all(o["queued"]):
        bad.append({"failed": "an operation did not queue behind the held lock (completed without it)"})
    if any(r != "ok" for r in o["res"]):
        bad.append({"failed": "an operation failed"})
    before = {r[0]: (r[2], r[3]) for r in book_obs(o["before"])}
    fin = {r[0]: (r[2], r[3]) for r in book_obs(o["final"])}
    for r in book_obs(o["final"]):
        if not r[4]:
            bad.append({"failed": f"final entry of key {r[0]} does not verify"})
    for k in before:
        if k not in fin:
            bad.append({"failed": f"entry of key {k} disappeared"})
        elif fin[k] < before[k]:
            bad.append({"failed": f"stamp of key {k} went back from {before[k]} to {fin[k]}"})
    newest = {}
    for e in c["init"] + [e for op in c["ops"] if "u" in op for e in op["u"]]:
        newest[e[0]] = max(newest.get(e[0], (-1, 0)), (e[2], e[3]))
    for k, stp in newest.items():
        if k != c["self"] and fin.get(k) != stp:
            bad.append({"failed": f"queued update and announce: final book holds {fin.get(k)} for key {k}, the newest accepted announcement is {stp} (an accepted update was undone)"})
    return bad
