"""C15 — rate limiter: theorems + correspondence (vh limiter vs Model.Limiter.run_case) + predicates.

The Rust side drives the real `zksync_concurrency::limiter::Limiter` under `ctx::ManualClock`
with a script of acquire / cancel / drop / clock-advance operations (harness/src/bin/limiter.rs);
the model side evaluates `Model.Limiter.run_case` on the same script inside Coq (vm_compute).
Compared: the grant log (which acquire returned at which manual-clock time, in completion order),
the final status of every acquire call and the final clock reading.

Predicates (evaluated on the Rust output alone): the window bound over every pair of grants and
of permit drops, FIFO order, reserved <= burst at all times, never-granted classes, and a
metamorphic "cancel consumes nothing" twin run.
"""
import json
import os
import common
from common import Rng, coq_z, coq_list

PROP_FILES = ["theories/Properties/C15.v", "theories/Properties/C15Serve.v"]
USIZE_MAX = (1 << 64) - 1


# ---------------------------------------------------------------------------
# generator

def gen_rate(rng):
    k = rng.below(20)
    if k < 9:
        burst = rng.range(1, 6)
    elif k < 13:
        burst = rng.range(6, 30)
    elif k < 14:
        burst = 0
    elif k < 15:
        burst = USIZE_MAX
    elif k < 16:
        burst = (1 << rng.range(20, 63)) + rng.below(7)
    else:
        burst = rng.range(1, 3)
    k = rng.below(24)
    if k < 6:
        refresh = rng.choice([1, 2, 3, 7, 10])
    elif k < 12:
        refresh = rng.choice([1000, 10 ** 6, 10 ** 7, 10 ** 8, 2 * 10 ** 8, 10 ** 9, 2 * 10 ** 9, 5 * 10 ** 9])
    elif k < 17:
        refresh = rng.range(1, 10 ** rng.range(1, 12))
    elif k < 19:
        refresh = 10 ** 18 + rng.below(1000)
    elif k < 21:
        refresh = 0
    elif k < 22:
        refresh = -rng.range(1, 10 ** 9)
    else:
        refresh = rng.range(1, 50)
    return burst, refresh


def gen_adv(rng, refresh):
    r = max(refresh, 1)
    k = rng.below(16)
    if k == 0:
        return 0
    if k == 1:
        return 1
    if k == 2:
        return max(r - 1, 0)
    if k < 6:
        return r
    if k == 6:
        return r + 1
    if k < 10:
        return r * rng.range(1, 12)
    if k < 13:
        return rng.below(r) if r > 1 else 1
    if k == 13:
        return r * rng.range(1, 5) + rng.below(r)
    if k == 14:
        return min(r * rng.range(10, 1000), 10 ** 16)
    return rng.choice([10 ** 15, 10 ** 12, 3 * r + r // 2])


def gen_permits(rng, burst):
    k = rng.below(20)
    if burst == 0:
        return rng.choice([0, 0, 0, 1, 2, USIZE_MAX])
    if k < 9:
        return 1
    if k < 14:
        return rng.range(1, min(burst, 1 << 62))
    if k < 15:
        return burst
    if k < 16:
        return 0
    if k < 17:
        return min(burst + 1, USIZE_MAX)
    if k < 18:
        return rng.choice([USIZE_MAX, burst + rng.range(1, 5) if burst < USIZE_MAX - 5 else USIZE_MAX])
    return rng.range(1, max(1, min(burst, 4)))


def gen_case(rng, nops, kind="random"):
    burst, refresh = gen_rate(rng)
    start = rng.choice([0, 0, 1, rng.below(10 ** 10), max(refresh, 1) * rng.range(1, 5) + rng.below(3)])
    if start > 10 ** 17:   # keep every clock reading far below the private cancellation deadline (2^61 ns)
        start = 10 ** 17
    ops = []
    nacq = 0
    gone = set()   # acquires already cancelled or dropped by the script
    total = start
    holdy = rng.chance(1, 3)   # scripts that keep permits for a while (delayed consumption)
    for _ in range(nops):
        k = rng.below(100)
        if nacq == 0 or k < 34:
            ops.append(["acq", str(gen_permits(rng, burst)), "ctx" if rng.chance(1, 3) else "fut"])
            nacq += 1
            if not holdy and rng.chance(2, 3):
                ops.append(["drop", nacq - 1])   # immediate consumption when granted at once
        elif k < 46:
            live = [i for i in range(nacq) if i not in gone]
            t = rng.choice(live) if live and rng.chance(6, 7) else rng.below(nacq + 1)
            # A context cancellation that reaches a waiter whose sleep is already over but which has not been polled yet
            # races inside the real code (tokio::select! in ctx.wait picks either ready branch: grant or Canceled are both
            # legitimate). Keep the scripts deterministic: such a cancel is preceded by an ordinary (polling) advance.
            if ops and ops[-1][0] == "advx" and t < nacq and [o for o in ops if o[0] == "acq"][t][2] == "ctx":
                ops[-1][0] = "adv"
            ops.append(["cancel", t])
            if t < nacq and rng.chance(1, 2):
                gone.add(t)
        elif k < 66:
            live = [i for i in range(nacq) if i not in gone]
            t = rng.choice(live) if live and rng.chance(6, 7) else rng.below(nacq + 1)
            ops.append(["drop", t])
        else:
            d = gen_adv(rng, refresh)
            if total + d < (1 << 59):
                total += d
                # 1 in 6: nothing is polled before the next op (a woken waiter oversleeps)
                ops.append(["advx" if rng.chance(1, 6) else "adv", str(d)])
    return {"burst": str(burst), "refresh": str(refresh), "start": str(start), "ops": ops, "kind": kind}


def gen_late_wakeup(rng):
    """Directed family: a waiter parked inside acquire on an empty bucket (its wake-up tick `need` is computed), another
    permit still held; the clock jumps k >= 1 refresh periods past the waiter's deadline and the held permit is dropped
    at that later tick BEFORE the waiter is polled again (so the waiter's own advance(need) then carries an older tick);
    then a burst of acquires. Oracle: the window bound over the grants."""
    burst = rng.range(2, 12)
    refresh = rng.choice([1, 10, 1000, 10 ** 9, rng.range(2, 50)])
    h = rng.range(1, min(3, burst - 1))          # permits that stay held
    p = rng.range(1, min(3, burst - h))          # what the waiter asks for
    start = rng.choice([0, 0, refresh * rng.range(1, 4) + rng.below(refresh)])
    ops = [["acq", str(burst - h), "fut"], ["acq", str(h), "fut"], ["drop", 0]]
    nacq = 2
    if rng.chance(1, 3):                         # the bucket was already in use for a while
        ops += [["adv", str(refresh * rng.range(1, 3))], ["acq", "1", "fut"], ["drop", nacq]]
        nacq += 1
        if rng.chance(1, 2):
            ops += [["acq", str(min(2, burst - h)), "fut"], ["drop", nacq]]
            nacq += 1
    waiter = nacq
    ops.append(["acq", str(p), rng.choice(["fut", "ctx"])])
    nacq += 1
    k = rng.range(1, 6)
    jump = (p + 3 + k) * refresh + rng.below(refresh)
    if rng.chance(1, 3):                         # part of the way with normal polling, then the oversleep
        ops.append(["adv", str(max(refresh - 1, 0))])
        jump -= max(refresh - 1, 0)
    late = rng.chance(5, 6)
    ops.append(["advx" if late else "adv", str(jump)])
    ops.append(["drop", 1])                      # the held permit, at the later tick
    if rng.chance(1, 4):
        ops.append(["advx" if late else "adv", str(refresh * rng.range(0, 2) + rng.below(refresh))])
    ops.append(["drop", waiter])
    for j in range(rng.range(burst, burst + 5)):
        q = 1 if rng.chance(3, 4) else rng.range(1, min(3, burst))
        ops += [["acq", str(q), "fut"], ["drop", nacq]]
        nacq += 1
        if rng.chance(1, 8):
            ops.append(["adv", str(rng.below(refresh) if refresh > 1 else 0)])
    return {"burst": str(burst), "refresh": str(refresh), "start": str(start), "ops": ops,
            "kind": "late-wakeup" if late else "late-wakeup-control"}


def gen_flood(rng, nacq):
    """A caller that opens as fast as it can: acquire(1) back to back, every permit consumed the moment it
    is granted, while the clock moves in small steps."""
    burst = rng.range(1, 8)
    refresh = rng.choice([1, 3, 10, 1000, 10 ** 8])
    ops = []
    for i in range(nacq):
        ops.append(["acq", "1", "fut"])
    n = 0
    for _ in range(nacq * 2):
        ops.append(["adv", str(rng.choice([refresh, refresh // 2 + 1, refresh * 2, 1]))])
        for i in range(nacq):
            ops.append(["drop", i])
    return {"burst": str(burst), "refresh": str(refresh), "start": "0", "ops": ops, "kind": "flood"}


def make_twin(rng, c):
    """Inserts `acq p; cancel` of a fresh acquire somewhere in the script. If that acquire was not granted
    on the spot, the rest of the run must be unchanged (cancel consumes nothing)."""
    ops = c["ops"]
    j = rng.below(len(ops) + 1)
    while j > 0 and ops[j - 1][0] == "advx":     # the inserted acquire would poll the oversleeping waiter early
        j -= 1
    knew = sum(1 for o in ops[:j] if o[0] == "acq")
    burst = int(c["burst"])
    p = rng.choice([burst, max(burst, 1), min(burst + 1, USIZE_MAX), 1, max(1, burst // 2)])

    def shift(o):
        if o[0] in ("cancel", "drop") and o[1] >= knew:
            return [o[0], o[1] + 1]
        return o
    new = [list(o) for o in ops[:j]] + [["acq", str(p), rng.choice(["fut", "ctx"])], ["cancel", knew]] + [shift(o) for o in ops[j:]]
    d = dict(c)
    d["ops"] = new
    d["kind"] = "twin"
    d["twin_of"] = knew
    return d


def corpus_cases():
    r = 2 * 10 ** 9
    sec = 10 ** 9
    return [
        # late wake-up (seed C15b): exhaust the bucket keeping one permit, park a waiter, the clock jumps 5 periods, the held
        # permit is dropped before the waiter is polled, then a burst of acquires: at most 16 grants in the 5 s window
        {"burst": "10", "refresh": str(sec), "start": "0", "kind": "unit",
         "ops": [["acq", "9", "fut"], ["acq", "1", "fut"], ["drop", 0], ["acq", "1", "fut"], ["advx", str(5 * sec)], ["drop", 1], ["drop", 2]]
                + [x for i in range(12) for x in (["acq", "1", "fut"], ["drop", 3 + i])]},
        # limiter/tests.rs immediate_permit_consumption, first part
        {"burst": "5", "refresh": str(r), "start": "0", "kind": "unit",
         "ops": [x for i in range(5) for x in (["acq", "1", "fut"], ["drop", i])] + [["acq", "3", "fut"], ["adv", str(3 * r - 1)], ["adv", "1"], ["drop", 5]]},
        # delayed consumption: reserved permits refresh only once dropped
        {"burst": "20", "refresh": "1000000000", "start": "0", "kind": "unit",
         "ops": [["acq", "19", "fut"], ["acq", "1", "fut"], ["drop", 1], ["acq", "1", "fut"], ["adv", "1000000000"], ["drop", 2],
                 ["acq", "5", "ctx"], ["adv", "30000000000"], ["drop", 0], ["adv", "999999999"], ["adv", "1"], ["adv", "5000000000"]]},
        # cancel of the lock holder while it sleeps, with a waiter behind it
        {"burst": "2", "refresh": "10", "start": "3", "kind": "unit",
         "ops": [["acq", "2", "fut"], ["drop", 0], ["acq", "2", "ctx"], ["acq", "1", "fut"], ["adv", "5"], ["cancel", 1], ["adv", "4"], ["adv", "1"], ["adv", "100"]]},
        # burst < permits blocks for ever, refresh <= 0 disables the limit
        {"burst": "3", "refresh": "0", "start": "7", "kind": "unit", "ops": [["acq", "3", "ctx"], ["acq", "2", "fut"], ["acq", "4", "ctx"], ["drop", 0], ["cancel", 2]]},
        {"burst": "3", "refresh": "-5", "start": "7", "kind": "unit", "ops": [["acq", "3", "ctx"], ["acq", "4", "fut"], ["adv", "5"], ["acq", "1", "fut"]]},
        {"burst": str(USIZE_MAX), "refresh": "1000000000000000000", "start": "0", "kind": "unit",
         "ops": [["acq", str(USIZE_MAX), "fut"], ["drop", 0], ["acq", "1", "fut"], ["adv", "1000000000000000000"], ["acq", str(USIZE_MAX), "ctx"], ["adv", "1000000000000000"], ["cancel", 2]]},
    ]


def gen_mux_case(rng):
    """Two real muxes (or a real mux against a raw flooding peer) with rate limited stream queues."""
    def rate():
        return [str(rng.choice([1, 1, 2, 3, 5])), str(rng.choice([3, 10, 10, 25, 100, 1000]))]
    flood = rng.chance(1, 3)
    ra, rb = rate(), rate()
    if not flood and rng.chance(1, 4):
        ra = [str(USIZE_MAX), "0"]   # one side unlimited (Rate::INF)
    unit = int(rb[1])
    advs = []
    for _ in range(rng.range(8, 40)):
        advs.append(str(rng.choice([1, unit // 2 + 1, unit, unit, unit - 1, 2 * unit, unit * rng.range(1, 6), rng.range(1, 3 * unit)])))
    holds = lambda: [str(rng.choice([0, 0, 1, unit // 2, unit, 3 * unit])) for _ in range(rng.range(1, 3))]
    c = {"mode": "flood" if flood else "pair", "ma": rng.range(1, 4), "mb": rng.range(1, 4), "ra": ra, "rb": rb,
         "na": rng.range(1, 5), "nb": rng.range(1, 5), "hold_a": holds(), "hold_b": holds(), "advs": advs,
         "rounds": rng.range(5, 60), "kind": "mux-flood" if flood else "mux-pair"}
    return c


def mux_predicate(c, o):
    """Per side: streams handed to the application (one OPEN each) in any window within that side's own
    rate; simultaneously open streams within min(ma, mb)."""
    bad = []
    if "panic" in o:
        return [{"failed": "mux harness panicked: " + o["panic"]}]
    n = min(c["ma"], c["mb"])
    for side, rate in ((0, c["ra"]), (1, c["rb"])):
        burst, refresh = int(rate[0]), int(rate[1])
        cur = 0
        opens = []
        for e in o["events"]:
            if e[0] != side:
                continue
            cur += e[1]
            if e[1] == 1:
                opens.append((int(e[2]), 1))
            if cur > n:
                bad.append({"failed": f"side {side}: {cur} transient streams open at once > min(local, peer) limit {n}", "at": e[2]})
                break
        if refresh > 0:
            w = window_violation(opens, burst, refresh)
            if w:
                bad.append({"failed": f"side {side}: {w['permits']} streams opened in [{w['from']},{w['to']}] > burst + T/refresh + 1 = {w['bound']}", "window": w})
    return bad


def gen_rpc_case(rng):
    """Real rpc::Service (hook verif::rpc): cooperative client, raw flooding peer, raw withholding peer."""
    n = rng.choice([1, 2, 5])
    refresh = rng.choice([3, 10, 10, 25, 100, 1000])
    rs = [str(rng.choice([1, 1, 2, 3, 5])), str(refresh)]
    k = rng.below(10)
    mode = "pair" if k < 5 else ("flood" if k < 8 else "withhold")
    rc = [str(USIZE_MAX), "0"] if rng.chance(1, 2) else [str(rng.choice([1, 2, 5])), str(rng.choice([1, 3, 10, 100]))]
    unit = refresh
    advs = [str(rng.choice([1, unit // 2 + 1, unit, unit, unit - 1, 2 * unit, unit * rng.range(1, 6), rng.range(1, 3 * unit)]))
            for _ in range(rng.range(8, 30))]
    c = {"mode": mode, "n": n, "rs": rs, "rc": rc, "tasks": rng.range(1, 7),
         "hold": str(rng.choice([0, 0, 1, unit // 2, unit, 3 * unit])), "rounds": rng.range(5, 40), "advs": advs,
         "kind": "rpc-" + mode}
    if mode == "withhold":
        c["warm"] = [str(unit)] * (n + int(rs[0]) + 2)   # long enough to open every stream and refill the bucket
    return c


def gen_idle_rpc_case(rng):
    """Directed (seed C15): INFLIGHT >= 2, finite rate; the raw peer idles (answers no OPEN) for more than
    (INFLIGHT + burst) refresh periods while the server's streams sit in the OPEN handshake, then answers all of them
    and floods requests at once. Oracle: handler starts in any window <= burst + T/refresh + 1 (no stream is opened
    before the release here, so the strict bound applies)."""
    n = rng.choice([2, 5, 5])
    burst = rng.range(1, 6)
    refresh = rng.choice([3, 10, 25, 100, 1000, 10 ** 9])
    periods = n + burst + rng.range(2, 6)
    warm = [str(refresh)] * periods if rng.chance(1, 2) else [str(refresh * periods + rng.below(refresh))]
    advs = [str(rng.choice([1, refresh // 2 + 1, refresh, refresh - 1, 2 * refresh])) for _ in range(rng.range(3, 10))]
    return {"mode": "idle", "n": n, "rs": [str(burst), str(refresh)], "rc": [str(USIZE_MAX), "0"], "tasks": 1,
            "hold": str(rng.choice([0, 0, 0, 1, refresh])), "rounds": burst + n + rng.range(3, 8), "warm": warm, "advs": advs,
            "kind": "rpc-idle"}


def gen_idle_mux_case(rng):
    """The same mechanism at mux level: B's reusable streams (>= 2, finite rate) wait in the OPEN handshake while the raw
    peer idles, then every handshake completes at once. Oracle: streams handed over in any window <= burst + T/refresh + 1."""
    n = rng.range(2, 4)
    burst = rng.range(1, 5)
    refresh = rng.choice([3, 10, 25, 100, 1000])
    periods = n + burst + rng.range(2, 6)
    warm = [str(refresh)] * periods if rng.chance(1, 2) else [str(refresh * periods + rng.below(refresh))]
    advs = [str(rng.choice([1, refresh // 2 + 1, refresh, refresh - 1, 2 * refresh])) for _ in range(rng.range(3, 10))]
    return {"mode": "flood", "ma": n + rng.below(2), "mb": n, "ra": ["1", "1"], "rb": [str(burst), str(refresh)],
            "na": 0, "nb": rng.range(n, n + 2), "hold_a": ["0"], "hold_b": [str(rng.choice([0, 0, 1]))], "advs": advs,
            "warm": warm, "rounds": burst + n + rng.range(3, 8), "kind": "mux-idle"}


def rpc_predicate(c, o):
    """Handler starts (HandlerLog) in any window within the server's rate; running handlers <= INFLIGHT.
    Returns (failures, strict_excess) where strict_excess describes a window of the withhold scenario that
    exceeds burst + T/refresh + 1 while staying within + INFLIGHT."""
    if "panic" in o:
        return [{"failed": "rpc harness panicked: " + o["panic"]}], None
    bad, excess = [], None
    burst, refresh, n = int(c["rs"][0]), int(c["rs"][1]), c["n"]
    cur = 0
    starts = []
    for e in o["events"]:
        cur += e[0]
        if e[0] == 1:
            starts.append((int(e[1]), 1))
        if cur > n:
            bad.append({"failed": f"{cur} handlers running at once > INFLIGHT {n}", "at": e[1]})
            break
    w = window_violation(starts, burst, refresh)
    if w and c["mode"] != "withhold":
        bad.append({"failed": f"{w['permits']} handler starts in [{w['from']},{w['to']}] > burst + T/refresh + 1 = {w['bound']}", "window": w})
    elif w:
        # withhold-style run: the streams were opened (one permit each) before the peer released the requests at
        # `release`; only windows containing that instant may exceed the strict bound, and by at most INFLIGHT.
        excess = w
        release = sum(int(x) for x in c.get("warm", []))
        w2 = window_violation(starts, burst + n, refresh)
        if w2:
            bad.append({"failed": f"{w2['permits']} handler starts in [{w2['from']},{w2['to']}] > burst + T/refresh + 1 + INFLIGHT = {w2['bound']}", "window": w2})
        w3 = window_violation([x for x in starts if x[0] > release], burst, refresh)
        if w3:
            bad.append({"failed": f"{w3['permits']} handler starts in [{w3['from']},{w3['to']}] (no stream opened before the window: after the release at {release}) > burst + T/refresh + 1 = {w3['bound']}", "window": w3})
    return bad, excess


def coq_rpc_trace(c, o):
    """The observed HandlerLog as a case of Model.RpcServe.accept_serve. eager = the peer is the raw byte writer,
    which sends its OPENs ahead of time (flood, withhold); a real client opens when it calls (pair)."""
    evs = coq_list([f"({coq_z(e[1])}, {'true' if e[0] == 1 else 'false'})" for e in o["events"]])
    eager = "false" if c["mode"] in ("pair", "idle") else "true"
    return f"({coq_z(c['rs'][0])}, {coq_z(c['rs'][1])}, {c['n']}%nat, {eager}, {evs})"


def rpc_expected(o):
    """[schedule found, events consumed, schedule reproduces the observed start log, starts, handlers running at the end]"""
    nst = sum(1 for e in o["events"] if e[0] == 1)
    return [1, len(o["events"]), 1, nst, sum(e[0] for e in o["events"])]


def coq_trace(c, o, side):
    """Observed (time, open?) events of one side as a Coq term for Model.Limiter.accept_trace."""
    rate = c["ra"] if side == 0 else c["rb"]
    evs = coq_list([f"({coq_z(e[2])}, {'true' if e[1] == 1 else 'false'})" for e in o["events"] if e[0] == side])
    n = min(c["ma"], c["mb"])
    return f"({coq_z(rate[0])}, {coq_z(rate[1])}, {n}%nat, {evs})"


# ---------------------------------------------------------------------------
# translation

def coq_case(c):
    ops = []
    for o in c["ops"]:
        if o[0] == "acq":
            ops.append(f"OAcq {coq_z(o[1])}")
        elif o[0] == "cancel":
            ops.append(f"OCancel {int(o[1])}%nat")
        elif o[0] == "drop":
            ops.append(f"ODrop {int(o[1])}%nat")
        elif o[0] == "advx":
            ops.append(f"OAdvX {coq_z(o[1])}")
        else:
            ops.append(f"OAdv {coq_z(o[1])}")
    return f"({coq_z(c['burst'])}, {coq_z(c['refresh'])}, {coq_z(c['start'])}, {coq_list(ops)})"


def impl_obs(o):
    if "panic" in o:
        return [1, 99]
    return [0, [[int(g[0]), int(g[1])] for g in o["grants"]], [int(s) for s in o["status"]], int(o["now"])]


# ---------------------------------------------------------------------------
# predicates (on the implementation's output alone)

def acq_table(c):
    """(permits, issue time) per acquire, from the script."""
    t = int(c["start"])
    tab = []
    for o in c["ops"]:
        if o[0] == "acq":
            tab.append((int(o[1]), t))
        elif o[0] in ("adv", "advx"):
            t += int(o[1])
    return tab


def window_violation(evs, burst, refresh):
    """evs: list of (time, permits). Returns a violating closed window [t_i, t_j] or None."""
    groups = {}
    for (t, p) in evs:
        groups[t] = groups.get(t, 0) + p
    ts = sorted(groups)
    for i in range(len(ts)):
        s = 0
        for j in range(i, len(ts)):
            s += groups[ts[j]]
            T = ts[j] - ts[i]
            if s > burst + T // refresh + 1:
                return {"from": ts[i], "to": ts[j], "permits": s, "bound": burst + T // refresh + 1}
    return None


def predicate(c, o):
    bad = []
    if "panic" in o:
        return [{"failed": "limiter panicked: " + o["panic"]}]
    burst, refresh = int(c["burst"]), int(c["refresh"])
    tab = acq_table(c)
    grants = [(int(g[0]), int(g[1])) for g in o["grants"]]
    status = o["status"]
    # never granted: more permits than the burst; cancelled calls
    for (k, t) in grants:
        if tab[k][0] > burst:
            bad.append({"failed": f"acquire #{k} of {tab[k][0]} permits > burst {burst} was granted"})
        if status[k] == 3:
            bad.append({"failed": f"acquire #{k} both granted and cancelled"})
        if t < tab[k][1]:
            bad.append({"failed": f"acquire #{k} granted at {t} before it was issued at {tab[k][1]}"})
    if refresh <= 0:
        for k, (p, t) in enumerate(tab):
            if p <= burst and (k, t) not in grants:
                bad.append({"failed": f"refresh <= 0 but acquire #{k} was not granted at once"})
        return bad
    # FIFO
    for a, b in zip(grants, grants[1:]):
        if not (a[0] < b[0]):
            bad.append({"failed": f"grant order: acquire #{b[0]} served after later call #{a[0]}"})
        if not (a[1] <= b[1]):
            bad.append({"failed": "grant times decrease"})
    # reserved <= burst at all times; consumption only of granted permits
    heldsum = 0
    for e in o["events"]:
        kind, k = e[0], e[1]
        if kind == 0:
            heldsum += tab[k][0]
            if heldsum > burst:
                bad.append({"failed": f"{heldsum} permits reserved at once > burst {burst}", "at": e[2]})
        elif kind == 1:
            heldsum -= tab[k][0]
    # window bound on grants and on consumption
    gev = [(t, tab[k][0]) for (k, t) in grants]
    w = window_violation(gev, burst, refresh)
    if w:
        bad.append({"failed": f"window bound: {w['permits']} permits granted in [{w['from']},{w['to']}] > burst + T/refresh + 1 = {w['bound']}", "window": w})
    dev = [(int(e[2]), tab[e[1]][0]) for e in o["events"] if e[0] == 1]
    w = window_violation(dev, burst, refresh)
    if w:
        bad.append({"failed": f"window bound: {w['permits']} permits consumed in [{w['from']},{w['to']}] > burst + T/refresh + 1 = {w['bound']}", "window": w})
    return bad


def twin_predicate(c, o, ct, ot):
    """cancel consumes nothing: ct = c + (acq; cancel) of acquire `knew`; if that acquire was cancelled
    (not granted on the spot) everything else must be as in c."""
    if "panic" in o or "panic" in ot:
        return []
    knew = ct["twin_of"]
    if ot["status"][knew] != 3:
        return []
    ren = lambda k: k if k < knew else k - 1
    g2 = [[ren(int(g[0])), g[1]] for g in ot["grants"] if int(g[0]) != knew]
    g1 = [[int(g[0]), g[1]] for g in o["grants"]]
    s2 = [s for i, s in enumerate(ot["status"]) if i != knew]
    if g1 != g2 or s2 != o["status"]:
        return [{"failed": f"cancel consumed something: inserting acquire({ct['ops'][[i for i,x in enumerate(ct['ops']) if x[0]=='acq'][knew]][1]}) + cancel (acquire #{knew}) changed the run",
                 "grants_without": g1, "grants_with": g2}]
    return []


def nontrivial(c, o):
    """Some acquire had to wait: granted later than issued, still pending at the end, or cancelled while waiting."""
    if "panic" in o:
        return False
    tab = acq_table(c)
    for g in o["grants"]:
        if int(g[1]) > tab[int(g[0])][1]:
            return True
    return any(s in (0, 3) for s in o["status"])


# ---------------------------------------------------------------------------

def build_cases(rng, tier):
    n = 420 if tier == "quick" else 26000
    nfl = 20 if tier == "quick" else 600
    cases = corpus_cases()
    twins = []   # (index of base, index of twin)
    for i in range(n):
        nops = rng.range(4, 45) if tier == "quick" or rng.chance(9, 10) else rng.range(45, 140)
        c = gen_case(rng, nops)
        cases.append(c)
        if rng.chance(1, 3):
            cases.append(make_twin(rng, c))
            twins.append((len(cases) - 2, len(cases) - 1))
    for i in range(nfl):
        cases.append(gen_flood(rng, rng.range(3, 25)))
    for i in range(80 if tier == "quick" else 3000):
        cases.append(gen_late_wakeup(rng))
    return cases, twins


IMPL_TIMEOUT = 600   # seconds per run_impl call; each case additionally has a 20 s watchdog inside the binary


def run_impl_retry(binname, cases):
    """Runs the cases; a case the binary reports as {"hang": true} (per-case watchdog / bounded drain loops)
    is retried once, alone. Returns (outs, hung) where hung = indices that hang again (machinery failure
    of that case: never a silent pass). Outputs of hung cases are {"hang": true}."""
    outs = common.run_impl(binname, cases, "dev", timeout=IMPL_TIMEOUT)
    redo = [i for i, o in enumerate(outs) if o.get("hang")]
    hung = []
    for n, i in enumerate(redo):
        if n >= 6:          # systemic: do not spend more than ~2 min on retries
            hung.append(i)
            continue
        o2 = common.run_impl(binname, [cases[i]], "dev", timeout=IMPL_TIMEOUT)[0]
        if o2.get("hang") or o2.get("crash") and "timeout" in str(o2.get("stderr")):
            hung.append(i)
        else:
            outs[i] = o2
    return outs, hung


def strip(c):
    return {k: c[k] for k in ("burst", "refresh", "start", "ops")}


def run(rep):
    tier, rng = rep.tier, Rng(rep.seed)
    cov = rep.cov
    broken = []
    # translator: the pure arithmetic/bit-level functions are regenerated from the Rust source on every run and must
    # still equal the hand model (Properties/*Gen.v)
    import rust2coq
    translator, gen_files = rust2coq.step(["limiter"], ["theories/Properties/C15Gen.v"], broken)
    po = common.proof_obligations(PROP_FILES + gen_files)
    if not po["ok"]:
        broken.append("Coq obligations of Properties/C15.v: " + (po["log_tail"] or str(po["hygiene_problems"] or po["bad_axioms"])))
    ok, out = common.cargo_build(["limiter", "limiter_mux", "limiter_rpc"], "dev")
    if not ok:
        raise common.MachineryError("cargo build failed: " + out[-2000:])
    cases, twins = build_cases(rng, tier)
    cp = os.path.join(common.CORPUS, "C15.json")
    if os.path.exists(cp):
        cases = [dict(c, kind="corpus") for c in json.load(open(cp))] + cases
        off = len(json.load(open(cp)))
        twins = [(a + off, b + off) for (a, b) in twins]
    outs, hung = run_impl_retry("limiter", [strip(c) for c in cases])
    hangs = [{"binary": "limiter", "case": strip(cases[i])} for i in hung]
    coq_cases, pred_fail, kinds = [], [], {}
    distinct = set()
    nacq = ngr = ncancel = 0
    for i, (c, o) in enumerate(zip(cases, outs)):
        if "skipped" in o or o.get("hang"):
            continue
        if "crash" in o:
            # the process died: a panic that cannot unwind (e.g. inside Permit::drop) aborts the harness
            pred_fail.append({"case": strip(c), "impl": o, "failed": "the limiter aborted the process (panic that cannot unwind): " + str(o.get("stderr", ""))[-200:]})
            continue
        kinds[c["kind"]] = kinds.get(c["kind"], 0) + 1
        coq_cases.append((i, coq_case(c), common.to_obsv(impl_obs(o))))
        for b in predicate(c, o):
            pred_fail.append({"case": strip(c), "impl": o, **b})
        if nontrivial(c, o):
            distinct.add(json.dumps(strip(c)))
        if "panic" not in o:
            nacq += len(o["status"])
            ngr += len(o["grants"])
            ncancel += sum(1 for s in o["status"] if s == 3)
    twin_checked = 0
    for (a, b) in twins:
        if any(k in outs[x] for x in (a, b) for k in ("crash", "skipped", "hang")):
            continue
        f = twin_predicate(cases[a], outs[a], cases[b], outs[b])
        if "panic" not in outs[b] and outs[b]["status"][cases[b]["twin_of"]] == 3:
            twin_checked += 1
        for x in f:
            pred_fail.append({"case": strip(cases[b]), "base_case": strip(cases[a]), "impl": outs[b], **x})
    sample_ids = [1, 2, 3, 7, 11]
    mm, samp = common.run_model_cases("C15", "From EC Require Import Model.Limiter.", "Model.Limiter.run_case",
                                      coq_cases, shard_size=(40 if tier == "quick" else 400), sample_ids=sample_ids)
    if mm:
        broken.append(f"correspondence vh limiter vs Model.Limiter.run_case: {len(mm)} disagreeing scripts")
    # ---- RPC half at mux level: real Mux + StreamQueue limiters, trace acceptance by the StreamQueue model
    nmux = 60 if tier == "quick" else 1500
    mcases = [gen_mux_case(rng) for _ in range(nmux)] + [gen_idle_mux_case(rng) for _ in range(12 if tier == "quick" else 300)]
    mouts, mhung = run_impl_retry("limiter_mux", mcases)
    hangs += [{"binary": "limiter_mux", "case": mcases[i]} for i in mhung]
    mux_fail, traces, mux_opens = [], [], 0
    for i, (c, o) in enumerate(zip(mcases, mouts)):
        if "skipped" in o or o.get("hang"):
            continue
        if "crash" in o:
            mux_fail.append({"case": c, "impl": o, "failed": "the mux harness process aborted: " + str(o.get("stderr", ""))[-200:]})
            continue
        kinds[c["kind"]] = kinds.get(c["kind"], 0) + 1
        for b in mux_predicate(c, o):
            mux_fail.append({"case": c, "impl": o, **b})
        if "panic" in o:
            continue
        mux_opens += sum(1 for e in o["events"] if e[1] == 1)
        for side in ((1,) if c["mode"] == "flood" else (0, 1)):
            evs = [e for e in o["events"] if e[0] == side]
            nop = sum(1 for e in evs if e[1] == 1)
            traces.append((len(traces), coq_trace(c, o, side), common.to_obsv([1, len(evs), nop]), i, side))
    tmm, tsamp = common.run_model_cases("C15mux", "From EC Require Import Model.Limiter.", "Model.Limiter.accept_trace",
                                        [(t[0], t[1], t[2]) for t in traces], shard_size=(8 if tier == "quick" else 100), sample_ids=[0, 1])
    if tmm:
        broken.append(f"trace acceptance vh limiter_mux vs Model.Limiter.accept_trace: {len(tmm)} observed traces are not runs of the StreamQueue model")
    if mux_fail and not pred_fail:
        mux_fail.sort(key=lambda f: len(f["impl"].get("events", [])))
        rep.violation("stream opening violates C15 on the implementation (mux level): " + mux_fail[0]["failed"],
                      {"failing_input": mux_fail[0], "more": [f["failed"] for f in mux_fail[1:6]], "broken": broken})
    elif tmm and not pred_fail and not mm:
        k = sorted(tmm)[0]
        t = traces[k]
        rep.violation("C15 no longer shown to hold: " + broken[-1],
                      {"broken": broken, "first_disagreement": {"case": mcases[t[3]], "side": t[4], "impl": mouts[t[3]], "model_obs": tmm[k],
                                                                "meaning": "[accepted, events consumed before rejection, opens]"}},
                      found_input=False)
    # ---- RPC half, rpc::Service itself (hook verif::rpc): handler starts and concurrency, trace acceptance
    nrpc = 60 if tier == "quick" else 1500
    rcases = [gen_rpc_case(rng) for _ in range(nrpc)] + [gen_idle_rpc_case(rng) for _ in range(12 if tier == "quick" else 300)]
    routs, rhung = run_impl_retry("limiter_rpc", rcases)
    hangs += [{"binary": "limiter_rpc", "case": rcases[i]} for i in rhung]
    rpc_fail, rtraces, rpc_starts, excesses = [], [], 0, []
    for i, (c, o) in enumerate(zip(rcases, routs)):
        if "skipped" in o or o.get("hang"):
            continue
        if "crash" in o:
            rpc_fail.append({"case": c, "impl": o, "failed": "the rpc harness process aborted: " + str(o.get("stderr", ""))[-200:]})
            continue
        kinds[c["kind"]] = kinds.get(c["kind"], 0) + 1
        b, ex = rpc_predicate(c, o)
        for x in b:
            rpc_fail.append({"case": c, "impl": o, **x})
        if ex:
            excesses.append({"case": c, "window": ex})
        if "panic" in o:
            continue
        nst = sum(1 for e in o["events"] if e[0] == 1)
        rpc_starts += nst
        # every HandlerLog (withhold probe included) must be the handler-start log of a schedule of the serve model
        rtraces.append((len(rtraces), coq_rpc_trace(c, o), common.to_obsv(rpc_expected(o)), i))
    wh_ids = [t[0] for t in rtraces if rcases[t[3]]["mode"] == "withhold"][:1]
    rmm, rsamp = common.run_model_cases("C15rpc", "From EC Require Import Model.RpcServe.", "Model.RpcServe.accept_serve",
                                        [(t[0], t[1], t[2]) for t in rtraces], shard_size=(8 if tier == "quick" else 100), sample_ids=[0] + wh_ids)
    if rmm:
        broken.append(f"trace acceptance vh limiter_rpc vs Model.RpcServe.accept_serve: {len(rmm)} observed HandlerLogs are not handler-start logs of a schedule of the rpc::Server::serve model")
    # the withholding peer: strict bound exceeded by at most INFLIGHT (finding); strict only once registered
    known = common.load_known_findings()
    registered = [e for e in known.get("open", []) if "property=C15" in e]
    if excesses and registered:
        rep.known(registered[0].split("property=C15", 1)[1].strip())
    elif excesses:
        rpc_fail.append({"case": excesses[0]["case"], "impl": {}, "window": excesses[0]["window"],
                         "failed": f"{excesses[0]['window']['permits']} handler starts in [{excesses[0]['window']['from']},{excesses[0]['window']['to']}] > burst + T/refresh + 1 = {excesses[0]['window']['bound']} (peer withheld the requests of pre-opened streams; not registered in known_findings.json)"})
    if rpc_fail and not pred_fail and not mux_fail:
        rpc_fail.sort(key=lambda f: len(f["impl"].get("events", [])))
        rep.violation("rpc::Service violates C15 on the implementation: " + rpc_fail[0]["failed"],
                      {"failing_input": rpc_fail[0], "more": [f["failed"] for f in rpc_fail[1:6]], "broken": broken})
    elif rmm and not pred_fail and not mux_fail and not mm and not tmm:
        k = sorted(rmm)[0]
        t = rtraces[k]
        rep.violation("C15 no longer shown to hold: " + broken[-1],
                      {"broken": broken, "first_disagreement": {"case": rcases[t[3]], "impl": routs[t[3]], "model_obs": rmm[k],
                                                                "meaning": "[schedule found, events consumed before rejection, schedule reproduces the start log, starts, running at end]"}},
                      found_input=False)
    if hangs:
        rep.violation(f"machinery failure: {len(hangs)} case(s) did not terminate within the per-case watchdog (20 s real time) even when retried alone "
                      f"(binary {hangs[0]['binary']}): the code under test or the harness does not terminate on this input",
                      {"failing_input": hangs[0], "more": hangs[1:4], "broken": broken})
    if pred_fail:
        pred_fail.sort(key=lambda f: len(f["case"]["ops"]))
        rep.violation("rate limiter violates C15 on the implementation: " + pred_fail[0]["failed"],
                      {"failing_input": pred_fail[0], "more": [f["failed"] for f in pred_fail[1:6]], "broken": broken})
    elif broken and not mux_fail and not rpc_fail and not (tmm and not mm) and not (rmm and not mm and not tmm):
        first = None
        if mm:
            i = min(mm, key=lambda i: len(cases[i]["ops"]))
            first = {"case": strip(cases[i]), "impl": outs[i], "model_obs": mm[i]}
        rep.violation("C15 no longer shown to hold: " + "; ".join(broken)[:600],
                      {"broken": broken, "first_disagreement": first}, found_input=False)
    cov.update({
        "obligations": po["obligations"] + 3,
        "discharged": po["discharged"] + (0 if mm else 1) + (0 if tmm else 1) + (0 if rmm else 1),
        "checker_cmd": "./coqmake theories/Properties/C15.vo (make, coqc 8.16.1) + coqc on generated build/cases/C15/cases_*.v (vm_compute of Model.Limiter.run_case vs the harness output)",
        "trusted_base": common.standard_trusted_base([
            "H-ATOM: tokio Mutex is FIFO-fair, watch::Sender::send_modify / wait_for critical sections and std Mutex sections are atomic (the grain of the step relation)",
            "ctx::ManualClock is the clock (the real clock enters only through ctx.now() / sleep_until_deadline); clock readings stay below the overflow point of time::Instant",
            "RPC half: the StreamQueue model (permit per OPEN) is tied to mux/reusable_stream.rs by trace acceptance of real Mux runs (hooks VMux/VQueue); rpc::Server::serve is driven through the hook verif::rpc (VRpc<N>, ping wire messages); its HandlerLogs are accepted by the serve model Model/RpcServe.v (which contains the StreamQueue model)",
        ] + translator["trusted"]),
        "translator": translator,
        "theorems": po["theorems"], "axioms": po["axioms"],
        "evaluations": len(cases) + len(mcases) + len(rcases),
        "rpc_cases": len(rcases), "rpc_handler_starts": rpc_starts, "rpc_traces": len(rtraces), "rpc_traces_accepted_by_model": len(rtraces) - len(rmm),
        "rpc_predicate_failures": len(rpc_fail),
        "withhold_probe": {"cases_exceeding_strict_bound": len(excesses), "registered_as_known_finding": bool(registered),
                           "example": excesses[0] if excesses else None,
                           "meaning": "a raw peer opens every INFLIGHT stream, withholds the requests while the bucket refills, then sends them at once: "
                                      "handler starts in a window exceed burst + T/refresh + 1 (the limiter bounds OPENs, not handler starts); "
                                      "reported as KNOWN-FINDING when registered in known_findings.json, VIOLATION otherwise; beyond burst + T/refresh + 1 + INFLIGHT, or a strict excess in a window after the release instant, is always a VIOLATION"},
        "mux_cases": len(mcases), "mux_traces_accepted_by_model": len(traces) - len(tmm), "mux_traces": len(traces), "mux_streams_opened": mux_opens,
        "mux_predicate_failures": len(mux_fail),
        "distinct_nontrivial": len(distinct),
        "rule": "late wake-up family (a waiter parked on an empty bucket, the clock jumps 1-6 periods past its deadline with nothing polled (advx), a held permit is dropped at the later tick before the waiter runs, then a burst of acquires; burst 2-12, refresh 1 ns-1 s, held 1-3, wanted 1-3; 1/6 controls with normal polling); 1 in 6 clock advances of the random scripts is of the no-poll kind as well; scripts of 4-45 (thorough: up to 140) ops over one Limiter: acquire(p) with p in {1, 0, 1..burst, burst, burst+1, usize::MAX} (1/3 cancellable through their ctx, 2/3 by dropping the future), cancel k, drop k (live targets 6/7, arbitrary 1/7), clock advances {0,1,r-1,r,r+1,k*r,sub-tick,huge}; burst in {0,1..30,2^k,usize::MAX}, refresh in {1..10 ns, ms..s, random, 10^18, 0, negative}, start offset; + flood scripts (back-to-back acquire(1), consume at once) + twin scripts (inserted acquire+cancel) + mux cases (1-3 x 1-3 streams, 1-4 app tasks per side looping open/hold/drop, rates burst 1-5 / refresh 3-1000 ns or INF, pair or raw flood peer) + rpc::Service cases (INFLIGHT 1/2/5, server burst 1-5 / refresh 3-1000 ns, client with 1-6 tasks calling back to back, raw flood peer, raw withholding peer, handler hold 0..3 refresh) + directed idle-peer family at mux and rpc level (>= 2 reusable streams, finite rate, the raw peer answers no OPEN for more than INFLIGHT + burst periods, then answers all and floods: opens / handler starts at the release instant must stay <= burst + 1); non-trivial = distinct scripts in which some acquire had to wait (granted later than issued, pending at the end, or cancelled)",
        "input_distribution": dict(kinds, acquires=nacq, grants=ngr, cancelled=ncancel, twin_pairs=len(twins), twin_pairs_with_cancelled_wait=twin_checked),
        "samples": [{"case": strip(cases[i]), "impl": outs[i], "model_obs": samp.get(i)} for i in sample_ids if i < len(cases)]
                   + [{"mux_case": mcases[t[3]], "side": t[4], "impl": mouts[t[3]], "model_accept_trace": tsamp.get(t[0])} for t in traces[:2]]
                   + [{"rpc_case": rcases[t[3]], "impl": routs[t[3]], "model_accept_serve": rsamp.get(t[0])} for t in rtraces if t[0] in ([0] + wh_ids)],
        "correspondence_mismatches": len(mm), "predicate_failures": len(pred_fail), "hung_cases": len(hangs),
        "partial": "proved for the limiter (all step sequences of the atomic-step model, which the scripts refine) and for the permit-per-OPEN model of a StreamQueue. The RPC half is tied to the code by runs of real Mux pairs and of the real rpc::Service (Server::serve / Client::call through the hook verif::rpc; cooperative multi-task client, raw flooding peer, raw withholding peer) under ManualClock: window and concurrency predicates on stream opens / handler starts + acceptance of the observed traces by the models. rpc::Server::serve is modelled (Model/RpcServe.v: per-slot call state on top of the StreamQueue, adversarial peer = arbitrary schedule) and proved for every schedule: handlers running <= INFLIGHT, OPENs per window <= burst + T/refresh + 1, handler starts per window <= burst + T/refresh + 1 + INFLIGHT (tight), and the strict bound for handler starts is refuted by the withholding-peer schedule (C15_strict_handler_start_bound_refuted) - exactly the open known finding (the limiter bounds OPENs, not handler starts; see coverage.withhold_probe, proposed_fixes/C15-1.diff). Every HandlerLog of the real rpc::Service, withhold probe included, is checked to be the handler-start log of a schedule of that model (accept_serve recomputes the schedule with vexec; C15_accepted_trace_bounds). Still by reading only: that serve's task structure is what the model says (a hand transcription, like every model here), handler panics, metrics. Concurrency <= INFLIGHT relies on C14 open_streams_bounded for the number of reusable streams",
    })
    rep.assumptions += ["H-ATOM (fair tokio Mutex, atomic watch/Mutex critical sections)",
                        "monotone clock; readings below time::Instant overflow"]


def replay(path):
    d = json.load(open(path))
    fi = d.get("failing_input") or d.get("first_disagreement")
    if not fi:
        print("no concrete input in replay file:", d.get("broken"))
        return 1
    c = fi["case"]
    common.cargo_build(["limiter", "limiter_mux"], "dev")
    common.cargo_build(["limiter_rpc"], "dev")
    if "mode" in c and "rs" in c:
        o = common.run_impl("limiter_rpc", [c], "dev", timeout=IMPL_TIMEOUT)[0]
        print("case:", json.dumps(c))
        print("impl:", json.dumps(o))
        if not (o.get("hang") or "crash" in o or "panic" in o):
            print("predicate:", rpc_predicate(c, o))
            mm, samp = common.run_model_cases("C15rpc", "From EC Require Import Model.RpcServe.", "Model.RpcServe.accept_serve",
                                              [(0, coq_rpc_trace(c, o), common.to_obsv(rpc_expected(o)))], sample_ids=[0])
            print("model accept_serve [schedule found, events consumed, reproduces the start log, starts, running at end]:", samp, "expected", rpc_expected(o))
        return 0
    if "mode" in c:
        o = common.run_impl("limiter_mux", [c], "dev", timeout=IMPL_TIMEOUT)[0]
        print("case:", json.dumps(c))
        print("impl:", json.dumps(o))
        if o.get("hang") or "crash" in o or "panic" in o:
            return 0
        print("predicate:", mux_predicate(c, o))
        trs = [(side, coq_trace(c, o, side), common.to_obsv([1, 0, 0])) for side in ((1,) if c["mode"] == "flood" else (0, 1))]
        mm, samp = common.run_model_cases("C15mux", "From EC Require Import Model.Limiter.", "Model.Limiter.accept_trace", trs, sample_ids=[0, 1])
        print("model accept_trace per side [accepted, events consumed, opens]:", samp)
        return 0
    o = common.run_impl("limiter", [c], "dev", timeout=IMPL_TIMEOUT)[0]
    print("case:", json.dumps(c))
    print("impl:", json.dumps(o))
    if o.get("hang") or "crash" in o or "panic" in o:
        return 0
    mm, samp = common.run_model_cases("C15", "From EC Require Import Model.Limiter.", "Model.Limiter.run_case",
                                      [(0, coq_case(c), common.to_obsv(impl_obs(o)))], sample_ids=[0])
    print("model:", samp.get(0))
    print("predicate:", predicate(c, o))
    return 0
