"""Gallina-side intermediate terms of gen/rust2coq.py and their printer.

A Term computes a value, possibly panicking.  Whether a function is rendered in the outcome
monad (`outcome E T`, panics explicit) or as a plain Gallina function is decided after
translation: a term is effectful iff it contains a Bind or a Fail."""


class Ret:
    def __init__(self, e):
        self.e = e


class Fail:
    def __init__(self, kind):
        self.kind = kind


class ErrT:          # Err e   (Rust-level error of a Result-returning function)
    def __init__(self, e):
        self.e = e


class Catch:         # (s, v) := sub run to completion (an Err of sub does not leave the function) ; rest    (state monad "s")
    def __init__(self, v, sub, rest):
        self.v, self.sub, self.rest = v, sub, rest


class MonT:          # a monadic Gallina expression in tail position
    def __init__(self, m, h=False):
        self.m, self.h = m, h


class Bind:          # let* v := m in rest      (m: monadic Gallina expression, a string)
    def __init__(self, v, m, rest, h=False):
        self.v, self.m, self.rest = v, m, rest
        self.h = h       # m is a computation of the state monad (hres) that reads the current state `s`


class SetState:      # the replica state is replaced: let s := e in rest   (state monad only)
    def __init__(self, e, rest):
        self.e, self.rest = e, rest


class BindT:         # v := sub ; rest          (sub: Term)
    def __init__(self, pat, sub, rest):
        self.pat, self.sub, self.rest = pat, sub, rest


class Let:
    def __init__(self, pat, e, rest):
        self.pat, self.e, self.rest = pat, e, rest


class If:
    def __init__(self, c, a, b):
        self.c, self.a, self.b = c, a, b


class Match:
    def __init__(self, scrut, arms):
        self.scrut, self.arms = scrut, arms    # arms: [(pattern string, Term)]


class OBind:         # `e?` in a function returning Option
    def __init__(self, v, e, rest):
        self.v, self.e, self.rest = v, e, rest


class Fold:          # out := fold over lst of (fun st el => body) from init ; rest
    def __init__(self, spat, epat, body, lst, init, rest):
        self.spat, self.epat, self.body, self.lst, self.init, self.rest = spat, epat, body, lst, init, rest


def effectful(t):
    if isinstance(t, Ret):
        return False
    if isinstance(t, (Fail, Bind, ErrT, MonT)):
        return True
    if isinstance(t, (SetState, Catch)):
        return True
    if isinstance(t, BindT):
        return effectful(t.sub) or effectful(t.rest)
    if isinstance(t, Let):
        return effectful(t.rest)
    if isinstance(t, If):
        return effectful(t.a) or effectful(t.b)
    if isinstance(t, Match):
        return any(effectful(a) for _, a in t.arms)
    if isinstance(t, OBind):
        return effectful(t.rest)
    if isinstance(t, Fold):
        return effectful(t.body) or effectful(t.rest)
    raise TypeError(t)


def atom(e):
    """Parenthesises a Gallina expression unless it is an identifier / number / already bracketed."""
    import re
    if re.match(r"^[\w.']+$", e):
        return e
    if e[0] == "(" and e[-1] == ")":
        depth = 0
        for i, c in enumerate(e):
            if c == "(":
                depth += 1
            elif c == ")":
                depth -= 1
                if depth == 0 and i != len(e) - 1:
                    break
        else:
            return e
    if e[0] == "[" and e[-1] == "]" and e.count("[") == 1:
        return e
    return "(" + e + ")"


def lpat(p):
    """pattern in let / fun position"""
    return p if p.replace("_", "a").replace("'", "a").isalnum() else "'" + p


def render(t, mon, ind):
    """Term -> Gallina text. mon: render in the outcome monad."""
    pad = "  " * ind
    if mon in ("h", "s"):
        return render_h(t, ind, mon)
    if isinstance(t, SetState) or (isinstance(t, (Bind, MonT)) and t.h):
        raise TypeError("state-monad term outside a state function")
    if isinstance(t, Ret):
        return pad + (("Ok " + atom(t.e)) if mon else t.e)
    if isinstance(t, Fail):
        assert mon
        return pad + "Panic " + t.kind
    if isinstance(t, ErrT):
        assert mon
        return pad + "Err " + atom(t.e)
    if isinstance(t, MonT):
        assert mon
        return pad + t.m
    if isinstance(t, Bind):
        assert mon
        if isinstance(t.rest, Ret) and t.rest.e == t.v:
            return pad + t.m          # let* v := m in Ok v  ==  m
        return pad + f"let* {t.v} := {t.m} in\n" + render(t.rest, mon, ind)
    if isinstance(t, BindT):
        if isinstance(t.rest, Ret) and t.rest.e == t.pat and (mon or not effectful(t.sub)):
            return render(t.sub, mon, ind)
        if effectful(t.sub):
            assert mon
            return (pad + f"let* {t.pat} :=\n" + render(t.sub, True, ind + 2) + " in\n" + render(t.rest, mon, ind))
        return (pad + f"let {lpat(t.pat)} :=\n" + render(t.sub, False, ind + 2) + " in\n" + render(t.rest, mon, ind))
    if isinstance(t, Let):
        return pad + f"let {lpat(t.pat)} := {t.e} in\n" + render(t.rest, mon, ind)
    if isinstance(t, If):
        return (pad + f"if {t.c}\n" + pad + "then\n" + render(t.a, mon, ind + 1) + "\n" + pad + "else\n"
                + render(t.b, mon, ind + 1))
    if isinstance(t, Match):
        s = pad + f"match {t.scrut} with\n"
        for p, a in t.arms:
            s += pad + f"| {p} =>\n" + render(a, mon, ind + 2) + "\n"
        return s + pad + "end"
    if isinstance(t, OBind):
        f = "obind" if mon else "obind_pure"
        return pad + f"{f} {atom(t.e)} (fun {t.v} =>\n" + render(t.rest, mon, ind + 1) + ")"
    if isinstance(t, Fold):
        if effectful(t.body):
            assert mon
            return (pad + f"let* {t.spat} := fold_m (fun {lpat(t.spat)} {lpat(t.epat)} =>\n" + render(t.body, True, ind + 2)
                    + f")\n{pad}    {atom(t.lst)} {atom(t.init)} in\n" + render(t.rest, mon, ind))
        return (pad + f"let {lpat(t.spat)} := fold_left (fun {lpat(t.spat)} {lpat(t.epat)} =>\n" + render(t.body, False, ind + 2)
                + f")\n{pad}    {atom(t.lst)} {atom(t.init)} in\n" + render(t.rest, mon, ind))
    raise TypeError(t)


def render_h(t, ind, P="h"):
    """Term -> Gallina text in the state monad of Model/Replica.v: hres A = rstate * list effect * outcome rerr A.
    The current state is always the variable `s` (rebound by every hbind continuation and every SetState)."""
    pad = "  " * ind
    if isinstance(t, Ret):
        return pad + P + "ret s " + atom(t.e)
    if isinstance(t, Fail):
        return pad + P + "panic s " + t.kind
    if isinstance(t, ErrT):
        return pad + P + "fail s " + atom(t.e)
    if isinstance(t, MonT):
        return pad + (t.m if t.h else f"{P}lift s {atom(t.m)}")
    if isinstance(t, SetState):
        return pad + f"let s := {t.e} in\n" + render_h(t.rest, ind, P)
    if isinstance(t, Bind):
        m = atom(t.m) if t.h else f"({P}lift s {atom(t.m)})"
        if isinstance(t.rest, Ret) and t.rest.e == t.v:
            return pad + (t.m if t.h else f"{P}lift s {atom(t.m)}")
        return pad + f"{P}bind {m} (fun s {t.v} =>\n" + render_h(t.rest, ind, P) + ")"
    if isinstance(t, BindT):
        if effectful(t.sub):
            return (pad + P + "bind (\n" + render_h(t.sub, ind + 2, P) + f") (fun s {lpat(t.pat)} =>\n" + render_h(t.rest, ind, P) + ")")
        return (pad + f"let {lpat(t.pat)} :=\n" + render(t.sub, False, ind + 2) + " in\n" + render_h(t.rest, ind, P))
    if isinstance(t, Let):
        return pad + f"let {lpat(t.pat)} := {t.e} in\n" + render_h(t.rest, ind, P)
    if isinstance(t, If):
        return (pad + f"if {t.c}\n" + pad + "then\n" + render_h(t.a, ind + 1, P) + "\n" + pad + "else\n" + render_h(t.b, ind + 1, P))
    if isinstance(t, Match):
        s = pad + f"match {t.scrut} with\n"
        for p, a in t.arms:
            s += pad + f"| {p} =>\n" + render_h(a, ind + 2, P) + "\n"
        return s + pad + "end"
    if isinstance(t, Catch) and P == "s":
        return (pad + f"let '(s, {t.v}) :=\n" + render_h(t.sub, ind + 2, P) + " in\n" + render_h(t.rest, ind, P))
    if isinstance(t, Fold) and P == "s":
        return (pad + f"sbind (sfold (fun s {lpat(t.spat)} {lpat(t.epat)} =>\n" + render_h(t.body, ind + 2, P)
                + f")\n{pad}    {atom(t.lst)} s {atom(t.init)}) (fun s {lpat(t.spat)} =>\n" + render_h(t.rest, ind, P) + ")")
    raise TypeError(f"{type(t).__name__} is not available in a state function")


def inline(t):
    """A pure term as one parenthesised Gallina expression."""
    assert not effectful(t)
    if isinstance(t, Ret):
        return t.e
    return "(" + " ".join(render(t, False, 0).split()) + ")"
