"""C17 — task scopes: theorems + trace acceptance (vh scope vs Model.Scope.replay) + predicates.

Random task-tree programs are executed by harness/src/bin/scope.rs with the real
scope::run!/run_blocking! on a multi-thread tokio runtime under seeded perturbation schedules;
every run yields a totally ordered event log.  The Coq model (Model/Scope.v) replays each log
(vm_compute): the log must be the visible part of an execution of the model and the result
returned by the real run!() must be the one the model computes.  Independently the python
predicates below evaluate the property statement on the logs alone."""
import json
import os
import common
from common import Rng, coq_list, coq_bool

PROP_FILES = ["theories/Properties/C17.v"]

# ----------------------------------------------------------------------------------------------
# program generator


class Gen:
    def __init__(self, rng, max_tasks, max_depth):
        self.rng, self.max_tasks, self.max_depth = rng, max_tasks, max_depth
        self.tasks = []

    def new_task(self, scope, main, blocking):
        tid = len(self.tasks)
        self.tasks.append({"scope": tid if scope is None else scope, "main": main, "blocking": blocking, "acts": []})
        return tid

    def body(self, tid, depth, style):
        rng = self.rng
        t = self.tasks[tid]
        scope = t["scope"]
        acts = t["acts"]
        unjoined = []
        nacts = rng.range(0, 5 if depth < self.max_depth else 2)
        for _ in range(nacts):
            k = rng.below(100)
            room = len(self.tasks) < self.max_tasks
            if k < 38 and room and depth < self.max_depth:
                main = rng.chance(1, 2)
                c = self.new_task(scope, main, rng.chance(1, 3))
                acts.append(["spawn", c])
                unjoined.append(c)
                self.body(c, depth + 1, style)
            elif k < 52 and room and depth < self.max_depth:
                r = self.new_task(None, True, t["blocking"])
                acts.append(["nested", r, rng.chance(1, 3)])
                self.body(r, depth + 1, style)
            elif k < 72:
                # a main task that waits for cancellation can deadlock the scope for real; in the
                # "live" style only background tasks wait
                if style == "live" and t["main"]:
                    continue
                acts.append(["await"])
            elif k < 90:
                if unjoined:
                    c = unjoined.pop(rng.below(len(unjoined)))
                    acts.append(["join", c])
            elif k < 93:
                acts.append(["cancel"])
        e = rng.below(100)
        if e < 18:
            acts.append(["fail", 100 + tid])
        elif e < 24:
            acts.append(["panic"])


def gen_program(rng, max_tasks, max_depth):
    style = "live" if rng.chance(3, 5) else "any"
    g = Gen(rng, max_tasks, max_depth)
    root = g.new_task(None, True, rng.chance(1, 4))
    g.body(root, 0, style)
    return g.tasks


def handmade():
    """Fixed programs aimed at the individual clauses (run first)."""
    T = lambda scope, main, blocking, acts: {"scope": scope, "main": main, "blocking": blocking, "acts": acts}
    return [
        # a background task fails while the root waits: set_err must cancel the scope
        [T(0, True, False, [["spawn", 1], ["await"]]), T(0, False, False, [["fail", 101]])],
        # all main tasks complete: the background task waiting for cancellation is released
        [T(0, True, False, [["spawn", 1], ["spawn", 2]]), T(0, False, True, [["await"]]), T(0, True, False, [])],
        # first error wins: task 2 fails only after it observed the cancellation caused by task 1
        [T(0, True, False, [["spawn", 1], ["spawn", 2], ["await"]]), T(0, True, False, [["fail", 101]]),
         T(0, False, False, [["await"], ["fail", 102]])],
        # panic overrides error and is re-raised after all tasks finished
        [T(0, True, True, [["spawn", 1], ["spawn", 2], ["spawn", 3], ["await"]]), T(0, True, False, [["fail", 101]]),
         T(0, False, False, [["await"], ["panic"]]), T(0, False, True, [["await"]])],
        # nested scopes: inner error propagates by `?`, outer cancellation reaches the inner scope
        [T(0, True, False, [["spawn", 1], ["nested", 2, False]]), T(0, False, False, [["await"], ["fail", 101]]),
         T(2, True, False, [["spawn", 3], ["nested", 4, True]]), T(2, False, True, [["await"]]),
         T(4, True, False, [["spawn", 5], ["fail", 104]]), T(4, False, False, [["await"]])],
        # caller's context: nobody fails, the root waits: only the external cancellation ends it
        [T(0, True, False, [["spawn", 1], ["nested", 2, True], ["await"]]), T(0, False, True, [["await"]]),
         T(2, True, False, [["spawn", 3], ["await"]]), T(2, True, False, [["await"]])],
        # join: Ok value, Canceled after the child failed, panic of the child re-raised in the joiner
        [T(0, True, False, [["spawn", 1], ["spawn", 2], ["spawn", 3], ["join", 1], ["join", 2], ["join", 3]]),
         T(0, True, False, []), T(0, False, False, [["fail", 102]]), T(0, False, True, [["await"], ["panic"]])],
        # a background task spawns a main task after all main tasks are gone (falls back to background)
        [T(0, True, False, [["spawn", 1]]), T(0, False, False, [["await"], ["spawn", 2], ["spawn", 3]]),
         T(0, True, False, [["await"]]), T(0, True, True, [["await"], ["fail", 103]])],
        # s.cancel(): success although everybody was cancelled
        [T(0, True, False, [["spawn", 1], ["cancel"], ["await"], ["join", 1]]), T(0, True, True, [["await"]])],
    ]


def directed_program(k, first, late, outer, root_blocking, late_from_child, a_blocking, late_main, stall_ms):
    """Directed family for the atomicity of TerminateGuard::set_err (one critical section for
    precedence check + ctx.cancel() + store).  The scenario root spawns k held tasks, registers a
    hook on ctx.canceled() and spawns task A, which fails first.  ctx.cancel() inside A's set_err
    calls the hook synchronously: it releases the held tasks, which fail strictly after A while A
    is still inside set_err, and stalls A's thread.  Returns (tasks, id of A, id of the scenario scope)."""
    T = lambda scope, main, blocking, acts: {"scope": scope, "main": main, "blocking": blocking, "acts": acts}
    tasks = []
    if outer:
        tasks.append(T(0, True, root_blocking, [["nested", 1, False]]))
    R = len(tasks)
    tasks.append(T(R, True, root_blocking, []))
    racts = tasks[R]["acts"]
    for _ in range(k):
        b = len(tasks)
        tasks.append(T(R, late_main, True, [["held"]]))
        racts.append(["spawn", b])
        if late_from_child:
            r = len(tasks)
            tasks.append(T(r, True, True, [["fail", 100 + r]] if late == "err" else [["panic"]]))
            tasks[b]["acts"].append(["nested", r, False])
        else:
            tasks[b]["acts"].append(["fail", 100 + b] if late == "err" else ["panic"])
    racts.append(["hook", k, stall_ms])
    a = len(tasks)
    tasks.append(T(R, True, a_blocking, [["fail", 100 + a]] if first == "err" else [["panic"]]))
    racts.append(["spawn", a])
    racts.append(["await"])
    return tasks, a, R


def directed_program_last_main(k, first, late, outer, root_blocking, late_from_child, late_flavour, stall_ms):
    """Second directed family: the FIRST failing task is the last live main task of the scope (the
    scenario root itself; every other task is a background task).  Task::run must record its error
    (set_err: store + cancel in one critical section) BEFORE it releases its Arc<CancelGuard>; if
    the guard went first, CancelGuard::drop would cancel the context with no error recorded and a
    background task failing in reaction could win.  The hook stalls whichever thread cancels the
    context and releases k background tasks that fail strictly after the root.
    Returns (tasks, id of the first failing task = scenario root, id of the scenario scope)."""
    T = lambda scope, main, blocking, acts: {"scope": scope, "main": main, "blocking": blocking, "acts": acts}
    tasks = []
    if outer:
        tasks.append(T(0, True, root_blocking, [["nested", 1, False]]))
    R = len(tasks)
    tasks.append(T(R, True, root_blocking, []))
    racts = tasks[R]["acts"]
    for j in range(k):
        b = len(tasks)
        blocking = {"blocking": True, "async": False, "mixed": j % 2 == 0}[late_flavour]
        tasks.append(T(R, False, blocking, [["held"]]))
        racts.append(["spawn", b])
        if late_from_child:
            r = len(tasks)
            tasks.append(T(r, True, blocking, [["fail", 100 + r]] if late == "err" else [["panic"]]))
            tasks[b]["acts"].append(["nested", r, False])
        else:
            tasks[b]["acts"].append(["fail", 100 + b] if late == "err" else ["panic"])
    racts.append(["hook", k, stall_ms])
    racts.append(["fail", 100 + R] if first == "err" else ["panic"])
    return tasks, R, R


def directed_cases(rng, nseeds):
    """(first failure, late failures) x k in {1,4,16} with the other switches cycled."""
    out = []
    i = 0
    for (first, late) in (("err", "err"), ("panic", "err"), ("err", "panic")):
        for k in (1, 4, 16):
            outer = i % 2 == 1
            root_blocking = i % 3 == 2
            late_from_child = i % 4 == 3
            a_blocking = i % 5 != 4
            late_main = i % 3 != 1
            tasks, a, R = directed_program(k, first, late, outer, root_blocking, late_from_child, a_blocking, late_main, 120)
            expect = [2, 0] if "panic" in (first, late) else [1, 100 + a]
            c = make_case(rng, tasks, nseeds, True)
            c["ext_after"] = -1
            c["stall_ms"] = 1500
            c["directed"] = {"first_task": a, "scope": R, "expect": expect, "k": k, "first": first, "late": late,
                             "outer": outer, "root_blocking": root_blocking, "late_from_child": late_from_child}
            out.append(c)
            i += 1
    # family 2: the first failure is the last live main task (guard must outlive set_err)
    j = 0
    for (first, late) in (("err", "err"), ("err", "err"), ("panic", "err"), ("err", "panic")):
        for k in ((1, 4, 16) if (first, late) == ("err", "err") else (4,)):
            outer = j % 2 == 1
            root_blocking = j % 3 == 1
            flavour = ("mixed", "blocking", "async")[j % 3]
            # a child scope creates a ctx watcher task that parks a runtime worker on the semaphore
            # lock held while the hook stalls: keep those few and off the async late tasks
            late_from_child = j in (1, 4, 6) and k <= 4
            if late_from_child:
                flavour = "blocking"
            tasks, a, R = directed_program_last_main(k, first, late, outer, root_blocking, late_from_child, flavour, 120)
            c = make_case(rng, tasks, nseeds, True)
            c["ext_after"] = -1
            c["stall_ms"] = 1500
            c["directed"] = {"family": "last_main_guard", "first_task": a, "scope": R,
                             "expect": [2, 0] if "panic" in (first, late) else [1, 100 + a], "k": k, "first": first,
                             "late": late, "outer": outer, "root_blocking": root_blocking,
                             "late_from_child": late_from_child, "late_flavour": flavour}
            out.append(c)
            j += 1
    # the two decisive combinations once more with every switch on
    for (first, late) in (("err", "err"), ("panic", "err")):
        tasks, a, R = directed_program(4, first, late, True, True, True, True, True, 120)
        c = make_case(rng, tasks, nseeds, True)
        c["ext_after"] = -1
        c["stall_ms"] = 1500
        c["directed"] = {"first_task": a, "scope": R, "expect": [2, 0] if first == "panic" else [1, 100 + a], "k": 4,
                         "first": first, "late": late, "outer": True, "root_blocking": True, "late_from_child": True}
        out.append(c)
    return out


def directed_predicate(case, run):
    """Oracle of the directed family, on the implementation's output alone: the held tasks failed
    strictly after the first task (they were released from inside its set_err), so the scope must
    report the first task's failure (an error is replaced only by a panic, a panic by nothing)."""
    d = case["directed"]
    bad = []
    log = run["log"]
    if run["hang"]:
        return bad
    ret = [ev for ev in log if ev[0] == 7 and ev[1] == d["scope"]]
    end_first = next((i for i, ev in enumerate(log) if ev[0] == 6 and ev[1] == d["first_task"]), None)
    hook = next((i for i, ev in enumerate(log) if ev[0] == 9), None)
    if end_first is None or hook is None or not ret:
        return bad
    late_before = [ev for i, ev in enumerate(log) if ev[0] == 6 and ev[2] != 0 and ev[1] != d["first_task"] and i < end_first]
    if late_before or hook < end_first:
        return bad  # the forced order did not materialise (e.g. external cancellation fired the hook)
    got = [ret[0][2], ret[0][3]]
    if got != d["expect"]:
        why = ("the last main task released its CancelGuard (cancelling the scope) before its error was recorded"
               if d.get("family") == "last_main_guard"
               else "the first failure is not the one reported (set_err must check precedence, cancel and store in one critical section: panic > first error > later errors)")
        bad.append(f"{why}: task {d['first_task']} failed first ({d['first']}), the {d['k']} other tasks failed strictly after it "
                   f"(released by the cancellation it caused), but scope {d['scope']} returned {got} instead of {d['expect']}")
    return bad


# ----------------------------------------------------------------------------------------------
# static analysis used only to decide whether a stall before the external cancellation is legitimate

def analysis(tasks):
    n = len(tasks)
    memo_nb, memo_st = {}, {}

    def scope_tasks(r):
        return [i for i in range(n) if tasks[i]["scope"] == r]

    def nonblocking(t):
        if t in memo_nb:
            return memo_nb[t]
        memo_nb[t] = False
        ok = True
        for a in tasks[t]["acts"]:
            if a[0] in ("await", "held"):
                ok = False
            elif a[0] == "join" and not nonblocking(a[1]):
                ok = False
            elif a[0] == "nested" and not selfterm(a[1]):
                ok = False
        memo_nb[t] = ok
        return ok

    def surely_spawned(t, r):
        """task t of scope r is spawned on every schedule, without its ancestors blocking first"""
        if t == r:
            return True
        for q in scope_tasks(r):
            acts = tasks[q]["acts"]
            for i, a in enumerate(acts):
                if a[0] == "spawn" and a[1] == t:
                    if any(b[0] in ("await", "held", "join", "nested") for b in acts[:i]):
                        return False
                    return surely_spawned(q, r)
        return False

    def selfterm(r):
        if r in memo_st:
            return memo_st[r]
        memo_st[r] = False
        ts = scope_tasks(r)
        res = all(nonblocking(t) for t in ts if tasks[t]["main"])
        if not res:
            for f in ts:
                acts = tasks[f]["acts"]
                if acts and acts[-1][0] in ("fail", "panic") and nonblocking(f) and surely_spawned(f, r):
                    res = True
                    break
        memo_st[r] = res
        return res

    return selfterm(0)


def ancestors(tasks):
    """scope -> list of enclosing scopes (nearest first), via the task that runs the nested scope"""
    par = {}
    for t, td in enumerate(tasks):
        for a in td["acts"]:
            if a[0] == "nested":
                par[a[1]] = td["scope"]
    anc = {}
    for t, td in enumerate(tasks):
        s = td["scope"]
        if s in anc:
            continue
        chain, x = [], s
        while x in par:
            x = par[x]
            chain.append(x)
        anc[s] = chain
    return anc


# ----------------------------------------------------------------------------------------------
# predicates on the implementation's logs alone (the statement of C17)

def predicates(tasks, run, selfterm):
    bad = []
    log = run["log"]
    n = len(tasks)
    scope = [td["scope"] for td in tasks]
    anc = ancestors(tasks)
    if run["hang"]:
        bad.append("scope::run! did not return within the hang timeout after the caller's context was cancelled")
        return bad
    if run["stall"] and selfterm:
        bad.append("no task made progress before the caller's context was cancelled, although a task failed / all main tasks completed (scope context not cancelled)")
    started, ended, ret_at = {}, {}, {}
    for i, ev in enumerate(log):
        if ev[0] == 0:
            started[ev[1]] = i
        elif ev[0] == 6:
            ended[ev[1]] = (i, ev[2], ev[3])
        elif ev[0] == 7:
            ret_at[ev[1]] = (i, ev[2], ev[3])
    # (1) run returns only after every task spawned in it, directly or transitively, has finished
    for r, (ri, rk, re_) in ret_at.items():
        inside = [t for t in range(n) if scope[t] == r or r in anc.get(scope[t], [])]
        for t in inside:
            if t in started and (t not in ended or ended[t][0] > ri):
                bad.append(f"scope {r} returned at event {ri} before task {t} finished")
        for i, ev in enumerate(log):
            if i > ri and ev[0] in (0, 1, 2, 3, 4, 5, 6) and ev[1] in inside:
                bad.append(f"task {ev[1]} of scope {r} still running (event {i}) after the scope returned at event {ri}")
                break
    for t in started:
        if t not in ended:
            bad.append(f"task {t} started but never finished")
    if 0 not in ret_at:
        bad.append("top scope did not return")
    elif [ret_at[0][1], ret_at[0][2]] != run["res"]:
        bad.append("logged result of the top scope differs from the returned value")
    # (2) result
    for r, (ri, rk, re_) in ret_at.items():
        mine = [ended[t] for t in range(n) if scope[t] == r and t in ended]
        panics = [e for e in mine if e[1] == 2]
        errs = [e for e in mine if e[1] == 1]
        if panics:
            if rk != 2:
                bad.append(f"a task of scope {r} panicked but run! returned {[rk, re_]} instead of re-raising the panic")
        elif errs:
            if rk != 1 or re_ not in [e[2] for e in errs]:
                bad.append(f"tasks of scope {r} failed with {[e[2] for e in errs]} but run! returned {[rk, re_]}")
            else:
                # the reported error must not be preceded by another failure: if the failing task
                # had itself observed the cancellation before any cause other than an earlier
                # failure existed, it cannot be the first
                pass
        elif rk != 0:
            bad.append(f"all tasks of scope {r} succeeded but run! returned {[rk, re_]}")
    # (3) every observed cancellation has a cause before it
    ext_at = next((i for i, ev in enumerate(log) if ev[0] == 8), None)

    def cause_before(s, i):
        root_started = (s == 0)
        live_main = 1 if s == 0 else 0
        for j in range(i):
            ev = log[j]
            if ev[0] == 8:
                return True
            if ev[0] in (5,) and scope[ev[1]] == s:
                return True
            if ev[0] == 6 and scope[ev[1]] == s and ev[2] != 0:
                return True
            if ev[0] == 2 and ev[2] == s:
                root_started, live_main = True, 1
            if ev[0] == 1 and scope[ev[2]] == s and tasks[ev[2]]["main"] and live_main > 0:
                live_main += 1
            if ev[0] == 6 and scope[ev[1]] == s and root_started:
                t = ev[1]
                if tasks[t]["main"] and live_main > 0:
                    # conservative: a task declared main may really be background (fallback);
                    # counting it as main can only delay the justification
                    live_main -= 1
                    if live_main == 0:
                        return True
        for a in anc.get(s, [])[:1]:
            return cause_before(a, i)
        return False

    for i, ev in enumerate(log):
        if ev[0] == 3 or (ev[0] == 4 and ev[3] == 1):
            s = scope[ev[1]]
            if not cause_before(s, i):
                bad.append(f"task {ev[1]} observed cancellation of scope {s} at event {i} with no failure, no completed main tasks, no cancel() and no cancelled caller before it")
    return bad


# ----------------------------------------------------------------------------------------------
# Coq terms

def coq_act(a):
    k = a[0]
    if k == "spawn":
        return f"ASpawn {a[1]}"
    if k == "nested":
        return f"ANested {a[1]} {coq_bool(a[2])}"
    if k in ("await", "held"):
        return "AAwaitCancel"
    if k == "join":
        return f"AJoin {a[1]}"
    if k == "cancel":
        return "ACancel"
    if k == "fail":
        return f"AFail {a[1]}"
    return "APanic"


def coq_prog(tasks):
    return coq_list(["{| td_scope := %d; td_main := %s; td_acts := %s |}" % (
        td["scope"], coq_bool(td["main"]), coq_list([coq_act(a) for a in td["acts"] if a[0] != "hook"])) for td in tasks])


def coq_res(k, e):
    return "ROk" if k == 0 else (f"(RErr {e})" if k == 1 else "RPanic")


def coq_event(ev):
    k, a, b, c = ev
    if k == 1:
        return f"LSpawn {a} {b}"
    if k == 2:
        return f"LNested {a} {b}"
    if k == 3:
        return f"LObs {a}"
    if k == 4:
        return f"LJoin {a} {b} {['JOk', 'JCanceled', 'JPanic'][c]}"
    if k == 5:
        return f"LCancel {a}"
    if k == 6:
        return f"LEnd {a} {coq_res(b, c)}"
    if k == 7:
        return f"LRet {a} {coq_res(b, c)}"
    return "LExt"


def winners(tasks, log):
    scope = [td["scope"] for td in tasks]
    w = []
    for ev in log:
        if ev[0] == 7 and ev[2] == 1:
            r, e = ev[1], ev[3]
            t = [x[1] for x in log if x[0] == 6 and x[2] == 1 and x[3] == e and scope[x[1]] == r]
            w.append((r, t[0] if t else len(tasks)))
    return w


def coq_case(tasks, run):
    log = [ev for ev in run["log"] if ev[0] not in (0, 9)]
    win = "(" + coq_list([f"({r}%nat, {t}%nat)" for (r, t) in winners(tasks, log)]) + " : list (nat * nat))"
    return f"({coq_prog(tasks)}, {win}, {coq_list([coq_event(e) for e in log])})"


def expected_obs(run):
    n_end = sum(1 for ev in run["log"] if ev[0] == 6)
    return [1, -1, run["res"], n_end]


# ----------------------------------------------------------------------------------------------

def make_case(rng, tasks, nseeds, selfterm):
    nev = sum(len(td["acts"]) + 1 for td in tasks)
    z = rng.below(100)
    if selfterm:
        ext_after = -1 if z < 75 else rng.range(0, nev + 2)
    else:
        ext_after = (rng.range(0, min(nev, 5)) if z < 70 else rng.range(0, nev + 2)) if z < 95 else -1
    return {"tasks": tasks, "seeds": [str(rng.next()) for _ in range(nseeds)], "ext_after": ext_after,
            "stall_ms": 400 if selfterm else 120, "hang_ms": 6000, "selfterm": selfterm}


def confirm_stall(case, seed):
    """re-runs one schedule with a much longer stall threshold; True iff it stalls again"""
    c = dict(case)
    c["seeds"] = [seed]
    c["stall_ms"] = 2500
    c["ext_after"] = -1
    outs = common.run_impl("scope", [c], "dev", shards=1)
    return bool(outs and "runs" in outs[0] and (outs[0]["runs"][0]["stall"] or outs[0]["runs"][0]["hang"]))


def run(rep):
    tier, rng = rep.tier, Rng(rep.seed)
    cov = rep.cov
    broken = []
    po = common.proof_obligations(PROP_FILES)
    if not po["ok"]:
        broken.append("Coq obligations of Properties/C17.v: " + (po["log_tail"] or str(po["hygiene_problems"] or po["bad_axioms"])))
    ok, out = common.cargo_build(["scope"], "dev")
    if not ok:
        raise common.MachineryError("cargo build failed: " + out[-2000:])
    if tier == "quick":
        nprog, nseeds, max_tasks, max_depth = 150, 30, 10, 3
    else:
        nprog, nseeds, max_tasks, max_depth = 1500, 60, 40, 4
    if os.environ.get("C17_NPROG"):  # self-test knob: fewer programs, same generators
        nprog = int(os.environ["C17_NPROG"])
    cases = directed_cases(rng, 3 if tier == "quick" else 8)
    n_directed = len(cases)
    for tasks in handmade():
        cases.append(make_case(rng, tasks, nseeds, analysis(tasks)))
    cp = os.path.join(common.CORPUS, "C17.json")
    if os.path.exists(cp):
        for tasks in json.load(open(cp)):
            cases.append(make_case(rng, tasks, nseeds, analysis(tasks)))
    stats = {"selfterm": 0, "not_selfterm": 0, "ext_scheduled": 0}
    while len(cases) < nprog:
        big = rng.chance(1, 6)
        tasks = gen_program(rng, max_tasks if not big else max_tasks + max_tasks // 2, max_depth)
        if len(tasks) < 2 and rng.chance(4, 5):
            continue
        cases.append(make_case(rng, tasks, nseeds, analysis(tasks)))
    for c in cases:
        stats["selfterm" if c["selfterm"] else "not_selfterm"] += 1
        stats["ext_scheduled"] += 1 if c["ext_after"] >= 0 else 0
    outs = common.run_impl("scope", cases, "dev", shards=8)
    coq_cases, meta, pred_fail = [], [], []
    seen = {}
    act_hist, ev_hist = {}, {}
    n_runs = n_stall = n_ext = n_directed_runs = 0
    confirmations = {"yes": 0, "runs": 0}
    crashed = False
    res_hist = {"ok": 0, "err": 0, "panic": 0, "hang": 0}
    for ci, (c, o) in enumerate(zip(cases, outs)):
        if "crash" in o:
            # the process died (signal / abort) while running this program: tasks outliving their
            # scope is a memory-safety violation of exactly this property (scope.rs relies on it)
            rep.violation(f"process crashed (rc={o.get('rc')}) while executing a task-tree program: a scope returned or was dropped while its tasks were still running?",
                          {"failing_input": {"tasks": c["tasks"], "seed": c["seeds"][0], "seeds": c["seeds"], "ext_after": c["ext_after"],
                                             "log": [], "res": [3, 0], "failed": "process crashed", "stderr": o.get("stderr", "")[-800:]}})
            crashed = True
            break
        if "skipped" in o:
            continue
        for td in c["tasks"]:
            for a in td["acts"]:
                act_hist[a[0]] = act_hist.get(a[0], 0) + 1
        for si, r in enumerate(o["runs"]):
            n_runs += 1
            n_stall += 1 if r["stall"] else 0
            n_ext += 1 if any(ev[0] == 8 for ev in r["log"]) else 0
            res_hist[["ok", "err", "panic", "hang"][r["res"][0]]] += 1
            for ev in r["log"]:
                ev_hist[ev[0]] = ev_hist.get(ev[0], 0) + 1
            bad = predicates(c["tasks"], r, c["selfterm"])
            if "directed" in c:
                n_directed_runs += 1
                bad = directed_predicate(c, r) + bad
            if bad and r["stall"] and c["selfterm"] and len(bad) == 1 and not r["hang"]:
                # a stall verdict depends on wall-clock time: confirm it with a long threshold
                if confirmations["yes"] < 2:
                    if confirmations["runs"] >= 6 or not confirm_stall(c, c["seeds"][si]):
                        bad = []
                    else:
                        confirmations["yes"] += 1
                    confirmations["runs"] += 1
            if bad:
                pred_fail.append({"tasks": c["tasks"], "seed": c["seeds"][si], "ext_after": c["ext_after"],
                                  "log": r["log"], "res": r["res"], "failed": bad[0], "more": bad[1:4],
                                  "directed": c.get("directed")})
            key = (ci, json.dumps(r["log"]), tuple(r["res"]))
            if key in seen:
                continue
            seen[key] = len(coq_cases)
            coq_cases.append((len(coq_cases), coq_case(c["tasks"], r), common.to_obsv(expected_obs(r))))
            meta.append((ci, si))
    sample_ids = [0, len(handmade()) * 2, len(coq_cases) // 2, len(coq_cases) - 1]
    sample_ids = sorted({i for i in sample_ids if 0 <= i < len(coq_cases)})
    mm, samp = common.run_model_cases("C17", "From EC Require Import Model.Scope.", "Model.Scope.run_case",
                                      coq_cases, shard_size=max(20, len(coq_cases) // 32 + 1), sample_ids=sample_ids)
    if mm:
        broken.append(f"trace acceptance vh scope vs Model.Scope.replay: {len(mm)} logs are not executions of the model / results differ")
    if crashed:
        pass
    elif pred_fail:
        f = pred_fail[0]
        rep.violation("task scope violates C17 on the implementation: " + f["failed"],
                      {"failing_input": f, "more": [{k: x[k] for k in ("failed", "seed")} for x in pred_fail[1:4]], "broken": broken})
    elif mm:
        i = sorted(mm)[0]
        ci, si = meta[i]
        r = outs[ci]["runs"][si]
        rep.violation("task scope behaviour is not an execution of the model (C17): event %s of the log is rejected / result differs" % (mm[i][1],),
                      {"failing_input": {"tasks": cases[ci]["tasks"], "seed": cases[ci]["seeds"][si], "ext_after": cases[ci]["ext_after"],
                                         "log": r["log"], "res": r["res"], "failed": "log rejected by Model.Scope.replay", "model_obs": mm[i]},
                       "broken": broken})
    elif broken:
        rep.violation("C17 no longer shown to hold: " + "; ".join(broken)[:500], {"broken": broken}, found_input=False)
    names = {9: "hook", 0: "start", 1: "spawn", 2: "nested", 3: "observed_cancel", 4: "join", 5: "cancel", 6: "end", 7: "ret", 8: "ext"}
    cov.update({
        "obligations": po["obligations"] + 1,
        "discharged": po["discharged"] + (0 if mm else 1),
        "checker_cmd": "make -C coq theories/Properties/C17.vo + coqc on generated build/cases/C17/cases_*.v (vm_compute of Model.Scope.run_case = trace acceptance)",
        "trusted_base": common.standard_trusted_base([
            "H-ATOM: Arc strong-count updates, Weak::upgrade, the std Mutex section of set_err, Semaphore::close and tokio JoinHandle completion are atomic steps of the model (the atomicity of set_err is additionally checked on the code by the directed hook family, see directed_family); must_complete::Guard (process abort) is not modelled",
            "the event log is appended under one mutex; an event is logged before the call for cancel()/nested run!/end of body and after the call for spawn/await/join/return, so that replaying hidden steps as early as possible over-approximates what the implementation may have done",
            "tokio multi-thread runtime, blocking pool, ManualClock (deadline fired by advancing the clock)"]),
        "theorems": po["theorems"], "axioms": po["axioms"],
        "evaluations": n_runs,
        "distinct_nontrivial": len(coq_cases),
        "rule": "random task trees (tasks main/background x async/blocking, spawn, nested scopes with and without deadline context, await-cancel, join, s.cancel(), fail, panic) each run under several seeded perturbation schedules (yield / 40-260us sleeps before every action) on a 4-worker tokio runtime; external cancellation of the caller's context after a random number of events or on stall; non-trivial+distinct = distinct (program, event log, result) triples, each replayed by the model in Coq",
        "programs": len(cases), "schedules_per_program": nseeds,
        "directed_family": {"programs": n_directed, "runs": n_directed_runs,
                            "what": "the model's LSetErr step is atomic (H-ATOM: precedence check + ctx.cancel() + store in one critical section of State::err). This family is what checks that atomicity on the code: a std::task::Wake hook registered on ctx.canceled() runs synchronously inside the first failing task's set_err -> ctx.cancel(), releases k in {1,4,16} parked tasks that fail (Err / panic / Err from a child scope) strictly after it and stalls the cancelling thread 120 ms; oracle: run!/run_blocking! (plain and nested) reports the first failure (Err(first) resp. the panic), checked by a python predicate and by the model replay. Family 2 (last_main_guard): the first failing task is the LAST live main task (the scope's root, all other tasks background, async and blocking); in the model a failing task's steps are ordered LSetErr (record error + cancel, atomic) and only then LDrop (release of its CancelGuard/TerminateGuard) - theorem C17_failure_is_reported, phase PEnded -> PErrSet -> PDone - so the cancellation caused by the last main task never precedes the recording of its error; that order (H-ATOM grain of Task::run: set_err before the guard is released) is checked on the code by this family: the hook stalls whichever thread cancels the context, the released background tasks fail strictly after the root, and the scope must still report the root's failure"},
        "input_distribution": {"programs": stats, "actions": act_hist, "events": {names[k]: v for k, v in sorted(ev_hist.items())},
                               "results": res_hist, "runs_with_external_cancel": n_ext, "runs_stalled_before_external_cancel": n_stall,
                               "tasks_per_program_max": max(len(c["tasks"]) for c in cases)},
        "samples": [{"program": cases[meta[i][0]]["tasks"], "log": outs[meta[i][0]]["runs"][meta[i][1]]["log"],
                     "impl_result": outs[meta[i][0]]["runs"][meta[i][1]]["res"], "model_obs": samp.get(i)} for i in sample_ids],
        "correspondence_mismatches": len(mm), "predicate_failures": len(pred_fail),
        "partial": "proved for every program and every schedule of the model: guard counts = live tasks, terminated <=> no live task, run! returns only then (nested scopes transitively), result = root value / first set_err / panic, cancellation at first error, at last main guard, one watcher step after the caller, reaching all descendants, and soundness of the replayer. Not proved but checked on the implementation: liveness (no stall while a cancellation cause exists, no hang after the caller is cancelled) and completeness of the replayer (every real log is accepted). Not covered: negative observations (ctx still active) are not logged; tasks spawn only into their own scope and join only their own children; Arc/Weak/Mutex/Semaphore/JoinHandle atomicity and the must-complete guard are assumed (H-ATOM)",
    })
    rep.assumptions += ["H-ATOM (DESIGN 2.3): atomicity grain of Arc drop, Weak::upgrade, Mutex section of set_err, Semaphore close, JoinHandle completion"]


def replay(path):
    d = json.load(open(path))
    fi = d.get("failing_input")
    if not fi:
        print("no concrete input in replay file:", d.get("broken"))
        return 1
    common.cargo_build(["scope"], "dev")
    c = {"tasks": fi["tasks"], "seeds": [fi["seed"]], "ext_after": fi.get("ext_after", -1), "stall_ms": 1000, "hang_ms": 6000}
    o = common.run_impl("scope", [c], "dev", shards=1)[0]
    r = o["runs"][0]
    print("recorded log :", json.dumps(fi["log"]))
    print("recorded res :", fi["res"], "--", fi["failed"])
    print("re-run log   :", json.dumps(r["log"]))
    print("re-run res   :", r["res"], "stall" if r["stall"] else "", "hang" if r["hang"] else "")
    st = analysis(fi["tasks"])
    for name, run_ in (("recorded", {"log": fi["log"], "res": fi["res"], "stall": "progress" in fi["failed"], "hang": "did not return" in fi["failed"]}), ("re-run", r)):
        extra = directed_predicate({"directed": fi["directed"]}, run_) if fi.get("directed") else []
        print(name, "predicates:", extra + predicates(fi["tasks"], run_, st))
    cc = [(0, coq_case(fi["tasks"], {"log": fi["log"], "res": fi["res"]}), common.to_obsv(expected_obs({"log": fi["log"], "res": fi["res"]}))),
          (1, coq_case(fi["tasks"], r), common.to_obsv(expected_obs(r)))]
    mm, samp = common.run_model_cases("C17replay", "From EC Require Import Model.Scope.", "Model.Scope.run_case", cc, sample_ids=[0, 1])
    print("model on recorded log:", samp.get(0), "(rejected)" if 0 in mm else "(accepted)")
    print("model on re-run log  :", samp.get(1), "(rejected)" if 1 in mm else "(accepted)")
    return 0
