"""C07 — threshold arithmetic: theorems (hand model + regenerated model), correspondence, search."""
import json
import os
import common
import rust_expr
from common import Rng

PROP_FILES = ["theories/Properties/C07.v", "theories/Properties/C07Gen.v"]
U64 = 1 << 64


def regenerate():
    text, summary = rust_expr.translate()
    p = os.path.join(common.COQ, "theories/Gen/Thresholds.v")
    if not os.path.exists(p) or open(p).read() != text:
        open(p, "w").write(text)
    return summary


def predicate(n, f, q, s):
    """The property's own statement on the implementation's outputs (n >= 1). Returns list of failed clauses."""
    bad = []
    if not (0 <= f):
        bad.append("0<=f")
    if not (5 * f + 1 <= n):
        bad.append("5f+1<=n")
    if not (n <= 5 * f + 5):
        bad.append("f is floor((n-1)/5)")
    if q != n - f:
        bad.append("q=n-f")
    if s != n - 3 * f:
        bad.append("s=n-3f")
    if not (2 * q - n > f):
        bad.append("two quorums share more than f")
    if not (2 * q - n - f >= s):
        bad.append("commit and timeout quorum share >= s correct weight")
    if not (2 * f < s):
        bad.append("2f < s")
    if not (0 < s <= q <= n):
        bad.append("0<s<=q<=n")
    return bad


def gen_ns(rng, tier):
    small = 3000 if tier == "quick" else 20000
    ns = list(range(0, small + 1))
    for k in range(1, 65):
        for d in range(-12, 13):
            v = (1 << k) + d
            if 0 <= v < U64:
                ns.append(v)
    ns += [U64 - 1 - d for d in range(0, 40)]
    nrand = 2000 if tier == "quick" else 60000
    for _ in range(nrand):
        bits = rng.range(1, 64)
        ns.append(rng.next() >> (64 - bits))
    # multiples of 5 and their neighbours (the floor boundary)
    for _ in range(500 if tier == "quick" else 5000):
        b = (rng.next() >> rng.range(0, 60)) // 5 * 5
        for d in (-1, 0, 1):
            if 0 <= b + d < U64:
                ns.append(b + d)
    seen, out = set(), []
    for n in ns:
        if n not in seen:
            seen.add(n)
            out.append(n)
    return out


def impl_obs(o):
    def one(x):
        if isinstance(x, dict):
            msg = x["panic"]
            code = 1 if "overflow" in msg else (2 if "divide by zero" in msg else 99)
            return [1, code]
        return [0, int(x)]
    return [one(o["f"]), one(o["q"]), one(o["s"])]


def run(rep):
    tier, rng = rep.tier, Rng(rep.seed)
    cov = rep.cov
    broken = []   # names of obligations / correspondences that no longer check
    # 1. translator
    translator = {"status": "ok"}
    try:
        translator["source"] = regenerate()
    except rust_expr.ParseError as e:
        translator = {"status": "degraded to correspondence only", "reason": str(e)}
    # 2. proofs
    files = PROP_FILES if translator["status"] == "ok" else PROP_FILES[:1]
    po = common.proof_obligations(files)
    if not po["ok"]:
        broken.append("Coq obligations of " + ",".join(files) + ": " + (po["log_tail"] or str(po["hygiene_problems"] or po["bad_axioms"])))
    # 3. harness
    for prof in ("dev", "release"):
        ok, out = common.cargo_build(["thresholds"], prof)
        if not ok:
            raise common.MachineryError("cargo build failed: " + out[-2000:])
    # 4. cases
    ns = gen_ns(rng, tier)
    corpus = os.path.join(common.CORPUS, "C07.json")
    if os.path.exists(corpus):
        ns = [int(x) for x in json.load(open(corpus))] + ns
    cases = [{"n": str(n)} for n in ns]
    evaluations = 0
    mism_total = {}
    pred_fail = []
    samples = []
    nontrivial = set()
    for prof in ("dev", "release"):
        chk = prof == "dev"
        outs = common.run_impl("thresholds", cases, prof)
        coq_cases = []
        for i, (n, o) in enumerate(zip(ns, outs)):
            if "crash" in o or "skipped" in o:
                raise common.MachineryError(f"harness crashed on n={n}: {o}")
            ob = impl_obs(o)
            coq_cases.append((i, f"({common.coq_bool(chk)}, {n})", common.to_obsv(ob)))
            evaluations += 1
            if n >= 1 and all(x[0] == 0 for x in ob):
                f, q, s = ob[0][1], ob[1][1], ob[2][1]
                bad = predicate(n, f, q, s)
                if bad:
                    pred_fail.append({"n": str(n), "profile": prof, "f": str(f), "q": str(q), "s": str(s), "failed": bad})
                if f > 0:
                    nontrivial.add(n)
            elif n >= 1:
                pred_fail.append({"n": str(n), "profile": prof, "impl": o, "failed": ["no panic / overflow"]})
        mm, samp = common.run_model_cases("C07", "From EC Require Import Model.Thresholds.",
                                          "Model.Thresholds.obs_case", coq_cases, shard_size=1500,
                                          sample_ids=[1, 11, len(ns) - 1])
        for i, m in mm.items():
            mism_total[(prof, ns[i])] = {"n": str(ns[i]), "profile": prof, "impl": impl_obs(outs[i]), "model": m}
        for i, m in samp.items():
            samples.append({"n": str(ns[i]), "profile": prof, "impl": outs[i], "model_obs": m})
    if mism_total:
        broken.append(f"correspondence vh thresholds vs Model.Thresholds: {len(mism_total)} disagreeing cases")
    # 4b. the same thresholds as METHODS of a real Schedule: they must be the functions of the TOTAL committee
    # weight, whatever the leader-eligibility flags are (committees with non-eligible validators included)
    srng = rng.fork()
    sched_cases = []
    for _ in range(300 if tier == "quick" else 5000):
        k = srng.range(1, 12)
        style = srng.below(4)
        ws = [1 if style == 0 else (srng.range(1, 5) if style == 1 else (srng.range(1, 1000) if style == 2 else srng.next() >> srng.range(4, 60) | 1)) for _ in range(k)]
        leaders = [1 if srng.chance(2, 3) else 0 for _ in range(k)]
        if not any(leaders):
            leaders[srng.below(k)] = 1
        if sum(ws) < (1 << 64):
            sched_cases.append({"weights": [str(w) for w in ws], "leaders": leaders})
    sched_outs = common.run_impl("thresholds", sched_cases, "dev")
    sched_nonleader = 0
    for c, o in zip(sched_cases, sched_outs):
        if "crash" in o or "skipped" in o:
            raise common.MachineryError(f"harness crashed on schedule case {c}: {o}")
        evaluations += 1
        tot = sum(int(w) for w in c["weights"])
        if 0 in c["leaders"]:
            sched_nonleader += 1
        if not o.get("sched"):
            pred_fail.append({"n": str(tot), "schedule": c, "impl": o, "failed": ["Schedule::new refused a committee with positive weights, total below 2^64 and an eligible leader"]})
            continue
        want = {"total": tot, "f": (tot - 1) // 5, "q": tot - (tot - 1) // 5, "s": tot - 3 * ((tot - 1) // 5)}
        got = {k2: (int(o[k2]) if isinstance(o[k2], str) else None) for k2 in want}
        if got != want:
            pred_fail.append({"n": str(tot), "schedule": c, "impl": o,
                              "failed": [f"Schedule methods give {got} for a committee of total weight {tot}; the thresholds of the total weight are {want}"]})
    # 5. search when something broke and no failing input is known yet
    searched = 0
    if broken and not pred_fail:
        srng = rng.fork()
        extra = []
        for _ in range(200000 if tier == "quick" else 2000000):
            extra.append(srng.next() >> srng.range(0, 63))
        extra = sorted(set(extra) | set(range(1, 50000)))
        for prof in ("dev", "release"):
            outs = common.run_impl("thresholds", [{"n": str(n)} for n in extra], prof)
            for n, o in zip(extra, outs):
                searched += 1
                if "crash" in o or "skipped" in o:
                    continue
                ob = impl_obs(o)
                if n >= 1 and all(x[0] == 0 for x in ob):
                    bad = predicate(n, ob[0][1], ob[1][1], ob[2][1])
                    if bad:
                        pred_fail.append({"n": str(n), "profile": prof, "f": str(ob[0][1]), "q": str(ob[1][1]), "s": str(ob[2][1]), "failed": bad})
                elif n >= 1:
                    pred_fail.append({"n": str(n), "profile": prof, "impl": o, "failed": ["no panic / overflow"]})
            if pred_fail:
                break
    # 6. verdict
    if pred_fail:
        pred_fail.sort(key=lambda d: (0 if "schedule" in d else 1, int(d["n"])))
        rep.violation("threshold arithmetic violated on the implementation: " + ", ".join(pred_fail[0]["failed"]),
                      {"failing_input": pred_fail[0], "more": pred_fail[1:5], "broken": broken,
                       "replay_cmd": "./check C07 --replay <this file>"})
    elif broken:
        rep.violation("C07 no longer shown to hold: " + "; ".join(broken)[:600],
                      {"broken": broken, "mismatches": list(mism_total.values())[:10], "searched_inputs": searched},
                      found_input=False)
    corr_ok = not mism_total
    cov.update({
        "obligations": po["obligations"] + 1,
        "discharged": po["discharged"] + (1 if corr_ok else 0),
        "checker_cmd": "make -C coq theories/Properties/C07.vo theories/Properties/C07Gen.vo (coqc 8.16.1, full .vo build) + coqc on generated cases_*.v",
        "trusted_base": common.standard_trusted_base(["translator gen/rust_expr.py (integer expression subset of schedule.rs -> Gen/Thresholds.v)"]),
        "theorems": po["theorems"],
        "axioms": po["axioms"],
        "translator": translator,
        "evaluations": evaluations,
        "distinct_nontrivial": len(nontrivial),
        "rule": "n in 0..small, 2^k+-12, u64::MAX-d, random widths, multiples of 5 +-1; both overflow profiles; non-trivial = distinct n >= 1 with f > 0 evaluated without panic",
        "samples": samples,
        "correspondence_mismatches": len(mism_total),
        "predicate_failures": len(pred_fail),
        "search_inputs": searched,
        "exhaustive": False,
    })
    rep.assumptions += ["n=0 is outside the domain (Schedule::new never produces it: theorem C07_schedule_total)"]


def replay(path):
    d = json.load(open(path))
    fi = d.get("failing_input")
    if not fi:
        print("replay file names a broken obligation, no concrete input:", d.get("broken"))
        return 1
    if "schedule" in fi:
        common.cargo_build(["thresholds"], "dev")
        o = common.run_impl("thresholds", [fi["schedule"]], "dev")[0]
        tot = sum(int(w) for w in fi["schedule"]["weights"])
        print("committee", fi["schedule"], "total weight", tot)
        print("Schedule methods on the current code:", o)
        print("thresholds of the total weight: f", (tot - 1) // 5, "q", tot - (tot - 1) // 5, "s", tot - 3 * ((tot - 1) // 5))
        return 0
    for prof in ("dev", "release"):
        common.cargo_build(["thresholds"], prof)
        o = common.run_impl("thresholds", [{"n": fi["n"]}], prof)[0]
        print(prof, o)
        ob = impl_obs(o)
        if all(x[0] == 0 for x in ob):
            print("  predicate failures:", predicate(int(fi["n"]), ob[0][1], ob[1][1], ob[2][1]))
    return 0
