"""C19 — block fetch queue: theorems (Properties/C19.v) + trace-acceptance correspondence
(vh fetch = real gossip::fetch::Queue under a script, vs Model.Fetch.run_case) + predicates
that evaluate the property statement on the implementation's event log alone."""
import json
import os
import common
from common import Rng, coq_list

PROP_FILES = ["theories/Properties/C19.v"]
BIN = "fetch"


# ---------------------------------------------------------------------------
# generator

def gen_avail(rng, lo=1, hi=9):
    k = rng.below(10)
    if k == 0:
        return [rng.range(lo, hi), None]                      # empty store
    if k == 1:
        a = rng.range(lo, hi)
        return [a, a]
    if k == 2:
        return [0, 12]                                        # everything
    if k == 3:
        a = rng.range(lo + 1, hi)
        return [a, a - 1]                                     # first > last: contains nothing
    a = rng.range(lo, hi)
    return [a, rng.range(a, hi)]


def gen_case(rng, style):
    """style: 'mixed' random soup, 'race' many peers watching the same low numbers,
    'churn' fail/disconnect heavy, 'tiny' very short."""
    np_ = {"mixed": rng.range(1, 4), "race": rng.range(2, 5), "churn": rng.range(2, 4), "tiny": rng.range(1, 2)}[style]
    nsteps = {"mixed": rng.range(8, 30), "race": rng.range(8, 24), "churn": rng.range(12, 36), "tiny": rng.range(2, 6)}[style]
    maxreq = {"mixed": 10, "race": 8, "churn": 8, "tiny": 3}[style]
    hi = 9 if style != "race" else 5
    steps = []
    started = []          # requester ids started
    cancelled = set()
    busy = {}             # number -> requester that may still be running
    nreq = 0
    alive = [True] * np_
    # prelude: most connections reserve calls and announce something early
    pre = []
    for p in range(np_):
        if rng.chance(3, 4):
            pre += [["permit", p]] * rng.range(1, 3)
            pre.append(["avail", p] + ([0, 12] if style == "race" and rng.chance(1, 2) else gen_avail(rng, 1, hi)))
    if pre:
        pre = rng.shuffle(pre)
        cut = rng.below(len(pre) + 1)
        steps += [x for x in (pre[:cut], pre[cut:]) if x]
    for _ in range(nsteps):
        b = rng.below(20)
        nops = 1 if b < 11 else 2 if b < 16 else 3 if b < 19 else rng.range(4, 6)
        ops = []
        freed = []
        for _ in range(nops):
            k = rng.below(100)
            p = rng.below(np_)
            if style == "churn":
                k = (k * 7) % 100 if rng.chance(1, 3) else k
            if k < 24:
                free = [n for n in range(1, hi + 1) if n not in busy]
                if nreq < maxreq and free:
                    n = rng.choice(free[:4]) if rng.chance(2, 3) else rng.choice(free)
                    ops.append(["req", nreq, n])
                    busy[n] = nreq
                    started.append(nreq)
                    nreq += 1
                else:
                    ops.append(["permit", p])
            elif k < 44:
                ops.append(["avail", p] + gen_avail(rng, 1, hi))
            elif k < 66:
                ops.append(["permit", p])
            elif k < 78:
                ops.append(["fail", p, 0 if rng.chance(4, 5) else rng.below(3)])
            elif k < 89:
                ops.append(["succeed", p, 0 if rng.chance(4, 5) else rng.below(3)])
            elif k < 95:
                cand = [r for r in started if r not in cancelled]
                if cand:
                    r = rng.choice(cand)
                    cancelled.add(r)
                    ops.append(["cancel", r])
                    freed += [n for n, rr in busy.items() if rr == r]
                else:
                    ops.append(["avail", p] + gen_avail(rng, 1, hi))
            elif k < 98:
                if sum(alive) > 1 or rng.chance(1, 4):
                    alive[p] = False
                    if rng.chance(1, 2):     # the connection dies exactly when something becomes acceptable
                        ops.append(["avail", p, 0, 12])
                    ops.append(["disc", p])
                else:
                    ops.append(["permit", p])
            else:
                # invalid / out-of-range operations: must be no-ops on both sides
                ops.append(rng.choice([["fail", p, 7], ["succeed", p, 9], ["cancel", nreq] if nreq < maxreq else ["permit", p]]))
        steps.append(ops)
        for n in freed:        # a cancelled number may be requested again from the next step on
            busy.pop(n, None)
    # "cancel" of a requester id that is never started must stay in range
    return {"peers": np_, "reqs": max(nreq + 1, 1), "steps": steps, "kind": style}


def corpus_cases():
    cs = [
        # hand-over, failure re-queues, second peer picks it up, success completes
        {"peers": 2, "reqs": 2, "kind": "corpus requeue", "steps": [
            [["req", 0, 5]], [["permit", 0], ["permit", 1]], [["avail", 0, 3, 7]], [["fail", 0, 0]],
            [["avail", 1, 5, 5]], [["succeed", 1, 0]]]},
        # lowest first / head of line: 3 is the lowest and not available at peer 0, so peer 0 must not take 5
        {"peers": 2, "reqs": 3, "kind": "corpus lowest", "steps": [
            [["req", 0, 5], ["req", 1, 3]], [["avail", 0, 4, 9], ["permit", 0]], [["avail", 1, 0, 9], ["permit", 1], ["permit", 1]],
            [["permit", 0]], [["succeed", 1, 0], ["succeed", 1, 0]]]},
        # two peers race for one request; disconnect of the holder re-queues
        {"peers": 3, "reqs": 2, "kind": "corpus race", "steps": [
            [["permit", 0], ["permit", 1], ["permit", 2]], [["avail", 0, 0, 9], ["avail", 1, 0, 9], ["avail", 2, 0, 9]],
            [["req", 0, 4]], [["disc", 0], ["disc", 1], ["disc", 2]], [["cancel", 0]]]},
        # cancellation while held, number requested again, stale handle completes without effect
        {"peers": 2, "reqs": 3, "kind": "corpus cancel", "steps": [
            [["req", 0, 2], ["permit", 0], ["avail", 0, 2, 2]], [["cancel", 0]], [["req", 1, 2]], [["succeed", 0, 0]],
            [["permit", 0]], [["succeed", 0, 0]]]},
        # queue becomes empty without a version bump; stale watcher; new lowest wakes everybody
        {"peers": 2, "reqs": 3, "kind": "corpus empty", "steps": [
            [["req", 0, 5], ["permit", 0], ["permit", 1]], [["avail", 0, 5, 5]], [["avail", 1, 5, 6]],
            [["req", 1, 6]], [["fail", 0, 0], ["fail", 1, 0]], [["permit", 0], ["permit", 1]]]},
    ]
    p = os.path.join(common.CORPUS, "C19.json")
    if os.path.exists(p):
        cs += json.load(open(p))
    return cs


# ---------------------------------------------------------------------------
# observation / Coq terms

def impl_obs(o):
    # the unused call reservations of a cancelled connection are not observed
    return [[0, s["ev"], s["blocks"], [[x[0], x[1], x[2] if x[0] else 0, x[3]] for x in s["peers"]], s["reqs"]]
            for s in o["steps"]]


def coq_avail(first, last):
    return "{| a_first := %d; a_last := %s |}" % (first, "None" if last is None else "Some %d" % last)


def coq_op(op):
    k = op[0]
    if k == "req":
        return f"EReq {op[1]} {op[2]}"
    if k == "cancel":
        return f"ECancel {op[1]}"
    if k == "avail":
        return f"EAvail {op[1]} {coq_avail(op[2], op[3])}"
    if k == "permit":
        return f"EPermit {op[1]}"
    if k == "succeed":
        return f"ESucceed {op[1]} {op[2]}"
    if k == "fail":
        return f"EFail {op[1]} {op[2]}"
    if k == "disc":
        return f"EDisc {op[1]}"
    raise ValueError(op)


def coq_ev(e):
    if e[0] == 0:
        return f"EvAcc {e[1]} {e[2]}"
    if e[0] == 1:
        return f"EvAccDead {e[1]} {e[2]}"
    return f"EvReq {e[1]} {'true' if e[2] else 'false'}"


def coq_case(c, o):
    steps = []
    for ops, so in zip(c["steps"], o["steps"]):
        steps.append("(%s, %s)" % (coq_list([coq_op(x) for x in ops]), coq_list([coq_ev(e) for e in so["ev"]])))
    return "(%d%%nat, %d%%nat, %s)" % (c["peers"], c["reqs"], coq_list(steps))


# ---------------------------------------------------------------------------
# predicates: the statement of C19 evaluated on the implementation's log (no model involved)

def contains(av, n):
    return av[1] is not None and av[0] <= n <= av[1]


def predicate(c, o):
    bad = []
    P, R = c["peers"], c["reqs"]
    status = [0] * R            # as implied by script + events
    num = [None] * R
    att = [0] * R               # completion channels of r dropped so far
    holder = [None] * R         # peer currently owning r's live completion channel
    pending_ok = [False] * R
    cancelled = [False] * R
    by_num = {}                 # number -> running requester
    held = [[] for _ in range(P)]   # mirrors the per-connection list: (n, r, att)
    alive = [True] * P
    avail = [[0, None] for _ in range(P)]
    prev_blocks = []
    prev_in_accept = [0] * P
    stats = {"accepts": 0, "requeues": 0, "ok": 0, "cancels": 0, "dead_accepts": 0, "stale_handles": 0, "contended": 0}

    def current(e):
        n, r, a = e
        return status[r] == 1 and att[r] == a and by_num.get(n) == r

    def drop(e):
        if current(e):
            att[e[1]] += 1
            holder[e[1]] = None
            stats["requeues"] += 1
        else:
            stats["stale_handles"] += 1

    for si, (ops, so) in enumerate(zip(c["steps"], o["steps"])):
        touched = set()
        for op in ops:
            k, a = op[0], op[1]
            if k == "req":
                if status[a] == 0:
                    status[a], num[a] = 1, op[2]
                    if op[2] in by_num:
                        return bad, stats, "override"     # two live requesters for one number: outside the contract
                    by_num[op[2]] = a
                    touched.add(op[2])
            elif k == "cancel":
                if status[a] != 0:
                    cancelled[a] = True
                    if num[a] is not None:
                        touched.add(num[a])
            elif k == "avail":
                avail[a] = [op[2], op[3]]
            elif k in ("succeed", "fail"):
                if op[2] < len(held[a]):
                    e = held[a].pop(op[2])
                    touched.add(e[0])
                    if k == "succeed":
                        if current(e):
                            pending_ok[e[1]] = True
                            holder[e[1]] = None
                        else:
                            stats["stale_handles"] += 1
                    else:
                        drop(e)
            elif k == "disc":
                if alive[a]:
                    alive[a] = False
                    for e in held[a]:
                        touched.add(e[0])
                        drop(e)
                    held[a] = []
        ev_nums = set()
        for e in so["ev"]:
            ev_nums.add(num[e[1]] if e[0] == 2 else e[2])
        for e in so["ev"]:
            where = {"step": si, "event": e}
            if e[0] in (0, 1):
                p, n = e[1], e[2]
                stats["accepts"] += 1
                r = by_num.get(n)
                if r is None or status[r] != 1:
                    bad.append({**where, "failed": f"peer {p} accepted block {n} which nobody is requesting"})
                    continue
                if holder[r] is not None:
                    bad.append({**where, "failed": f"request for block {n} handed to peer {p} while peer {holder[r]} still holds it (double accept)"})
                if pending_ok[r]:
                    bad.append({**where, "failed": f"request for block {n} handed out again after its fetch succeeded"})
                if not contains(avail[p], n):
                    bad.append({**where, "failed": f"block {n} handed to peer {p} whose announced range is {avail[p]} (not announced)"})
                if (e[0] == 0) != alive[p]:
                    bad.append({**where, "failed": f"peer {p} liveness mismatch on accept"})
                lower = [m for m in prev_blocks if m < n and m in so["blocks"] and m not in touched and m not in ev_nums]
                if lower:
                    bad.append({**where, "failed": f"peer {p} was handed block {n} although lower block {lower[0]} was requested and waiting the whole time (not lowest first)"})
                if len([q for q in range(P) if alive[q] and contains(avail[q], n)]) > 1:
                    stats["contended"] += 1
                if e[0] == 0:
                    holder[r] = p
                    held[p].append((n, r, att[r]))
                else:
                    stats["dead_accepts"] += 1
                    att[r] += 1
                    stats["requeues"] += 1
            else:
                r, ok = e[1], e[2]
                if status[r] != 1:
                    bad.append({**where, "failed": f"request {r} returned twice or before it started"})
                    continue
                if ok:
                    stats["ok"] += 1
                    if not pending_ok[r]:
                        bad.append({**where, "failed": f"request {r} (block {num[r]}) returned Ok although no peer reported the block stored"})
                    status[r] = 2
                else:
                    stats["cancels"] += 1
                    if not cancelled[r]:
                        bad.append({**where, "failed": f"request {r} (block {num[r]}) gave up although it was never cancelled (request lost)"})
                    status[r] = 3
                if by_num.get(num[r]) == r:
                    del by_num[num[r]]
                if holder[r] is not None:
                    stats["stale_handles"] += 0
                holder[r] = None
        # ---- quiescent state
        where = {"step": si}
        blocks = so["blocks"]
        if so["reqs"] != status:
            bad.append({**where, "failed": f"requester status {so['reqs']} but the events imply {status}"})
        if [[e[0] for e in h] for h in held] != [x[3] for x in so["peers"]]:
            bad.append({**where, "failed": f"held calls {[x[3] for x in so['peers']]} differ from the accept/complete history {[[e[0] for e in h] for h in held]}"})
        for r in range(R):
            if status[r] != 1:
                continue
            n = num[r]
            if pending_ok[r]:
                bad.append({**where, "failed": f"block {n} was stored by a peer but request {r} did not return"})
                continue
            if cancelled[r]:
                bad.append({**where, "failed": f"request {r} was cancelled but did not return"})
                continue
            inq, isheld = n in blocks, holder[r] is not None
            if not inq and not isheld:
                bad.append({**where, "failed": f"block {n} is still wanted (request {r}) but is neither queued nor held by a peer: request lost"})
            if inq and isheld:
                bad.append({**where, "failed": f"block {n} is held by peer {holder[r]} and queued at the same time"})
        for n in blocks:
            if n not in by_num:
                bad.append({**where, "failed": f"block {n} is queued but nobody requests it"})
        if blocks:
            m = min(blocks)
            for p in range(P):
                x = so["peers"][p]
                if alive[p] and x[1] and contains(avail[p], m):
                    bad.append({**where, "failed": f"lowest requested block {m} is announced by peer {p}, whose acceptor is waiting, yet it was not handed over (lost wake-up)"})
        prev_blocks = blocks
        if bad:
            break
    return bad, stats, None


# ---------------------------------------------------------------------------

# ---------------------------------------------------------------------------
# run_block_fetcher (gossip/mod.rs): real loop (vh fetcher, needs the C19_fetcher hook) vs
# Model.Fetcher.run_case, plus predicates on the implementation's output alone

FBIN = "fetcher"
HOOK_FILE = os.path.join(common.REPO, "node/components/network/src/gossip/verif.rs")


def fetcher_hook_present():
    try:
        return "gossip_run_block_fetcher" in open(HOOK_FILE).read()
    except OSError:
        return False


class FSim:
    """python twin of Model.Fetcher.sim, used only to steer the generator towards meaningful scripts"""

    def __init__(self, start, limit):
        self.limit, self.next, self.q, self.p = limit, start, start, start
        self.tasks = {}          # n -> 'R' | 'P'
        self.arrived, self.permits, self.inq, self.held, self.storing = set(), 0, [], [], []
        self.settle()

    def settle(self):
        while True:
            if self.q in self.arrived:
                self.arrived.discard(self.q); self.q += 1; continue
            if self.permits > 0 and self.p < self.q:
                self.p += 1; self.permits -= 1; continue
            r = [n for n, ph in self.tasks.items() if ph == 'R' and n < self.q]
            if r:
                self.tasks[r[0]] = 'P'
                if r[0] in self.inq:
                    self.inq.remove(r[0])
                continue
            d = [n for n, ph in self.tasks.items() if ph == 'P' and n < self.p]
            if d:
                del self.tasks[d[0]]; continue
            if len(self.tasks) < self.limit:
                self.tasks[self.next] = 'R'; self.inq.append(self.next); self.next += 1; continue
            break
        self.storing = [n for n in self.storing if n >= self.q]

    def apply(self, ops):
        takes = 0
        for op in ops:
            k = op[0]
            if k == "arrive":
                if op[1] >= self.q:
                    self.arrived.add(op[1])
            elif k == "persist":
                self.permits += op[1]
            elif k == "take":
                takes += 1
            elif k in ("store", "drop") and op[1] < len(self.held):
                n = self.held.pop(op[1])
                if k == "store":
                    self.storing.append(n)
                    if n >= self.q:
                        self.arrived.add(n)
                elif self.tasks.get(n) == 'R':
                    self.inq.append(n)
        self.settle()
        for _ in range(takes):
            if self.inq:
                m = min(self.inq); self.inq.remove(m); self.held.append(m)


def gen_fetcher_case(rng):
    start = rng.choice([0, 0, 1, 2, 5, 17, 1000, rng.range(0, 60)])
    limit = rng.choice([1, 1, 2, 3, 3, 4, 6, 10, 0]) if rng.chance(9, 10) else rng.range(0, 12)
    sim = FSim(start, limit)
    steps = []
    for _ in range(rng.range(3, 28)):
        if rng.chance(1, 4):
            ops = [["take"]] * rng.range(1, 4)
        else:
            ops = []
            for _ in range(rng.choice([1, 1, 1, 2, 2, 3])):
                k = rng.below(100)
                if k < 30:
                    # a block arrives by another route: inside, just above, or below the window
                    n = rng.choice([sim.q, sim.q, sim.q + 1, sim.q + rng.below(limit + 3), max(0, sim.q - 1 - rng.below(3)),
                                    sim.p + limit + rng.below(3)])
                    ops.append(["arrive", n])
                elif k < 50:
                    ops.append(["persist", rng.choice([1, 1, 2, 3, limit + 1])])
                elif k < 75:
                    ops.append(["store", 0 if rng.chance(3, 4) else rng.below(4)])
                elif k < 92:
                    ops.append(["drop", 0 if rng.chance(3, 4) else rng.below(4)])
                else:
                    ops.append(["store", 9])       # out of range: no-op on both sides
        sim.apply(ops)
        steps.append(ops)
    return {"start": start, "limit": limit, "steps": steps}


def fetcher_corpus():
    return [
        {"start": 3, "limit": 3, "steps": [[["take"], ["take"]], [["store", 1]], [["store", 0]], [["persist", 1]],
                                           [["arrive", 6], ["arrive", 5]], [["persist", 5]], [["take"]] * 4, [["drop", 1], ["store", 0]], [["persist", 9]]]},
        # blocks arrive from consensus faster than they are persisted: nothing left to request
        {"start": 0, "limit": 2, "steps": [[["arrive", 0], ["arrive", 1], ["arrive", 2], ["arrive", 3]], [["take"]], [["persist", 1]], [["persist", 3]], [["take"], ["take"]]]},
        {"start": 10, "limit": 0, "steps": [[["take"]], [["arrive", 10]], [["persist", 2]]]},
    ]


def fetcher_obs(o):
    return [[1, s["blocks"], s["held"], s["storing"], s["qnext"], s["pnext"]] for s in o["steps"]]


def coq_fop(op):
    k = op[0]
    if k == "arrive":
        return f"OArrive {op[1]}"
    if k == "persist":
        return f"OPersist {op[1]}"
    if k == "take":
        return "OTake"
    if k == "store":
        return f"OStore {op[1]}"
    if k == "drop":
        return f"ODrop {op[1]}"
    raise ValueError(op)


def coq_fcase(c):
    return "(%d, %d%%nat, %s)" % (c["start"], c["limit"], coq_list([coq_list([coq_fop(x) for x in ops]) for ops in c["steps"]]))


def fetcher_predicate(c, o):
    """C19 for the fetcher, on the implementation's quiescent states alone: one live request per number,
    exactly the not yet queued numbers of [persisted.next, persisted.next + limit), none for a queued number."""
    bad = []
    L = c["limit"]
    for si, s in enumerate(o["steps"]):
        q, p = s["qnext"], s["pnext"]
        live = list(s["blocks"]) + [n for n in s["held"] if n >= q] + [n for n in s["storing"] if n >= q]
        where = {"step": si - 1, "state": s}
        if len(set(live)) != len(live):
            bad.append({**where, "failed": f"two live requests for one block number: {sorted(live)}"})
        low = [n for n in s["blocks"] if n < q]
        if low:
            bad.append({**where, "failed": f"block {low[0]} is requested although it is already queued (queued.next = {q})"})
        high = [n for n in live if n >= p + L]
        if high:
            bad.append({**where, "failed": f"block {high[0]} requested outside the window [{p}, {p + L}) of max_block_queue_size = {L}"})
        want = list(range(q, p + L))
        if sorted(set(live)) != want and not bad:
            missing = [n for n in want if n not in live]
            bad.append({**where, "failed": f"live requests {sorted(live)} differ from the missing blocks of the window {want}" + (f": block {missing[0]} is not requested (request lost)" if missing else "")})
        if bad:
            break
    return bad


def run_fetcher(rep, rng):
    """Returns dict(present, cases, mismatches, pred_fail, evals, distinct, samples)."""
    res = {"present": fetcher_hook_present(), "cases": 0, "mismatches": 0, "pred_fail": [], "evals": 0, "distinct": 0,
           "samples": [], "first": None}
    override = os.environ.get("C19_FETCHER_BIN")
    if not res["present"] and not override:
        return res
    if override:
        res["present"] = True
        orig = common.bin_path
        common.bin_path = lambda n, profile="dev": override if n == FBIN else orig(n, profile)
    else:
        ok, out = common.cargo_build([FBIN], "dev")
        if not ok:
            raise common.MachineryError("cargo build of fetcher failed: " + out[-2000:])
    n = 250 if rep.tier == "quick" else 5000
    cases = fetcher_corpus() + [gen_fetcher_case(rng) for _ in range(n)]
    outs = common.run_impl(FBIN, cases, "dev")
    if override:
        common.bin_path = orig
    coq_cases, dist = [], set()
    for i, (c, o) in enumerate(zip(cases, outs)):
        if "crash" in o or "skipped" in o:
            raise common.MachineryError(f"fetcher harness crashed on case {i}: {o}")
        if "panic" in o:
            res["pred_fail"].append({"fetcher_case": c, "failed": "run_block_fetcher harness panicked: " + o["panic"]})
            continue
        coq_cases.append((i, coq_fcase(c), common.to_obsv(fetcher_obs(o))))
        res["evals"] += len(o["steps"])
        for b in fetcher_predicate(c, o):
            res["pred_fail"].append({"fetcher_case": c, **b})
        if any(s["held"] or s["storing"] for s in o["steps"]) and o["steps"][-1]["pnext"] > c["start"]:
            dist.add(json.dumps(c))
    mm, samp = common.run_model_cases("C19f", "From EC Require Import Model.Fetcher.", "Model.Fetcher.run_case",
                                      coq_cases, shard_size=20 if rep.tier == "quick" else 320, sample_ids=[0, 1, 4])
    res["cases"], res["mismatches"], res["distinct"] = len(cases), len(mm), len(dist)
    res["samples"] = [{"fetcher_case": cases[i], "impl": outs[i], "model_obs": samp.get(i)} for i in (0, 1, 4)]
    if mm:
        i = sorted(mm)[0]
        res["first"] = {"fetcher_case": cases[i], "impl": outs[i], "model_obs": mm[i]}
    return res



def gen_cases(rng, n):
    cases = []
    for i in range(n):
        k = rng.below(10)
        style = "mixed" if k < 4 else "race" if k < 7 else "churn" if k < 9 else "tiny"
        cases.append(gen_case(rng, style))
    return cases


def run_impl_checked(cases):
    outs = common.run_impl(BIN, cases, "dev")
    for i, o in enumerate(outs):
        if "crash" in o or "skipped" in o:
            raise common.MachineryError(f"harness crashed on case {i}: {o}")
    return outs


def slim(c):
    return {k: c[k] for k in ("peers", "reqs", "steps")}


def run(rep):
    tier, rng = rep.tier, Rng(rep.seed)
    cov = rep.cov
    broken = []
    # translator: the three send_if_modified closures of gossip/fetch.rs are regenerated from the source; Properties/C19Gen.v proves them equal to the steps RIns / RWakeCancel / ATake of Model/Fetch.v
    import rust2coq
    translator, gen_files = rust2coq.step(["fetch"], ["theories/Properties/C19Gen.v"], broken)
    po = common.proof_obligations(PROP_FILES + gen_files)
    if not po["ok"]:
        broken.append("Coq obligations of Properties/C19.v: " + (po["log_tail"] or str(po["hygiene_problems"] or po["bad_axioms"])))
    ok, out = common.cargo_build([BIN], "dev")
    if not ok:
        raise common.MachineryError("cargo build failed: " + out[-2000:])
    ncases = 600 if tier == "quick" else 12000
    cases = corpus_cases() + gen_cases(rng, ncases)
    outs = run_impl_checked(cases)
    coq_cases, pred_fail, kinds, dist = [], [], {}, set()
    totals = {}
    panics = []
    evals = 0
    for i, (c, o) in enumerate(zip(cases, outs)):
        if "panic" in o:
            panics.append({"case": slim(c), "failed": "harness/implementation panicked: " + o["panic"]})
            continue
        kinds[c["kind"].split(" ")[0]] = kinds.get(c["kind"].split(" ")[0], 0) + 1
        coq_cases.append((i, coq_case(c, o), common.to_obsv(impl_obs(o))))
        bad, stats, skip = predicate(c, o)
        evals += len(c["steps"])
        for k, v in stats.items():
            totals[k] = totals.get(k, 0) + v
        for b in bad:
            pred_fail.append({"case": slim(c), **b})
        if stats["accepts"] >= 1 and stats["requeues"] + stats["cancels"] + stats["ok"] >= 1:
            dist.add(json.dumps([c["steps"], [s["ev"] for s in o["steps"]]]))
    pred_fail = panics + pred_fail
    sample_ids = [0, 1, 4, len(corpus_cases()) + 1]
    mm, samp = common.run_model_cases("C19", "From EC Require Import Model.Fetch.", "Model.Fetch.run_case",
                                      coq_cases, shard_size=40 if tier == "quick" else 200, sample_ids=sample_ids)
    if mm:
        broken.append(f"correspondence vh fetch vs Model.Fetch.run_case (trace acceptance + quiescent state): {len(mm)} disagreeing cases")
    ft = run_fetcher(rep, Rng(rep.seed ^ 0xFE7C4E2))
    if ft["mismatches"]:
        broken.append(f"correspondence vh fetcher (real run_block_fetcher) vs Model.Fetcher.run_case: {ft['mismatches']} disagreeing cases")
    pred_fail += ft["pred_fail"]
    searched = 0
    if broken and not pred_fail:
        # bigger predicate-only search on the implementation
        extra = gen_cases(Rng(rep.seed ^ 0xC19C19), 4000 if tier == "quick" else 40000)
        eouts = run_impl_checked(extra)
        searched = len(extra)
        for c, o in zip(extra, eouts):
            if "panic" in o:
                pred_fail.append({"case": slim(c), "failed": "panicked: " + o["panic"]})
                break
            bad, _, _ = predicate(c, o)
            if bad:
                pred_fail.append({"case": slim(c), **bad[0]})
                break
    if pred_fail:
        rep.violation("block fetch queue violates C19 on the implementation: " + pred_fail[0]["failed"],
                      {"failing_input": pred_fail[0], "more": pred_fail[1:4], "broken": broken})
    elif broken:
        first = None
        if mm:
            i = sorted(mm)[0]
            first = {"case": slim(cases[i]), "impl": outs[i], "model_obs": mm[i]}
        elif ft["first"]:
            first = ft["first"]
        rep.violation("C19 no longer shown to hold: " + "; ".join(broken)[:600],
                      {"broken": broken, "first_disagreement": first, "extra_cases_searched": searched}, found_input=False)
    cov.update({
        "obligations": po["obligations"] + 1 + (1 if ft["present"] else 0),
        "discharged": po["discharged"] + (0 if mm else 1) + (1 if ft["present"] and not ft["mismatches"] else 0),
        "fetcher_tie": ({"hook": "present", "scripts": ft["cases"], "evaluations": ft["evals"], "distinct_nontrivial": ft["distinct"],
                         "mismatches": ft["mismatches"], "predicate_failures": len(ft["pred_fail"]), "samples": ft["samples"][:2],
                         "rule": "the real Network::run_block_fetcher over the real EngineManager + runner and a scripted persistence layer (start 0..1000, max_block_queue_size 0..12), scripts of 3-28 steps: blocks arriving by another route inside/above/below the window, persist completions, a connection taking the lowest request, stored and failed calls; after every step the fetch queue, held/being-stored calls, queued.next and persisted.next must equal Model.Fetcher.run_case; non-trivial = a call was held or stored and the persisted head moved"}
                        if ft["present"] else
                        {"hook": "absent: /verif/proposed_hooks/C19_fetcher.diff not applied to /repo, the real run_block_fetcher is not executed on this run (theorems about Model.Fetcher still checked)"}),
        "checker_cmd": "./coqmake theories/Properties/C19.vo (make -C coq) + coqc on generated build/cases/C19/cases_*.v and build/cases/C19f/cases_*.v (vm_compute of Model.Fetch.run_case / Model.Fetcher.run_case)",
        "trusted_base": common.standard_trusted_base([
            "H-ATOM: tokio watch send_if_modified / borrow_and_update / changed, oneshot and BTreeMap behave as documented; the closure of send_if_modified is atomic; a task is not interrupted between awaits (this fixes the grain of the actions of Model.Fetch.step)",
            "vh fetch reproduces the glue of gossip/mod.rs (request inside a scope ended by a signal) and gossip/runner.rs (reserve, accept_block, keep handle) around the real Queue; vh fetcher runs the real Network::run_block_fetcher (hook Glue::gossip_run_block_fetcher) over the real EngineManager with a scripted persistence layer and pre-genesis blocks; run_stream itself is not executed",
        ]),
        "theorems": po["theorems"], "axioms": po["axioms"], "translator": translator,
        "evaluations": evals + ft["evals"],
        "distinct_nontrivial": len(dist) + ft["distinct"],
        "rule": "one evaluation = one script step (batch of environment actions applied back to back, runtime drained to quiescence, state observed) on the real Queue with 1-5 peers and up to 10 requesters; scripts of 2-36 steps in four styles (mixed, race = many peers announcing the same low numbers, churn = failure/disconnect heavy, tiny) + 5 corpus scenarios; the model must reproduce the observed event order by an execution of Model.Fetch.step and reach the same quiescent state (queued numbers, per-connection accept status/permits/held calls, per-request status) with no visible action left enabled; non-trivial = distinct (script, event log) with at least one hand-over and at least one re-queue, completion or cancellation",
        "input_distribution": {"styles": kinds, "events": totals, "scripts": len(cases)},
        "samples": [{"case": slim(cases[i]), "impl": outs[i], "model_obs": samp.get(i)} for i in sample_ids if i < len(cases)],
        "correspondence_mismatches": len(mm), "predicate_failures": len(pred_fail),
        "partial": ("Theorems quantify over every interleaving of the atomic actions of Model.Fetch (any number of peers and "
                    "requesters) and of Model.Fetcher (fetcher moves, blocks queued by any route, blocks persisted). Proved: request_conserved, "
                    "no_double_accept, failure/disconnect drop + re-queue, only_announced and lowest_first (history, step and state forms), "
                    "no_lost_wakeup invariant + progress_step, replayer soundness; progress in bounded form: while n is the lowest queued number and "
                    "connection p announces it, stays connected and has a reserved call, p's acceptor always has an enabled move and makes at most 5 moves "
                    "plus one per version bump by others in ANY execution, hence under k-bounded fairness the situation lasts fewer than k*(6+B) steps "
                    "(n handed over / cancelled, or a lower request arrived); higher inserts neither bump nor change the minimum (no starvation by higher "
                    "requests); success completes, failure re-queues. Fetcher: one live request per number, numbers requested once and consecutively, "
                    "window [persisted.next, persisted.next+limit), a request for a queued number is being cancelled, exact characterisation at rest; "
                    "under that contract request() never overrides and cancellation removes only its own entry. "
                    "Not proved: unbounded (infinite-schedule) fairness statements - the bounded form needs a bound B on interfering version bumps, "
                    "which the environment (new lower requests, other peers' stale takes) controls; a request that is not the lowest waits for the lower "
                    "ones (head-of-line, by design) so its hand-over needs a peer for each lower number; tokio internals (H-ATOM). "
                    "The two models are linked by the contract `env_ok` (a request for n starts only while nobody requests n), not composed into one system. "
                    "The queue correspondence re-creates the runner.rs connection glue (reserve, accept_block, keep handle) around the real Queue; run_stream itself "
                    "(rpc, timeouts) is not executed. Correspondence is single-threaded (event order resolves scheduler and select! nondeterminism); "
                    "multi-thread perturbed runs are not included."),
        "model_corrections": ("DESIGN §5 C19 states the wake-up invariant as `seen = ver -> m = current minimum`; the code does not signal when a take "
                              "empties the queue, so the invariant that holds (and is proved) is `seen = ver /\\ queue non-empty -> m = minimum`. "
                              "A cancelled connection's acceptor keeps moving until it notices the cancellation (observed on the real code: "
                              "corpus 'cancelled-connection-reobserves'), so acceptor actions do not depend on p_alive; a call taken by a "
                              "cancelled connection is dropped at once."),
    })
    rep.assumptions += ["H-ATOM (tokio watch/oneshot/BTreeMap atomicity and versioning as documented)"]


def replay(path):
    d = json.load(open(path))
    fi = d.get("failing_input") or d.get("first_disagreement")
    if not fi:
        print("no concrete input in replay file:", d.get("broken"))
        return 1
    if "fetcher_case" in fi:
        c = fi["fetcher_case"]
        if not fetcher_hook_present():
            print("the C19_fetcher hook is not applied to /repo: cannot run the real run_block_fetcher")
            return 1
        common.cargo_build([FBIN], "dev")
        o = common.run_impl(FBIN, [c], "dev")[0]
        print(json.dumps(o, indent=1))
        if "steps" in o:
            print("predicate failures:", json.dumps(fetcher_predicate(c, o), indent=1))
            mm, samp = common.run_model_cases("C19freplay", "From EC Require Import Model.Fetcher.", "Model.Fetcher.run_case",
                                              [(0, coq_fcase(c), common.to_obsv(fetcher_obs(o)))], sample_ids=[0])
            print("model:", json.dumps(samp.get(0)))
            print("model agrees" if not mm else "model DISAGREES")
        return 0
    c = dict(fi["case"])
    c.setdefault("kind", "replay")
    common.cargo_build([BIN], "dev")
    o = common.run_impl(BIN, [c], "dev")[0]
    print(json.dumps(o, indent=1))
    if "steps" in o:
        bad, stats, _ = predicate(c, o)
        print("predicate failures:", json.dumps(bad, indent=1))
        mm, samp = common.run_model_cases("C19replay", "From EC Require Import Model.Fetch.", "Model.Fetch.run_case",
                                          [(0, coq_case(c, o), common.to_obsv(impl_obs(o)))], sample_ids=[0])
        print("model:", json.dumps(samp.get(0)))
        print("model agrees" if not mm else "model DISAGREES")
    return 0
