"""C10 — no input from the network can crash a node.

Pieces tied together here:
  1. Coq obligations of Properties/C10.v (totality / bound theorems over Model/NetInput.v).
  2. translator gen/panic_sites.py: the panic-site inventory of the anchored files must equal the
     committed, classified inventory corpus/C10_inventory.json.
  3. decode fuzz (harness bin `netinput`, op decode) of every registered decoder in both overflow
     profiles: structure-aware boundary values for every integer field, byte mutations,
     truncations, length-prefix corruptions, deep nesting, random bytes; decoded values are
     re-encoded and decoded again. A panic anywhere is the violation, the bytes are the replay.
  4. correspondence of the model with the real code (std_conv reads, GenesisRaw::read, justification
     guard + successors, queue selection function, frame::recv_proto, the real Mux on all 65536
     headers and on random frame scripts), plus independent predicates (no panic, allocation bound).
"""
import json
import os
import re
import time

import common
import panic_sites
from common import Rng, coq_z, coq_list, coq_bool, coq_opt

PROP_FILES = ["theories/Properties/C10.v"]
BIN = "netinput"
U64 = 1 << 64
I64_MIN, I64_MAX = -(1 << 63), (1 << 63) - 1
I32_MIN, I32_MAX = -(1 << 31), (1 << 31) - 1
NS = 10 ** 9
PROFILES = ("dev", "release")

# ---------------------------------------------------------------------------
# protobuf wire format: schema-aware parse / serialise / mutate

VARINT_KINDS = {"int32", "int64", "uint32", "uint64", "sint32", "sint64", "bool", "enum"}
BOUNDARY_VARINTS = [0, 1, 2, 127, 128, 255, 256, 65535, 65536, NS - 1, NS, (1 << 31) - 1, 1 << 31, (1 << 32) - 1, 1 << 32,
                    (1 << 63) - 1, 1 << 63, U64 - 2, U64 - 1, U64 - NS, U64 - NS + 1, U64 - (1 << 31), U64 - (1 << 31) - 1,
                    (1 << 63) + 1]


def enc_varint(v, pad=0):
    v &= U64 - 1
    out = bytearray()
    while True:
        b = v & 0x7F
        v >>= 7
        if v or pad:
            out.append(b | 0x80)
            if not v:
                # non-minimal encoding: pad with continuation groups of zero
                for _ in range(pad - 1):
                    out.append(0x80)
                out.append(0x00)
                break
        else:
            out.append(b)
            break
    return bytes(out)


def rd_varint(b, i):
    v, s = 0, 0
    while True:
        if i >= len(b) or s > 63:
            return None, i
        x = b[i]
        i += 1
        v |= (x & 0x7F) << s
        s += 7
        if not x & 0x80:
            return v, i


class Node:
    __slots__ = ("num", "wt", "val", "sub", "fd", "len_override", "pad")

    def __init__(self, num, wt, val, sub=None, fd=None):
        self.num, self.wt, self.val, self.sub, self.fd = num, wt, val, sub, fd
        self.len_override = None
        self.pad = 0


def parse(b, msg, schema, depth=0):
    """bytes -> list of Node following the schema; None when the bytes are not a well-formed message."""
    fields = {f["n"]: f for f in schema["messages"].get(msg, [])} if msg else {}
    i, out = 0, []
    while i < len(b):
        tag, i = rd_varint(b, i)
        if tag is None:
            return None
        num, wt = tag >> 3, tag & 7
        fd = fields.get(num)
        if wt == 0:
            v, i = rd_varint(b, i)
            if v is None:
                return None
            out.append(Node(num, 0, v, fd=fd))
        elif wt == 1:
            if i + 8 > len(b):
                return None
            out.append(Node(num, 1, b[i:i + 8], fd=fd))
            i += 8
        elif wt == 5:
            if i + 4 > len(b):
                return None
            out.append(Node(num, 5, b[i:i + 4], fd=fd))
            i += 4
        elif wt == 2:
            n, i = rd_varint(b, i)
            if n is None or i + n > len(b):
                return None
            body = b[i:i + n]
            i += n
            sub = None
            if fd and fd["k"] == "message" and depth < 40:
                sub = parse(body, fd["m"], schema, depth + 1)
            out.append(Node(num, 2, body, sub=sub, fd=fd))
        else:
            return None
    return out


def ser(nodes):
    out = bytearray()
    for nd in nodes:
        out += enc_varint((nd.num << 3) | nd.wt)
        if nd.wt == 0:
            out += enc_varint(nd.val, nd.pad)
        elif nd.wt in (1, 5):
            out += nd.val
        else:
            body = ser(nd.sub) if nd.sub is not None else nd.val
            n = len(body) if nd.len_override is None else nd.len_override
            out += enc_varint(n) + body
    return bytes(out)


def walk(nodes, path=()):
    for k, nd in enumerate(nodes):
        yield path + (k,), nd
        if nd.sub is not None:
            yield from walk(nd.sub, path + (k,))


def clone(nodes):
    out = []
    for nd in nodes:
        c = Node(nd.num, nd.wt, nd.val, clone(nd.sub) if nd.sub is not None else None, nd.fd)
        out.append(c)
    return out


def at(nodes, path):
    lst = nodes
    for k in path[:-1]:
        lst = lst[k].sub
    return lst, path[-1]


def structural_mutations(seed_bytes, msg, schema, rng, cap):
    """Returns [(label, bytes)]: boundary values of every integer field, missing / duplicated / emptied
    fields, oversized collections, byte-string length changes, length-prefix corruptions.
    Mutations are first listed as specs, capped (keeping at least one per field and class), then built."""
    tree = parse(seed_bytes, msg, schema)
    if tree is None:
        return []
    specs = []   # (label, path, op, arg)
    for path, nd in walk(tree):
        name = (nd.fd or {}).get("name", f"#{nd.num}")
        if nd.wt == 0:
            for v in BOUNDARY_VARINTS:
                specs.append((f"int:{name}={v}", path, "val", v))
            specs.append((f"nonminimal:{name}", path, "pad", 3))
            specs.append((f"emptypacked:{name}", path, "emptypacked", None))
        if nd.wt in (1, 5):
            for v in (b"\x00", b"\xff", b"\x80"):
                specs.append((f"fixed:{name}", path, "val", v * len(nd.val)))
        specs.append((f"missing:{name}", path, "del", None))
        specs.append((f"dup:{name}", path, "dup", 1))
        if nd.wt == 2:
            specs.append((f"empty:{name}", path, "bytes", b""))
            if nd.sub is None:
                for lab, v in (("short", nd.val[:-1]), ("long", nd.val + b"\x00"), ("one", b"\x01"),
                               ("big", bytes(rng.below(256) for _ in range(300))),
                               ("ff", b"\xff" * max(1, len(nd.val)))):
                    specs.append((f"bytes-{lab}:{name}", path, "bytes", v))
            if nd.fd and nd.fd.get("l"):
                specs.append((f"oversized:{name}", path, "dup", 40))
            body_len = len(ser(nd.sub)) if nd.sub is not None else len(nd.val)
            for lab, n in (("+1", body_len + 1), ("-1", max(0, body_len - 1)), ("0", 0), ("2^31", 1 << 31),
                           ("2^32", 1 << 32), ("max", U64 - 1), ("x2", 2 * body_len + 7)):
                specs.append((f"len{lab}:{name}", path, "len", n))
    # pairs of integer fields at boundary values (how two-field witnesses such as
    # {seconds: i64::MIN, nanos: -1} are found rather than replayed)
    ints = [(path, nd) for path, nd in walk(tree) if nd.wt == 0]
    pair_specs = []
    if 2 <= len(ints) <= 8:
        PB = [0, 1, NS - 1, NS, (1 << 31) - 1, 1 << 31, (1 << 32) - 1, (1 << 63) - 1, 1 << 63, (1 << 63) + 1,
              U64 - 1, U64 - NS, U64 - NS + 1, U64 - (1 << 31)]
        for i in range(len(ints)):
            for j in range(i + 1, len(ints)):
                for a in PB:
                    for b in PB:
                        ni = (ints[i][1].fd or {}).get("name", "?")
                        nj = (ints[j][1].fd or {}).get("name", "?")
                        pair_specs.append((f"int2:{ni},{nj}={a},{b}", ints[i][0], "val2", (a, ints[j][0], b)))
        if len(pair_specs) > cap:
            pair_specs = rng.shuffle(pair_specs)[:cap]
    if len(specs) > cap:
        keep, rest, seen = [], [], set()
        for sp in specs:
            cls = sp[0].split("=")[0]
            if cls not in seen:
                seen.add(cls)
                keep.append(sp)
            else:
                rest.append(sp)
        if len(keep) > cap:
            keep = rng.shuffle(keep)[:cap]
        specs = keep + rng.shuffle(rest)[:max(0, cap - len(keep))]
    out = []
    for lab, path, op, arg in specs + pair_specs:
        t = clone(tree)
        lst, k = at(t, path)
        if op == "val2":
            lst[k].val = arg[0]
            l2, k2 = at(t, arg[1])
            l2[k2].val = arg[2]
        elif op == "val":
            lst[k].val = arg
        elif op == "pad":
            lst[k].pad = arg
        elif op == "emptypacked":
            lst[k].wt, lst[k].val = 2, b""
        elif op == "del":
            del lst[k]
        elif op == "dup":
            for _ in range(arg):
                lst.insert(k, clone([lst[k]])[0])
        elif op == "bytes":
            lst[k].sub, lst[k].val = None, arg
        elif op == "len":
            lst[k].len_override = arg
        out.append((lab, ser(t)))
    return out


def byte_mutations(b, rng, n_mut, n_trunc):
    out = []
    if not b:
        return out
    L = len(b)
    cuts = range(L) if L <= n_trunc else sorted({rng.below(L) for _ in range(n_trunc)} | {0, 1, L - 1})
    for c in cuts:
        out.append((f"trunc:{c}", b[:c]))
    for _ in range(n_mut):
        p = rng.below(L)
        how = rng.below(5)
        x = bytearray(b)
        if how == 0:
            x[p] ^= 1 << rng.below(8)
        elif how == 1:
            x[p] = 0xFF
        elif how == 2:
            x[p] = 0
        elif how == 3:
            x[p] = rng.below(256)
        else:
            del x[p]
        out.append((f"byte:{p}", bytes(x)))
    return out


def nesting_inputs(schema, msg, deep=True):
    out = []
    for d in (50, 99, 100, 101, 120, 1000) + ((20000,) if deep else ()):
        out.append((f"groups:{d}", b"\x0b" * d + b"\x0c" * d))
        out.append((f"opengroups:{d}", b"\x0b" * d))
    # LEN nesting along message-typed fields of the schema, as deep as the schema allows, then garbage
    fs = [f for f in schema["messages"].get(msg, []) if f["k"] == "message"]
    for f in fs[:3]:
        for d in (120, 2000):
            body = b""
            for _ in range(d):
                body = enc_varint((f["n"] << 3) | 2) + enc_varint(len(body)) + body
            out.append((f"lennest:{f['name']}:{d}", body))
    return out


def random_inputs(rng, n):
    out = []
    for _ in range(n):
        L = rng.choice([1, 2, 3, 4, 8, 16, 40])
        if rng.chance(1, 2):
            b = bytes(rng.below(256) for _ in range(L))
        else:
            # plausible tags of small field numbers
            b = bytearray()
            for _ in range(rng.range(1, 5)):
                b += enc_varint((rng.range(1, 6) << 3) | rng.choice([0, 0, 2, 2, 1, 5, 3, 4, 6, 7]))
                b += bytes(rng.below(256) for _ in range(rng.below(6)))
            b = bytes(b)
        out.append(("random", b))
    return out


# ---------------------------------------------------------------------------
# observation mapping (Rust JSON -> nested ints, as Model.NetInput.run_case prints them)

def panic_code(msg):
    m = msg.lower()
    if "attempt to" in m and "overflow" in m:
        return 1
    if "divide by zero" in m:
        return 2
    if "index out of" in m or "out of range for slice" in m or "out of bounds" in m:
        return 3
    if "unreachable" in m:
        return 5
    if "assert" in m:
        return 6
    return 4   # unwrap / expect family


def o_build(b):
    if "ok" in b:
        return [0, int(b["ok"][0]), int(b["ok"][1])]
    return [1, panic_code(b["panic"])]


def err_code(msg, table):
    for s, c in table:
        if s in msg:
            return c
    return 99


DUR_ERR = [("seconds: missing", 1), ("nanos: missing", 2), ("duration out of range", 3)]


def o_dur(o, prefix=""):
    if "panic" in o:
        return [1, panic_code(o["panic"])]
    if "err" in o:
        return [2, err_code(o["err"], DUR_ERR)]
    v = o["ok"]
    return [0, int(v["s"]), int(v["n"]), o_build(v["build"])]


def o_simple(o, errs, okf):
    if "panic" in o:
        return [1, panic_code(o["panic"])]
    if "err" in o:
        return [2, err_code(o["err"], errs)]
    return [0] + okf(o["ok"])


ADDR_ERR = [("ip: missing", 1), ("invalid ip length", 4), ("port: missing", 2), ("port:", 3)]
BITS_ERR = [("size: missing", 1), ("bytes_: missing", 2), ("less than", 3)]
RATE_ERR = [("burst: missing", 1), ("refresh: missing field", 2), ("refresh: seconds: missing", 11),
            ("refresh: nanos: missing", 12), ("refresh: duration out of range", 13), ("burst:", 3)]
GEN_ERR = [("unsupported protocol version", 2), ("protocol_version", 1), ("validators_schedule", 3),
           ("chain_id", 4), ("fork_number", 5), ("first_block", 6)]
FRAME_ERR = [("read_exact(len)", 1), ("message too large", 2), ("read_exact(msg)", 3), ("decode()", 4)]


def o_u64(o):
    if "ok" in o:
        return [0, int(o["ok"])]
    return [1, panic_code(o["panic"])]


def zopt(v):
    return coq_opt(None if v is None else coq_z(v))


def jopt(v):
    return None if v is None else str(v)


# ---------------------------------------------------------------------------
# source facts the model is parameterised by (which repairs are present in /repo)

def source_flags():
    def has(rel, rx):
        try:
            return re.search(rx, open(os.path.join("/repo", rel)).read(), re.S) is not None
        except OSError:
            return False
    return {
        # repair 3005ef8: duration_from_parts rejects seconds == i64::MIN with negative nanos
        "dur_guard": has("node/libs/protobuf/src/std_conv.rs",
                         r"fn duration_from_parts.*?ensure!\(\s*d\.whole_seconds\(\)\s*>\s*i64::MIN\s*\|\|\s*d\.subsec_nanoseconds\(\)\s*>=\s*0"),
        # repair dc190e4: checked construction instead of Duration::new
        "dur_checked": has("node/libs/protobuf/src/std_conv.rs", r"fn duration_from_parts.*?checked_add"),
        # repair 900c4da
        "genesis_fixed": has("node/libs/roles/src/validator/messages/genesis.rs",
                             r"fn read\(r: &Self::Proto\).*?v => anyhow::bail!\(\"unsupported protocol version"),
        # repair b4a462d
        "just_fixed": has("node/libs/roles/src/validator/messages/v2/leader_proposal.rs",
                          r"ensure!\(qc_view\.0 < u64::MAX"),
        # repair e65da50
        "mux_fixed": has("node/components/network/src/mux/mod.rs", r"kind => \{\s*return Err\(RunError::Protocol"),
    }


# ---------------------------------------------------------------------------
# model-correspondence case generators: each returns (rust_case, coq_term_fn(out, chk), obs_fn(out))

def gen_model_cases(rng, tier, flags):
    cases = []   # (kind, rust_case, to_coq(out, chk) -> str, to_obs(out) -> list)
    g = coq_bool(flags["dur_guard"])
    svals = [0, 1, -1, 5, -5, I64_MIN, I64_MIN + 1, I64_MIN + 2, I64_MAX, I64_MAX - 1, NS, -NS, rng.next() - (1 << 63)]
    nvals = [0, 1, -1, NS - 1, -(NS - 1), NS, -NS, NS + 1, 2 * NS, -2 * NS, I32_MAX, I32_MIN, rng.range(I32_MIN, I32_MAX)]
    for k, ctor in (("dur", "CDur"), ("ts", "CTs")):
        for s in svals + [None]:
            for n in nvals + [None]:
                rc = {"op": "std", "k": k, "s": jopt(s), "n": n}
                cases.append((k, rc, (lambda o, chk, s=s, n=n, ctor=ctor: f"{ctor} {g} {chk} {zopt(s)} {zopt(n)}"), o_dur))
    for s, n in [(I64_MAX, NS), (I64_MAX, I32_MAX), (I64_MIN, -NS), (I64_MIN, I32_MIN), (0, 0), (5, -1), (-5, 1), (I64_MAX, NS - 1), (I64_MIN, -1)]:
        rc = {"op": "std", "k": "dur_new", "s": str(s), "n": n}
        cases.append(("dur_new", rc, (lambda o, chk, s=s, n=n: f"CDurNew {coq_z(s)} {coq_z(n)}"),
                      lambda o: [1, panic_code(o["panic"])] if "panic" in o else [0, int(o["ok"]["s"]), int(o["ok"]["n"])]))
    for l in [None, 0, 1, 3, 4, 5, 15, 16, 17, 32]:
        for p in [None, 0, 1, 65535, 65536, (1 << 32) - 1]:
            rc = {"op": "std", "k": "addr", "ip": None if l is None else "ab" * l, "port": jopt(p)}
            cases.append(("addr", rc, (lambda o, chk, l=l, p=p: f"CAddr {zopt(l)} {zopt(p)}"),
                          lambda o: o_simple(o, ADDR_ERR, lambda v: [v["iplen"], v["port"]])))
    for sz in [None, 0, 1, 7, 8, 9, 64, 799, 800, 801, 1 << 32, 1 << 63, U64 - 1]:
        for nb in [None, 0, 1, 2, 8, 100]:
            rc = {"op": "std", "k": "bits", "size": jopt(sz), "nbytes": jopt(nb)}
            cases.append(("bits", rc, (lambda o, chk, sz=sz, nb=nb: f"CBits {zopt(sz)} {zopt(nb)}"),
                          lambda o: o_simple(o, BITS_ERR, lambda v: [int(v["size"]), v["nbytes"]])))
    for b in [None, 0, 1, 1 << 32, U64 - 1]:
        for rf in [None, (1, 5), (None, 5), (1, None), (I64_MAX, NS), (I64_MIN, -1), (-3, -7)]:
            rc = {"op": "std", "k": "rate", "burst": jopt(b)}
            if rf is None:
                rc["norefresh"] = True
                rc["s"] = rc["n"] = None
            else:
                rc["s"], rc["n"] = jopt(rf[0]), rf[1]
            rft = "None" if rf is None else f"(Some ({zopt(rf[0])}, {zopt(rf[1])}))"
            cases.append(("rate", rc, (lambda o, chk, b=b, rft=rft: f"CRate {g} {zopt(b)} {rft}"),
                          lambda o: o_simple(o, RATE_ERR, lambda v: [int(v["burst"]), [0, int(v["build"]["ok"])] if "ok" in v["build"] else [1, panic_code(v["build"]["panic"])]])))
    gf = coq_bool(flags["genesis_fixed"])
    for pv in [None, 0, 1, 2, 3, (1 << 32) - 1]:
        for sched in ["none", "valid", "bad"]:
            for (c, f, b) in [(1, 2, 3), (None, 2, 3), (1, None, 3), (1, 2, None), (U64 - 1, U64 - 1, U64 - 1), (None, None, None)]:
                rc = {"op": "genesis", "pv": pv, "chain": jopt(c), "fork": jopt(f), "first": jopt(b), "sched": sched}
                st = {"none": "None", "valid": "(Some true)", "bad": "(Some false)"}[sched]

                def obs(o):
                    r = o["raw"]
                    return o_simple(r, GEN_ERR, lambda v: [v["pv"], 1 if v["sched"] else 0, [0] if v["build"] == "ok" else [1, panic_code(v["build"]["panic"])]])
                cases.append(("genesis", rc, (lambda o, chk, pv=pv, st=st, c=c, f=f, b=b: f"CGenesis {gf} {zopt(pv)} {st} {zopt(c)} {zopt(f)} {zopt(b)}"), obs))
    jf = coq_bool(flags["just_fixed"])
    vvals = [0, 1, 7, 1 << 32, 1 << 63, U64 - 3, U64 - 2, U64 - 1, rng.next(), rng.next() >> 20]
    for v in vvals:
        for kind in ("commit", "timeout"):
            rc = {"op": "just", "kind": kind, "view": str(v)}

            def obs(o):
                r = o["read"]
                if "panic" in r:
                    ro = [1, panic_code(r["panic"])]
                elif "err" in r:
                    ro = [2, 3]
                else:
                    ro = [0, o_u64(r["ok"])]
                return [o_u64(o["vnext"]), o_u64(o["bnext"]), ro]
            cases.append(("just", rc, (lambda o, chk, v=v: f"CJust {chk} {jf} {coq_z(v)}"), obs))
    kinds = ["commit", "timeout", "newview", "proposal"]
    kc = {"commit": "KCommit", "timeout": "KTimeout", "newview": "KNewView", "proposal": "KProposal"}
    sel_vals = [0, 1, 5, U64 - 2, U64 - 1]
    nsel = 0
    for same in (True, False):
        for ko in kinds:
            for kn in kinds:
                if ko != kn and rng.chance(2, 3):
                    continue
                for vo in sel_vals:
                    for vn in sel_vals:
                        if tier == "quick" and not (vo in (U64 - 1, 5) or vn in (U64 - 1, 5)) and rng.chance(1, 2):
                            continue
                        rc = {"op": "sel", "same_key": same, "ko": ko, "kn": kn, "vo": str(vo), "vn": str(vn)}
                        cases.append(("sel", rc, (lambda o, chk, same=same, ko=ko, kn=kn, vo=vo, vn=vn:
                                                  f"CSel {chk} {coq_bool(same)} {kc[ko]} {coq_z(vo)} {kc[kn]} {coq_z(vn)}"),
                                      lambda o: [1, panic_code(o["panic"])] if "panic" in o else [0, o["ok"]]))
                        nsel += 1
    # frames
    dur_ok = bytes([0x08, 0x01, 0x10, 0x05])
    bodies = [dur_ok, b"", b"\x08", b"\xff\xff\xff", dur_ok + dur_ok, bytes(rng.below(256) for _ in range(20)), b"\x0a\x00"]
    for mx in [0, 3, 4, 5, 64, 10240]:
        for body in bodies:
            for ln in sorted({len(body), len(body) + 1, max(0, len(body) - 1), mx, mx + 1, 0, 0xFFFFFFFF, 0x7FFFFFFF, 1 << 24}):
                if ln > 0xFFFFFFFF:
                    continue
                data = ln.to_bytes(4, "little") + body
                for chunk in (0, 1):
                    if chunk and rng.chance(2, 3):
                        continue
                    rc = {"op": "frame", "max": mx, "hex": data.hex(), "t": "std.Duration", "chunk": chunk}

                    def obs(o):
                        r = o["res"]
                        if "panic" in r:
                            ro = [1, panic_code(r["panic"])]
                        elif "err" in r:
                            ro = [2, err_code(r["err"], FRAME_ERR)]
                        else:
                            ro = [0]
                        return [ro, o["consumed"]]
                    cases.append(("frame", rc, (lambda o, chk, mx=mx, data=data:
                                                f"CFrame {mx} {coq_list([str(x) for x in data])} {0 if o['body'] is None else o['body']}"), obs))
    # mux_recv_proto on a real transient stream between two real Mux instances (hook recv_proto_named)
    def mf_obs(o):
        r = o["res"]
        if "ok" in r:
            return [0]
        if "err" in r:
            e = r["err"]
            return [13 if "end of stream" in e else 2 if "message too large" in e else 4]
        return [9]
    mfb = [dur_ok, b"", b"\x08", b"\xff\xff\xff", dur_ok * 10, bytes(rng.below(256) for _ in range(90))]
    for mx in [0, 3, 4, 64, 10240]:
        for body in mfb:
            for ln in sorted({len(body), len(body) + 1, max(0, len(body) - 1), mx, mx + 1, 0, 0xFFFFFFFF, 0x7FFFFFFF, 1 << 24}):
                if tier == "quick" and ln not in (len(body), mx + 1, 0xFFFFFFFF) and rng.chance(1, 2):
                    continue
                data = ln.to_bytes(4, "little") + body
                wfs, rfs = rng.choice([(16384, 16384), (3, 2), (1, 1), (64, 5)])
                rc = {"op": "muxframe", "max": mx, "hex": data.hex(), "wfs": wfs, "rfs": rfs}
                cases.append(("muxframe", rc, (lambda o, chk, mx=mx, data=data:
                                               f"CMuxFrame {mx} {coq_list([str(x) for x in data])} {0 if o['body'] is None else o['body']}"), mf_obs))
    for data in [b"", b"\x01", b"\x01\x00\x00", b"\xff\xff\xff"]:
        rc = {"op": "muxframe", "max": 100, "hex": data.hex()}
        cases.append(("muxframe", rc, (lambda o, chk, data=data: f"CMuxFrame 100 {coq_list([str(x) for x in data])} 0"), mf_obs))
    for data in [b"", b"\x01", b"\x01\x00", b"\x01\x00\x00"]:
        rc = {"op": "frame", "max": 100, "hex": data.hex(), "t": "std.Duration"}
        cases.append(("frame", rc, (lambda o, chk, data=data: f"CFrame 100 {coq_list([str(x) for x in data])} 0"),
                      lambda o: [[2, err_code(o["res"].get("err", ""), FRAME_ERR)] if "err" in o["res"] else [1, 4], o["consumed"]]))
    # random multi-frame mux scripts
    mf = coq_bool(flags["mux_fixed"])
    nscripts = 150 if tier == "quick" else 1500
    for _ in range(nscripts):
        na, nc = rng.choice([(2, 3), (0, 1), (4, 0), (1, 1), (3, 5)])
        script = bytearray()
        for _ in range(rng.range(1, 6)):
            z = rng.below(10)
            sk = rng.choice([0, 0x2000])
            tbl = nc if sk == 0 else na
            sid = rng.below(tbl) if (tbl and z < 8) else rng.choice([tbl, tbl + 1, 8191, rng.below(8192)])
            fk = rng.choice([0, 0x4000, 0x8000, 0x4000]) if z != 9 else 0xC000
            h = fk | sk | sid
            script += h.to_bytes(2, "little")
            if fk == 0x4000:
                L = rng.choice([0, 1, 2, 5, 300])
                have = L if rng.chance(4, 5) else rng.below(L + 1)
                script += L.to_bytes(2, "little") + bytes(rng.below(256) for _ in range(have))
        if rng.chance(1, 4):
            script += bytes([rng.below(256)])
        script = bytes(script)
        rc = {"op": "mux", "na": na, "nc": nc, "rfs": rng.choice([1, 7, 1024, 65535]), "hex": script.hex()}
        cases.append(("mux", rc, (lambda o, chk, na=na, nc=nc, script=script: f"CMux {mf} {na} {nc} {coq_list([str(x) for x in script])}"),
                      lambda o: [o["code"], o["consumed"]]))
    return cases


def rle(xs):
    out = []
    for x in xs:
        if out and out[-1][0] == x:
            out[-1][1] += 1
        else:
            out.append([x, 1])
    return out


# ---------------------------------------------------------------------------

def build_bins():
    for prof in PROFILES:
        ok, out = common.cargo_build([BIN], prof)
        if not ok:
            raise common.MachineryError(f"cargo build ({prof}) failed: " + out[-2000:])


def harness(cases, prof, shards=16):
    outs = common.run_impl(BIN, cases, prof, shards=shards)
    return outs


def load_corpus():
    p = os.path.join(common.CORPUS, "C10.json")
    if not os.path.exists(p):
        return []
    return json.load(open(p))["cases"]


def decode_cases(rng, tier, schema, seeds):
    """All fuzz inputs: list of {"op":"decode","t":..,"hex":..,"label":..}."""
    cases = []
    dist = {}
    cap = 150 if tier == "quick" else 1500
    n_mut, n_trunc, n_rand = (16, 16, 20) if tier == "quick" else (200, 150, 400)

    def add(t, lab, b):
        cases.append({"op": "decode", "t": t, "hex": b.hex(), "label": lab})
        cls = lab.split(":")[0]
        dist[cls] = dist.get(cls, 0) + 1

    for t, msg in sorted(schema["types"].items()):
        ss = [bytes.fromhex(h) for h in seeds[t]]
        for k, sb in enumerate(ss):
            add(t, "seed", sb)
            for lab, b in structural_mutations(sb, msg, schema, rng, cap if k == 0 else cap // 3):
                add(t, lab, b)
            for lab, b in byte_mutations(sb, rng, n_mut if k == 0 else n_mut // 3, n_trunc if k == 0 else n_trunc // 3):
                add(t, lab, b)
        for lab, b in nesting_inputs(schema, msg, deep=(tier != "quick")):
            add(t, lab, b)
        for lab, b in random_inputs(rng, n_rand):
            add(t, lab, b)
    return cases, dist


def run(rep):
    tier, rng = rep.tier, Rng(rep.seed)
    cov = rep.cov
    broken, findings = [], []     # findings: concrete failing inputs (predicate failures)
    t0 = time.time()

    # 1. proofs ------------------------------------------------------------------------------
    # the harness build (cargo, both profiles in parallel) overlaps with the Coq build
    import threading
    build_err = []

    def _build(prof):
        ok, out = common.cargo_build([BIN], prof)
        if not ok:
            build_err.append(f"cargo build ({prof}) failed: " + out[-2000:])
    bths = [threading.Thread(target=_build, args=(prof,)) for prof in PROFILES]
    for t in bths:
        t.start()
    # translator: duration_from_parts and the Duration / Utc read / build of std_conv.rs are regenerated from the source;
    # Properties/C10Gen.v proves them equal to Model/NetInput.v
    import rust2coq
    translator, gen_files = rust2coq.step(["std_conv"], ["theories/Properties/C10Gen.v"], broken)
    po = common.proof_obligations(PROP_FILES + gen_files)
    if not po["ok"]:
        broken.append("Coq obligations of Properties/C10.v" + (", C10Gen.v" if gen_files else "") + ": " + (po["log_tail"] or str(po["hygiene_problems"] or po["bad_axioms"])))
    t_proofs = time.time() - t0
    marks = {'proofs': round(t_proofs, 1)}

    # 2. inventory translator -------------------------------------------------------------------
    inv_path = os.path.join(common.CORPUS, "C10_inventory.json")
    inv = json.load(open(inv_path))
    files = panic_sites.anchored_files("C10")
    translator_note = None
    try:
        sites = panic_sites.extract(files)
        new, changed, stale, unclassified = panic_sites.compare(sites, inv["sites"])
    except Exception as e:   # the source no longer parses: degrade to fuzz + correspondence only
        sites, new, changed, stale, unclassified = [], [], [], [], []
        translator_note = f"panic-site extractor failed ({e}); degraded to fuzz + correspondence only"
    thm_names = set(po["theorems"])
    bad_refs = []
    for e in inv["sites"]:
        if e.get("class") == "theorem":
            m = re.match(r"(C10_\w+)", e.get("by", ""))
            if not m or m.group(1) not in thm_names:
                bad_refs.append(e)
    inventory_ok = not (new or changed or unclassified or bad_refs or set(files) != set(inv["files"]))
    if not inventory_ok:
        broken.append(f"panic-site inventory differs from corpus/C10_inventory.json: {len(new)} new, {len(changed)} changed count, "
                      f"{len(unclassified)} unclassified, {len(bad_refs)} entries naming a missing theorem")

    # 3. harness -------------------------------------------------------------------------------
    for t in bths:
        t.join()
    if build_err:
        raise common.MachineryError(build_err[0])
    flags = source_flags()
    meta = harness([{"op": "schema"}, {"op": "seeds", "seed": str(rep.seed), "count": 2 if tier == "quick" else 3}], "dev", shards=1)
    schema, seeds = meta[0], meta[1]["seeds"]

    marks['build+schema'] = round(time.time() - t0, 1)
    # 3a. regression corpus first
    corpus = [] if os.environ.get("C10_NO_CORPUS") else load_corpus()   # (self-test switch: shows what the generators find unaided)
    corpus_fail = []
    for prof in PROFILES:
        outs = harness([c["case"] for c in corpus], prof, shards=1)
        for c, o in zip(corpus, outs):
            if "crash" in o or not all(json.dumps(o.get(k)) == json.dumps(v) for k, v in c["expect"].items()):
                corpus_fail.append({"name": c["name"], "profile": prof, "case": c["case"], "impl": o, "expected": c.get("expect")})
    for f in corpus_fail:
        findings.append({"what": f"regression case '{f['name']}' ({f['profile']} profile): {json.dumps(f['impl'])[:200]}", "failing_input": f})

    # 3b. decode fuzz, both profiles
    dcases, dist = decode_cases(rng, tier, schema, seeds)
    fuzz_stats = {}
    distinct = set()
    value_inputs = 0
    for prof in PROFILES:
        outs = harness(dcases, prof)
        st = {"value": 0, "error": 0, "panic": 0, "rt_differs": 0, "rt_rejected": 0, "semantically_verified": 0}
        for c, o in zip(dcases, outs):
            if "crash" in o or "skipped" in o:
                if "crash" in o:
                    findings.append({"what": f"decoder process died (abort / stack overflow) on {c['t']} [{c['label']}] in the {prof} profile",
                                     "failing_input": {"case": c, "profile": prof, "impl": o}})
                continue
            r = o.get("r")
            st[r] = st.get(r, 0) + 1
            if r == "panic":
                findings.append({"what": f"decoding / re-encoding {c['t']} panicked in the {prof} profile: {o.get('msg')} [{c['label']}]",
                                 "failing_input": {"case": c, "profile": prof, "impl": o}})
            elif r == "value":
                if "verify" in o:
                    st["semantically_verified"] += 1
                if prof == "dev":
                    value_inputs += 1
                if o.get("rt") == "panic":
                    findings.append({"what": f"re-decoding the node's own encoding of {c['t']} panicked ({prof}): {o.get('rt_msg')}",
                                     "failing_input": {"case": c, "profile": prof, "impl": o}})
                elif o.get("rt") == "differs":
                    st["rt_differs"] += 1
                elif o.get("rt") == "rejected":
                    st["rt_rejected"] += 1
            if prof == "dev" and r in ("value", "error"):
                distinct.add((c["t"], c["hex"]))
        fuzz_stats[prof] = st

    marks['decode_fuzz_done'] = round(time.time() - t0, 1)
    # 3c. noise fuzz (framing + encryption stage)
    ncases = []
    for _ in range(60 if tier == "quick" else 1500):
        k = rng.below(6)
        if k == 0:
            b = bytes(rng.below(256) for _ in range(rng.below(80)))
        elif k == 1:   # well-formed first handshake message then garbage frames
            b = (32).to_bytes(2, "little") + bytes(rng.below(256) for _ in range(32))
            for _ in range(rng.below(4)):
                L = rng.choice([0, 1, 15, 16, 17, 100, 65535])
                b += L.to_bytes(2, "little") + bytes(rng.below(256) for _ in range(L if rng.chance(3, 4) else rng.below(L + 1)))
        elif k == 2:
            L = rng.choice([0, 1, 31, 33, 48, 65535])
            b = L.to_bytes(2, "little") + bytes(rng.below(256) for _ in range(L))
        else:
            b = None
        if b is not None:
            ncases.append({"op": "noise", "hex": b.hex(), "server": rng.chance(2, 3), "chunk": rng.choice([0, 0, 1, 7])})
        else:
            tail = b""
            for _ in range(rng.range(1, 3)):
                L = rng.choice([0, 1, 15, 16, 17, 64, 1000, 65535])
                tail += L.to_bytes(2, "little") + bytes(rng.below(256) for _ in range(L if rng.chance(3, 4) else rng.below(L + 1)))
            ncases.append({"op": "noise_transport", "hex": tail.hex()})
    noise_stats = {"ok": 0, "err": 0, "panic": 0, "max_peak": 0}
    for prof in PROFILES:
        for c, o in zip(ncases, harness(ncases, prof)):
            if "crash" in o or "skipped" in o:
                if "crash" in o:
                    findings.append({"what": f"noise stage: process died ({prof})", "failing_input": {"case": c, "profile": prof, "impl": o}})
                continue
            r = o["res"]
            k = "panic" if "panic" in r else ("ok" if "ok" in r else "err")
            noise_stats[k] += 1
            noise_stats["max_peak"] = max(noise_stats["max_peak"], o.get("peak", 0))
            if k == "panic":
                findings.append({"what": f"noise stage panicked ({prof}): {r['panic']}", "failing_input": {"case": c, "profile": prof, "impl": o}})
            elif o.get("peak", 0) > 4 << 20:
                findings.append({"what": f"noise stage buffered {o['peak']} bytes for one connection (limit: 4 fixed 64 kB buffers)", "failing_input": {"case": c, "profile": prof, "impl": o}})

    marks['noise_done'] = round(time.time() - t0, 1)
    # 4. model correspondence ---------------------------------------------------------------------
    mcases = gen_model_cases(rng, tier, flags)
    coq_cases, mkinds = [], {}
    case_index = []   # (id, kind, rust_case, profile, impl_out)
    cid = 0
    for prof in PROFILES:
        chk = coq_bool(prof == "dev")
        outs = harness([c[1] for c in mcases], prof)
        for (kind, rc, to_coq, to_obs), o in zip(mcases, outs):
            if "crash" in o or "skipped" in o:
                if "crash" in o:
                    findings.append({"what": f"harness process died on a {kind} case ({prof})", "failing_input": {"case": rc, "profile": prof, "impl": o}})
                continue
            try:
                ob = to_obs(o)
            except Exception as e:
                raise common.MachineryError(f"cannot map output of {rc}: {o} ({e})")
            mkinds[kind] = mkinds.get(kind, 0) + 1
            coq_cases.append((cid, to_coq(o, chk), common.to_obsv(ob)))
            case_index.append((cid, kind, rc, prof, o))
            # predicates on the implementation alone
            txt = json.dumps(o)
            if kind in ("dur", "ts", "addr", "bits", "rate", "genesis", "frame", "mux") and '"panic"' in txt:
                findings.append({"what": f"{kind}: the implementation panicked on a value a peer can send ({prof}): {txt[:200]}",
                                 "failing_input": {"case": rc, "profile": prof, "impl": o}})
            if kind == "mux" and o["code"] >= 4:
                findings.append({"what": f"mux: unexpected termination '{o['name']}: {o['msg']}' on frame bytes ({prof})",
                                 "failing_input": {"case": rc, "profile": prof, "impl": o}})
            if kind == "just":
                r = o["read"]
                if "panic" in r or ("ok" in r and "panic" in r["ok"]) or "panic" in o["sel"]:
                    findings.append({"what": f"justification with QC view {rc['view']}: view() / queue selection panicked after decoding ({prof})",
                                     "failing_input": {"case": rc, "profile": prof, "impl": o}})
                if "ok" in r and "ok" in r["ok"] and int(r["ok"]["ok"]) != int(rc["view"]) + 1:
                    findings.append({"what": f"justification with QC view {rc['view']}: view() wrapped to {r['ok']['ok']} ({prof})",
                                     "failing_input": {"case": rc, "profile": prof, "impl": o}})
            if kind == "genesis" and json.dumps(o["raw"].get("err")) != json.dumps(o["full"].get("err")) and "panic" in json.dumps(o["full"]):
                findings.append({"what": f"Genesis::read panicked ({prof})", "failing_input": {"case": rc, "profile": prof, "impl": o}})
            if kind == "muxframe":
                r = o["res"]
                if "panic" in r or "setup_err" in r:
                    findings.append({"what": f"mux_recv_proto on a transient stream: {json.dumps(r)[:160]} ({prof})",
                                     "failing_input": {"case": rc, "profile": prof, "impl": o}})
                elif o["peak"] > rc["max"] + (256 << 10):
                    findings.append({"what": f"mux_recv_proto with max_size {rc['max']} grew the heap by {o['peak']} bytes ({prof})",
                                     "failing_input": {"case": rc, "profile": prof, "impl": o}})
                else:
                    data = bytes.fromhex(rc["hex"])
                    if len(data) >= 4 and int.from_bytes(data[:4], "little") > rc["max"] and "message too large" not in r.get("err", ""):
                        findings.append({"what": f"mux_recv_proto accepted / kept reading after a length prefix above max_size ({prof})",
                                         "failing_input": {"case": rc, "profile": prof, "impl": o}})
            if kind == "frame":
                mx = rc["max"]
                if o["peak"] > mx + 16384:
                    findings.append({"what": f"recv_proto with max_size {mx} grew the heap by {o['peak']} bytes ({prof})",
                                     "failing_input": {"case": rc, "profile": prof, "impl": o}})
                data = bytes.fromhex(rc["hex"])
                if len(data) >= 4 and int.from_bytes(data[:4], "little") > mx and (o["consumed"] != 4 or "err" not in o["res"]):
                    findings.append({"what": f"recv_proto read past an over-long length prefix ({prof})",
                                     "failing_input": {"case": rc, "profile": prof, "impl": o}})
            cid += 1
    marks['model_impl_done'] = round(time.time() - t0, 1)
    sample_ids = [c[0] for c in case_index if c[1] in ("ts", "just", "frame", "muxframe", "mux", "genesis")][::max(1, len(case_index) // 5)][:5]
    mm, samp = common.run_model_cases("C10", "From EC Require Import Lib.Outcome Model.NetInput.", "Model.NetInput.run_case",
                                      coq_cases, shard_size=max(50, len(coq_cases) // 16 + 1), sample_ids=sample_ids)
    if mm:
        broken.append(f"correspondence vh netinput vs Model.NetInput.run_case: {len(mm)} disagreeing cases")

    marks['model_coq_done'] = round(time.time() - t0, 1)
    # 4b. exhaustive header sweep on the real Mux, compared run-length encoded
    mf = coq_bool(flags["mux_fixed"])
    tail = bytes([1, 0, 0xFF, 0xFF])
    configs = [(2, 3), (0, 1)] if tier == "quick" else [(2, 3), (0, 1), (4, 0), (1, 7), (0, 0)]
    step = 256
    sweep_rust = []
    for (na, nc) in configs:
        for frm in range(0, 65536, step):
            sweep_rust.append({"op": "muxsweep", "na": na, "nc": nc, "rfs": 1024, "from": str(frm), "to": str(frm + step),
                               "tail": tail.hex(), "parts": (na, nc) == configs[0]})
    sweep_cases, sweep_index = [], []
    headers_run = 0
    parts_cases = []
    for prof in (("dev",) if tier == "quick" else PROFILES):
        outs = harness(sweep_rust, prof, shards=len(sweep_rust))
        for rc, o in zip(sweep_rust, outs):
            if "crash" in o or "skipped" in o:
                if "crash" in o:
                    findings.append({"what": f"mux header sweep: process died ({prof})", "failing_input": {"case": rc, "profile": prof, "impl": o}})
                continue
            headers_run += len(o["out"])
            for (h, name, msg) in o["odd"]:
                findings.append({"what": f"mux: header {h:#06x} with {rc['na']} accept / {rc['nc']} connect streams ended the multiplexer with '{name}: {msg}' ({prof})",
                                 "failing_input": {"case": {"op": "mux", "na": rc["na"], "nc": rc["nc"], "rfs": 1024,
                                                            "hex": (int(h).to_bytes(2, 'little') + tail).hex()}, "profile": prof}})
            exp = [[x, n] for x, n in rle(o["out"])]
            frm = int(rc["from"])
            sweep_cases.append((len(sweep_cases), f"CMuxSweep {mf} {rc['na']} {rc['nc']} {frm} {step} {coq_list([str(x) for x in tail])}",
                                common.to_obsv(exp)))
            sweep_index.append((rc, prof, exp))
            if o["parts"]:
                hs = list(range(frm, frm + step, 37)) + [frm + step - 1]
                parts_cases.append((len(parts_cases), "CParts " + coq_list([str(h) for h in hs]),
                                    common.to_obsv([o["parts"][h - frm] for h in hs])))
    marks['sweep_impl_done'] = round(time.time() - t0, 1)
    mm2, _ = common.run_model_cases("C10_mux", "From EC Require Import Lib.Outcome Model.NetInput.", "Model.NetInput.run_case",
                                    sweep_cases + [(len(sweep_cases) + i, t, e) for (i, t, e) in parts_cases],
                                    shard_size=max(1, (len(sweep_cases) + len(parts_cases)) // 16 + 1))
    if mm2:
        broken.append(f"correspondence of the exhaustive mux header sweep: {len(mm2)} disagreeing ranges")

    # 4b. control-frame flood on the real Mux::run (directed family + predicate of gen/c14.py): a peer that finished
    # the handshake pushes N >> read_frame_count OPEN/CLOSE frames at a stream nobody drains; the frames the
    # multiplexer takes off the transport must stay <= read_frame_count + the one in hand
    import c14 as _c14
    flood = _c14.flood_runner(rep.seed, tier)
    findings += [{"what": f["what"], "failing_input": f["failing_input"]} for f in flood["failures"]]
    marks['ctl_flood_done'] = round(time.time() - t0, 1)

    # 5. verdict --------------------------------------------------------------------------------
    if findings:
        # one violation per distinct message class, the first input of each as replay
        seen = {}
        for f in findings:
            k = "regression" if f["what"].startswith("regression case") else re.sub(r"\d+", "#", f["what"])[:60]
            seen.setdefault(k, []).append(f)
        for k, fs in list(seen.items())[:6]:
            rep.violation(fs[0]["what"], {"failing_input": fs[0]["failing_input"], "more_of_this_kind": len(fs) - 1, "broken": broken})
    elif broken:
        first = None
        if mm:
            i = sorted(mm)[0]
            ci = case_index[i]
            first = {"kind": ci[1], "case": ci[2], "profile": ci[3], "impl": ci[4], "model_obs": mm[i]}
        elif mm2:
            i = sorted(mm2)[0]
            first = {"sweep": sweep_index[i][0] if i < len(sweep_index) else "header parts", "model_obs": str(mm2[i])[:400]}
        rep.violation("C10 no longer shown to hold: " + "; ".join(broken)[:600],
                      {"broken": broken, "first_disagreement": first,
                       "new_panic_sites": new[:20], "changed_panic_sites": changed[:20], "unclassified": unclassified[:5],
                       "entries_naming_missing_theorem": bad_refs[:5]}, found_input=False)

    # 6. evidence -------------------------------------------------------------------------------
    by_class = {}
    for e in inv["sites"]:
        by_class[e["class"]] = by_class.get(e["class"], 0) + e.get("n", 1)
    n_obl = po["obligations"] + 4
    n_dis = po["discharged"] + (1 if (inventory_ok and not translator_note) else 0) + (0 if mm else 1) + (0 if mm2 else 1) + (0 if findings else 1)
    samples = []
    for i in sample_ids:
        ci = case_index[i]
        samples.append({"kind": ci[1], "case": ci[2], "profile": ci[3], "impl": ci[4], "model_obs": samp.get(i)})
    for c in dcases[:1] + [c for c in dcases if c["label"].startswith("int:")][:1] + [c for c in dcases if c["label"].startswith("len")][:1]:
        samples.append({"kind": "decode-fuzz", "case": c})
    cov.update({
        "obligations": n_obl,
        "discharged": n_dis,
        "obligation_breakdown": {"coq_theorems": po["obligations"], "inventory_equal": 1, "model_correspondence": 1,
                                 "exhaustive_mux_sweep_correspondence": 1, "fuzz_predicates_clean": 1},
        "checker_cmd": "make -C coq theories/Properties/C10.vo ; gen/panic_sites.py vs corpus/C10_inventory.json ; harness netinput (dev + release) ; coqc on generated cases_*.v (vm_compute of Model.NetInput.run_case)",
        "trusted_base": common.standard_trusted_base([
            "lexical panic-site extractor gen/panic_sites.py (over-approximate; classification of each site is by hand in corpus/C10_inventory.json)",
            "prost / prost-reflect / quick-protobuf, snow, blst, tokio, time: not modelled, only exercised by the fuzz",
            "the counting global allocator of the harness (heap growth measurement)"] + translator["trusted"]),
        "theorems": po["theorems"], "axioms": po["axioms"], "translator": translator,
        "evaluations": len(dcases) * len(PROFILES) + len(coq_cases) + headers_run + len(ncases) * len(PROFILES) + len(corpus) * len(PROFILES),
        "distinct_nontrivial": len(distinct) + len({c[1] for c in coq_cases}) + len(sweep_cases),
        "rule": "decode fuzz: for every registered decoder (all public ProtoFmt types of zksync_protobuf/roles + the network crate's private wire types through verif::decode_named) "
                "2-4 valid seeds from the crates' own generators, then (a) every integer field of the seed set to each of 24 boundary values, pairs of integer fields set to pairs of 14 boundary values (messages with 2-8 integer fields), non-minimal varint, empty packed record, "
                "every field removed / duplicated / emptied, repeated fields x40, byte strings shortened / extended / 300 random bytes, every length prefix set to +-1, 0, 2^31, 2^32, 2^64-1, (b) truncations and single-byte mutations, "
                "(c) group / LEN nesting to depth 1000 (quick) / 20000 (thorough), (d) random bytes; run in the dev (overflow checks) and release profile; each decoded value is re-encoded (canonical) and decoded again, and decoded consensus messages / certificates / blocks are additionally run through their verify() (against a committee of the size their signer bitmap claims) and view_number(). "
                "(mux.Handshake is kept in a HashMap, so its re-encoding order - the rt_differs count - varies from run to run.) "
                "distinct_nontrivial = distinct (type, bytes) pairs that reached the decoder and returned a value or an error, plus distinct model-correspondence inputs, plus header ranges of the exhaustive sweep. "
                "model correspondence: boundary grids for Duration/Timestamp/SocketAddr/BitVector/RateLimit/Genesis/justification view/queue selection/recv_proto/mux_recv_proto (real stream pair, several frame sizes), random mux frame scripts; "
                "exhaustive: all 65536 mux headers x stream-table configurations on the real Mux::run",
        "exhaustive_part": f"65536 headers x {len(configs)} stream-table configurations on the real Mux ({headers_run} runs)",
        "input_distribution": {"decode_fuzz_by_mutation_class": dist, "decode_fuzz_types": len(schema["types"]),
                               "decode_outcomes": fuzz_stats, "decoded_values_reencoded": value_inputs,
                               "model_cases_by_kind": mkinds, "noise": noise_stats, "corpus_cases": len(corpus),
                               "mux_control_frame_flood": flood["coverage"]},
        "samples": samples,
        "panic_site_inventory": {"sites": sum(e.get("n", 1) for e in inv["sites"]), "by_class": by_class,
                                 "new": len(new), "changed": len(changed), "stale": len(stale), "note": translator_note,
                                 "out_of_model_or_fuzzed": [f"{e['file'].split('/')[-1]}:{e['fn']}: {e['snippet'][:60]}" for e in inv["sites"] if e["class"] in ("out_of_model", "fuzzed")]},
        "source_flags": flags,
        "correspondence_mismatches": len(mm) + len(mm2), "predicate_failures": len(findings),
        "wall_breakdown_s": dict(marks, total=round(time.time() - t0, 1)),
        "partial": "Proved: totality (no panic in either overflow profile) of the std_conv readers and builders, GenesisRaw::read/build, the justification view guard and successors, the queue selection function on decoded messages, "
                   "recv_proto and mux_recv_proto (allocation <= max_size, rejection before the body is read; both tied to the code, mux_recv_proto on a real transient stream between two Mux instances), the mux header dispatch and frame loop for every byte string; "
                   "C10_replica_votes_total (= rstep_vote_panics of Proofs/ReplicaCaches.v): a ReplicaCommit / ReplicaTimeout with any field values can only ever cause the view.next() overflow, never an unwrap / expect / index / assert; C10_justification_handling_total (justification verify, high_vote / weight on assembled TimeoutQCs, get_justification never panic). "
                   "NOT proved, only fuzzed: the generated prost decoders and the ProtoFmt::read impls of the other message types, key / signature decoding (blst), snow (noise handshake and transport), "
                   "tokio, allocation failure, "
                   "on_proposal / on_new_view as whole handlers (their totality rests on the replica correspondence of C05 plus get_justification_np and justification_verify_no_panic cited above; here only decode + verify() + view_number() + the queue selection function are exercised on the real code), and the accept loop.",
    })
    rep.assumptions += [
        "panic-freedom of library code below the modelled functions (prost, quick-protobuf, snow, blst, bit-vec, time) is assumed in the theorems and exercised by the fuzz",
        "64-bit target (usize = u64) as in the repository's supported platforms",
    ]


def replay(path):
    d = json.load(open(path))
    fi = d.get("failing_input")
    if not fi:
        print("no concrete input in replay file:", json.dumps(d.get("broken"))[:2000])
        print(json.dumps(d.get("first_disagreement"))[:2000])
        return 1
    if fi.get("runner") == "c14-dataflood":
        import c14 as _c14
        c = dict(fi["case"]); c.setdefault("kind", "raw-flood")
        common.cargo_build(["mux"], "dev")
        o = common.run_impl("mux", [c], "dev", shards=1)[0]
        print("input:", json.dumps(c)[:800])
        print("implementation (last round):", json.dumps(o.get("obs", o)[-1])[:600])
        print("predicate:", json.dumps(_c14.pred_flood(c, o)))
        return 0
    if fi.get("runner") == "c14-ctlflood":
        import c14 as _c14
        c = dict(fi["case"]); c.setdefault("kind", "raw-ctlflood")
        common.cargo_build(["mux"], "dev")
        o = common.run_impl("mux", [c], "dev", shards=1)[0]
        print("input:", json.dumps(c)[:800])
        print("implementation (last round: events, frames A, frames B, pulled A, pulled B, status):", json.dumps(o.get("obs", o)[-1])[:600])
        print("predicate:", json.dumps(_c14.pred_ctlflood(c, o)))
        return 0
    case = fi.get("case", fi)
    build_bins()
    for prof in ([fi["profile"]] if "profile" in fi else PROFILES):
        out = common.run_impl(BIN, [case], prof, shards=1)[0]
        print(f"[{prof}] input: {json.dumps(case)[:600]}")
        print(f"[{prof}] implementation: {json.dumps(out)[:1200]}")
    return 0
