"""Black-box tie of the REAL run loop (Config::run: StateMachine::start + StateMachine::run + the
proposer task, fed through create_input_channel) to the model: harness bin `runloop` vs
Model/RunLoop.v (Model/ReplicaRun.run_op behind the Model/Chan.v queue, plus the proposer task).
Used by C05 (run_runloop_cases).  Scenarios: gen/replica_gen.py without crashes, with restarts,
plus bursts of messages pushed into the inbound queue before the loop runs."""
import copy
import json

import common
import replica_gen as RG
from common import coq_list

OPTS = {"crash": False, "restarts": True, "extreme": False}

EXCLUDED = [
    "crash injection (C03, step-driven harness): a crash inside run is not a black-box operation",
    "proposals inside a burst: a proposal handler waiting for its previous block makes the clock advance while other "
    "messages are pending (deadline and message both ready at the loop's recv)",
    "bursts spanning several views: two view changes inside one burst make what the proposer task sees depend on where "
    "the replica task yields; bursts are the votes of one kind for one view (+ duplicates, bad signatures, one stale "
    "vote that the queue prunes), so at most one view change happens per burst",
    "time passing other than by whole view timeouts (the manual clock advances only by view_timeout + 1ms, when "
    "nothing is pending in the queue)",
    "operations after the component stopped or a handler blocked for good (reported as [9], as in the step-driven harness)",
]


def vote_kind_view(op):
    if op["t"] != "msg":
        return None
    for k in ("commit", "timeout"):
        if k in op["m"]:
            return (k, int(op["m"][k]["v"]["n"]))
    return None


def add_bursts(case, rng, stats):
    """Groups runs of consecutive votes of one kind for one view into burst operations (1/2 of the
    runs of length >= 2); 1/3 of the bursts get, in front, a stale vote (view - 1) of one of their
    senders, which the in-queue selection discards when that sender's vote for the view arrives."""
    ops, out, i = case["ops"], [], 0
    while i < len(ops):
        kv = vote_kind_view(ops[i])
        j = i
        if kv is not None:
            while j + 1 < len(ops) and vote_kind_view(ops[j + 1]) == kv:
                j += 1
        if kv is not None and j > i and rng.chance(1, 2):
            msgs = [copy.deepcopy(o) for o in ops[i:j + 1]]
            if kv[1] > 0 and rng.chance(1, 3):
                donor = next((m for m in msgs if m["sig_ok"]), None)
                if donor is not None:
                    stale = copy.deepcopy(donor)
                    stale["m"][kv[0]]["v"]["n"] = str(kv[1] - 1)
                    msgs.insert(0, stale)
                    stats["burst_stale_pruned"] = stats.get("burst_stale_pruned", 0) + 1
            out.append({"t": "burst", "msgs": msgs})
            stats["bursts"] = stats.get("bursts", 0) + 1
            stats["burst_msgs"] = stats.get("burst_msgs", 0) + len(msgs)
            i = j + 1
        else:
            out.append(ops[i])
            i += 1
    case["ops"] = out


def c_sgmsg(op):
    s = RG.c_input(op)
    assert s.startswith("IMsg ")
    return s[5:]


def c_bop(op):
    t = op["t"]
    if t == "restart":
        return "BRestart"
    if t == "burst":
        return "BBurst %s" % coq_list([c_sgmsg(m) for m in op["msgs"]])
    return "BIn (%s)" % RG.c_input(op)


def c_case(case):
    base = RG.c_case(dict(case, ops=[]))          # (cfg, durable, first, next, [])
    assert base.endswith(", [])")
    return base[:-len("[])")] + coq_list([c_bop(o) for o in case["ops"]]) + ")"


def predicates(case, out):
    bad = []
    for s in out.get("sent", []):
        if s["by_me"] and not (s["sig_ok"] and s["verifies"]):
            bad.append({"failed": f"run loop: emitted message kind {s['kind']} for view {s['view']} does not verify in isolation"})
    return bad


def run_runloop_cases(rep, prop, ncases, rng, broken, rounds=6):
    """Generates scenarios, runs the real run loop (bin runloop) and Model.RunLoop.run_case, diffs."""
    ok, out = common.cargo_build(["qc", "runloop"], "dev")
    if not ok:
        raise common.MachineryError("cargo build failed: " + out[-2000:])
    cases, stats, kinds = [], {}, {}
    opts = dict(OPTS, rounds=rounds)
    for _ in range(ncases):
        c = RG.gen_case(rng.fork(), opts)
        add_bursts(c, rng, stats)
        cases.append(c)
    RG.normalize_orders(cases)
    outs = common.run_impl("runloop", [RG.strip(c) for c in cases], "dev")
    # a watchdog hit may be machine load, not the loop: re-run each such scenario alone with a
    # generous real-time bound before it counts (a genuinely spinning loop still hangs then)
    import os
    retried = 0
    for i, o in enumerate(outs):
        if isinstance(o, dict) and "hang" in o and retried < 8:
            retried += 1
            old_env = os.environ.get("RUNLOOP_WATCHDOG_S")
            os.environ["RUNLOOP_WATCHDOG_S"] = "240"
            try:
                outs[i] = common.run_impl("runloop", [RG.strip(cases[i])], "dev", timeout=600)[0]
            finally:
                if old_env is None:
                    os.environ.pop("RUNLOOP_WATCHDOG_S", None)
                else:
                    os.environ["RUNLOOP_WATCHDOG_S"] = old_env
    coq_cases, pred_fail = [], []
    steps, dist, proposals, stopped, hangs = 0, set(), 0, 0, []
    acked = 0
    for i, (c, o) in enumerate(zip(cases, outs)):
        if "hang" in o:
            # the real loop never became quiet again (e.g. spinning on an expired deadline)
            hangs.append(i)
            continue
        if "crash" in o or "skipped" in o or "obs" not in o:
            raise common.MachineryError(f"runloop harness crashed on scenario {i}: {str(o)[:800]}")
        for k, v in c.get("_kinds", {}).items():
            kinds[k] = kinds.get(k, 0) + v
        coq_cases.append((i, c_case(c), common.to_obsv(o["obs"])))
        steps += len(o["obs"])
        for ob in o["obs"]:
            if ob != [9]:
                dist.add(json.dumps(ob))
                proposals += len(ob[1])
                acked += sum(ob[4])
        stopped += 1 if any(ob == [9] for ob in o["obs"]) else 0
        for b in predicates(c, o):
            pred_fail.append({"case": RG.strip(c), "case_index": i, **b})
    mm, samp = common.run_model_cases(prop + "_runloop", "From EC Require Import Model.Msgs Model.Replica Model.ReplicaRun Model.RunLoop.",
                                      "Model.RunLoop.run_case", coq_cases, shard_size=2, sample_ids=[0], timeout=2400)
    if hangs:
        broken.append(f"real run loop (vh runloop) does not become quiet: watchdog fired on {len(hangs)} of {len(cases)} scenarios "
                      f"(first: scenario {hangs[0]} after {outs[hangs[0]].get('ops_done')} operations)")
    if mm:
        broken.append(f"correspondence real run loop (vh runloop) vs Model.RunLoop.run_case: {len(mm)} of {len(cases)} scenarios disagree")
    return {"cases": cases, "outs": outs, "mm": mm, "pred_fail": pred_fail, "kinds": kinds, "steps": steps,
            "dist": len(dist), "stats": stats, "proposals": proposals, "stopped": stopped, "hangs": hangs, "acked": acked}


def first_diff(model_obs, impl_obs):
    for k, (a, b) in enumerate(zip(model_obs, common.norm_obs(impl_obs))):
        if a != b:
            return k, a, b
    return None


def evidence(R):
    """the runloop_* keys of C05's evidence"""
    ev = {
        "runloop_scenarios": len(R["cases"]), "runloop_operations": R["steps"], "runloop_distinct_observations": R["dist"],
        "runloop_mismatches": len(R["mm"]), "runloop_hangs": len(R["hangs"]), "runloop_predicate_failures": len(R["pred_fail"]),
        "runloop_proposer_messages": R["proposals"], "runloop_acknowledged_messages": R["acked"], "runloop_bursts": R["stats"].get("bursts", 0),
        "runloop_burst_messages": R["stats"].get("burst_msgs", 0),
        "runloop_burst_stale_votes_pruned": R["stats"].get("burst_stale_pruned", 0),
        "runloop_scenarios_with_stopped_component": R["stopped"],
        "runloop_compared": "per operation fed to the real Config::run through create_input_channel under a manual clock: the ordered "
                            "effects of the replica (persist / send / queue block), the LeaderProposal messages of the proposer task, "
                            "the durable state, whether run is still running, which fed messages were acknowledged — vs Model.RunLoop.run_case (Model.ReplicaRun.run_op "
                            "behind the Model.Chan queue + proposer task)",
        "runloop_excluded": EXCLUDED,
    }
    if R["mm"]:
        i = sorted(R["mm"])[0]
        fd = first_diff(R["mm"][i], R["outs"][i]["obs"])
        ev["runloop_first_disagreement"] = {
            "case": RG.strip(R["cases"][i]), "first_differing_step": fd[0] if fd else None,
            "model_step_obs": fd[1] if fd else None, "impl_step_obs": fd[2] if fd else None}
    return ev
