"""gen/rust2coq.py — source translator: a small PURE subset of Rust -> Gallina (outcome monad of
Lib/Outcome.v, integer semantics of Lib/U64.v + Lib/RustSem.v).

Subset (anything else raises ParseError; nothing is guessed):
  items     fn inside `impl T { }` / `impl Trait for T { }` (non-generic), free fn, `const N: T = e;` inside impl;
            per target also: the condition of a `while` (body pinned), the return value of a `&mut self` method
            whose state updates are pinned, a `&mut self` method whose updated fields are read as locals
  types     u8 u16 u32 u64 usize u128, i32 i64 i128 (+ - * / comparisons, widening `as`), bool, Option<T>,
            tuples, &T (erased), tuple-struct newtypes over an
            integer (erased: `.0` and the constructor are identities), and the structs/enums listed in TYPES
            below (mapped to the records / inductives of the hand-written model; checked against the
            source declaration: field names, field types, variants, derives used)
  stmts     let [mut] x [: T] = e;   let PAT = e else { diverging };   e;  (assert!/assert_eq!/debug_assert!, early
            `if c { return e; }`, `if`/`if let` updating `let mut` locals, `x = e;` `x op= e;` on `let mut`
            locals, `*m.entry(k).or_default() += w;` on a `let mut` HashMap<_, u64>, `for PAT in &e { .. }`
            over a Vec/map updating `let mut` locals), return e;, statements pinned by a target
  exprs     integer literals (dec/0b/0x), true/false, paths (locals, `Self::CONST`, `T::CONST`, `u64::MAX`),
            + - * / % & | ^ << >> (overflow / division by zero / oversized shift are explicit panics; `chk`
            selects the profile), == != < <= > >= (derived PartialEq/PartialOrd on integers and newtypes,
            table-given equality on records), && || ! (short circuit), `as` between unsigned integers,
            field access, tuples, struct literals of table records, if / if let / match (Option, table
            enums, tuples, literals, `_`; no guards), blocks, `?` on Option, `return`,
            calls of translated functions and methods (resolved by the static type of the receiver),
            calls listed in a target's callee table (mapped to functions of the hand model),
            integer methods checked_add/sub/mul saturating_* wrapping_* min max to_le_bytes, std::cmp::min/max,
            `x.try_into().unwrap_or(d)` into an unsigned integer,
            Option methods is_some is_none unwrap expect unwrap_or map as_ref copied cloned,
            Vec / map adaptors iter into_iter keys values filter filter_map map collect len is_empty
            max_by_key pop, with panic-free closures `|pat| expr`
  Result    functions returning Result<T, E> / anyhow::Result<T> become `outcome E' T`: `Ok(v)`, `return Err(e)` (from anywhere,
            also inside loops), `e?` and `e.map_err(f)?` (f: a table variant or a closure), `.context("msg")` /
            anyhow::ensure!/bail! whose message the target's table maps to a constructor of the model's error type,
            `required(&opt)`; error enums are table enums (payloads the model does not keep are dropped)
  loops     `for PAT in e { .. }` over a Vec / map / `.iter().enumerate()`: a fold over the elements in order; a body that
            `return`s a value becomes fold_ret (stop at the first return); BTreeMap insert / contains_key / get /
            into_values on a `let mut` local (association list sorted by key); Iterator any / filter with a closure
            that may panic (any_m / filter_m), sum of u64 (overflow as for +), count, enumerate, Vec::get, v[i]
  targets   may add an abstract input to a function (`extra_params`, e.g. the keccak digest), bind an expression to a term
            of the model (`binds`), map operators of table types (OPS), constants (CONSTS) and callees (EXTERNS), and
            pin the trailing state updates of a `&mut self` method whose decision is translated (`pinned_tail`)
  state     `&mut self` methods (and closures handed to watch primitives) as state functions: the replica's hres monad
            (kind state_fn / state_part) or the plain state monad sres of Lib/RustSem.v (flavour "s"; kinds state_fn,
            closure_body, closure_in): field assignment through the table's setters (nested fields, `op=`), `for` loops
            threading the state and the loop's `let mut` locals (sfold), `continue`, `bail!`, mutation of the state or of a
            `let mut` local through retain / clear / push / push_back / insert / remove, callee-table entries that
            update their receiver (`update`), read or publish the state (`sets_state`); a statement that follows an `if`
            with a conditional `continue` / value `return` is continued inside the branches
  pinned    anything that is not translated can only be (a) bound to a term of the model (`binds`, textual), or (b) pinned by
            the hash of its syntax tree (kind pin, `fn_sha` of closure_in, `sha` of a bound macro block): loops, `.await`
            plumbing, macros, ranges, arrays, or-patterns, `&mut` expressions and turbofish are PARSED for that purpose
            and never translated
Each target is regenerated into coq/theories/Gen/<File>.v on every run of the owning check; the theorems
Properties/C*Gen*.v state that the generated definitions equal the hand-written model."""
import os
import time

import common
from r2c_parse import ParseError, scan_items, parse_expr_src, parse_type_tokens, parse_body_tokens, parse_params, lex
from r2c_trans import Translator, Sig, parse_type_src, strip

R = os.environ.get("VERIF_R2C_REPO") or common.REPO   # the override is for the translator's own self-tests
MSG = R + "/node/libs/roles/src/validator/messages"
REPLICA = ["replica_core", "replica_commit", "replica_timeout", "replica_new_view", "replica_proposal"]

# ---------------------------------------------------------------------------
# Trusted tables: how Rust types map to the types of the hand-written models.
# kind newtype: tuple struct over an unsigned integer, erased (source must declare exactly that)
# kind record : fields -> (projection of the model record, Rust field type); the source struct must have
#               exactly these fields with these types (so derived equality is structural on the same data)
# kind enum   : variants -> (model constructor, argument types)
# kind opaque : a type the model abstracts to `coq`; only the listed callee-table functions touch it
TYPES = {
    "BlockNumber": {"kind": "newtype", "inner": "u64", "src": MSG + "/block.rs"},
    "ViewNumber": {"kind": "newtype", "inner": "u64", "src": MSG + "/consensus.rs"},
    "EpochNumber": {"kind": "newtype", "inner": "u64", "src": MSG + "/consensus.rs"},
    "PayloadHash": {"kind": "opaque", "coq": "Z", "eqb": "Z.eqb"},          # hashes are opaque identifiers (DESIGN 4.2)
    "GenesisHash": {"kind": "opaque", "coq": "Z", "eqb": "Z.eqb"},
    "BlockHeader": {"kind": "record", "coq": "header", "eqb": "header_eqb", "src": MSG + "/v2/block.rs",
                    "fields": {"number": ("hnum", "BlockNumber"), "payload": ("hpay", "PayloadHash")}},
    "View": {"kind": "record", "coq": "view", "eqb": "view_eqb", "src": MSG + "/v2/consensus.rs",
             "fields": {"genesis": ("vgen", "GenesisHash"), "epoch": ("vepoch", "EpochNumber"), "number": ("vnum", "ViewNumber")}},
    "ReplicaCommit": {"kind": "record", "coq": "commit", "eqb": "commit_eqb", "src": MSG + "/v2/replica_commit.rs",
                      "fields": {"view": ("cview", "View"), "proposal": ("cprop", "BlockHeader")}},
    "CommitQC": {"kind": "record", "coq": "cqc", "eqb": "cqc_eqb", "src": MSG + "/v2/replica_commit.rs",
                 "fields": {"message": ("qmsg", "ReplicaCommit"), "signers": ("qsigners", "Signers"),
                            "signature": ("qagg", "validator::AggregateSignature")}},
    "ReplicaTimeout": {"kind": "record", "coq": "timeout", "eqb": "timeout_eqb", "src": MSG + "/v2/replica_timeout.rs",
                       "fields": {"view": ("tview", "View"), "high_vote": ("thv", "Option<ReplicaCommit>"),
                                  "high_qc": ("thq", "Option<CommitQC>")}},
    "TimeoutQC": {"kind": "record", "coq": "tqc", "src": MSG + "/v2/replica_timeout.rs",
                  "fields": {"view": ("tqview", "View"), "map": ("tqmap", "BTreeMap<ReplicaTimeout, Signers>"),
                             "signature": ("tqagg", "validator::AggregateSignature")}},
    "ProposalJustification": {"kind": "enum", "coq": "justification", "src": MSG + "/v2/leader_proposal.rs",
                              "variants": {"Commit": ("JCommit", ["CommitQC"]), "Timeout": ("JTimeout", ["TimeoutQC"])}},
    "Signers": {"kind": "newtype", "inner": "BitVec", "src": MSG + "/v2/consensus.rs"},      # a list of bools
    "Claims": {"kind": "opaque", "coq": "unit"},
    "ProposalJustificationVerifyError": {"kind": "enum", "coq": "just_err", "src": MSG + "/v2/leader_proposal.rs",
                                         "variants": {"Commit": ("JECommit", ["CommitQCVerifyError"]), "Timeout": ("JETimeout", ["TimeoutQCVerifyError"])}},
    # Signed<V> { msg, key, sig } -> Model/Msgs.v signed (claimed key, message, attached signature = (signer, what was signed))
    "Signed_ReplicaCommit": {"kind": "record", "coq": "(signed commit sigref)",
                             "fields": {"msg": ("smsg", "ReplicaCommit"), "key": ("skey", "validator::PublicKey"), "sig": ("ssig", "Signature")}},
    "Signed_ReplicaTimeout": {"kind": "record", "coq": "(signed timeout tsigref)",
                              "fields": {"msg": ("smsg", "ReplicaTimeout"), "key": ("skey", "validator::PublicKey"), "sig": ("ssig", "Signature")}},
    "PublicKey": {"kind": "opaque", "coq": "Z", "eqb": "Z.eqb"},
    "CommitQCAddError": {"kind": "enum", "coq": "cqc_add_err", "src": MSG + "/v2/replica_commit.rs",
                         "variants": {"SignerNotInCommittee": ("CASignerNotInCommittee", {"signer": "Box<validator::PublicKey>"}, "drop"),
                                      "DuplicateSigner": ("CADuplicateSigner", {"signer": "Box<validator::PublicKey>"}, "drop"),
                                      "BadSignature": ("CABadSignature", ["anyhow::Error"], "drop"),
                                      "InconsistentMessages": ("CAInconsistentMessages", []),
                                      "InvalidMessage": ("CAInvalidMessage", ["ReplicaCommitVerifyError"])}},
    "TimeoutQCAddError": {"kind": "enum", "coq": "tqc_add_err", "src": MSG + "/v2/replica_timeout.rs",
                          "variants": {"SignerNotInCommittee": ("TASignerNotInCommittee", {"signer": "Box<validator::PublicKey>"}, "drop"),
                                       "DuplicateSigner": ("TADuplicateSigner", {"signer": "Box<validator::PublicKey>"}, "drop"),
                                       "BadSignature": ("TABadSignature", ["anyhow::Error"], "drop"),
                                       "InconsistentViews": ("TAInconsistentViews", []),
                                       "InvalidMessage": ("TAInvalidMessage", ["ReplicaTimeoutVerifyError"])}},
    # error enums of the verification functions -> the error types of Model/Msgs.v (payloads the model does not keep are dropped)
    "ReplicaCommitVerifyError": {"kind": "enum", "coq": "view_err", "src": MSG + "/v2/replica_commit.rs",
                                 "variants": {"BadView": ("{0}", ["anyhow::Error"])}},
    "CommitQCVerifyError": {"kind": "enum", "coq": "cqc_verify_err", "src": MSG + "/v2/replica_commit.rs",
                            "variants": {"InvalidMessage": ("CInvalidMessage", ["ReplicaCommitVerifyError"]),
                                         "BadSignersSet": ("CBadSignersSet", []),
                                         "NotEnoughWeight": ("CNotEnoughWeight", {"got": "u64", "want": "u64"}, "drop"),
                                         "BadSignature": ("CBadSignature", ["anyhow::Error"], "drop")}},
    "ReplicaTimeoutVerifyError": {"kind": "enum", "coq": "timeout_verify_err", "src": MSG + "/v2/replica_timeout.rs",
                                  "variants": {"BadView": ("TBadView", ["anyhow::Error"]),
                                               "InvalidHighVote": ("TInvalidHighVote", ["ReplicaCommitVerifyError"]),
                                               "InvalidHighQC": ("TInvalidHighQC", ["CommitQCVerifyError"])}},
    "TimeoutQCVerifyError": {"kind": "enum", "coq": "tqc_verify_err", "src": MSG + "/v2/replica_timeout.rs",
                             "variants": {"BadView": ("QBadView", ["anyhow::Error"]),
                                          "InconsistentView": ("QInconsistentView (Z.to_nat {0})", ["usize"]),
                                          "InvalidMessage": ("QInvalidMessage (Z.to_nat {0}) {1}", ["usize", "ReplicaTimeoutVerifyError"]),
                                          "WrongSignersLength": ("QWrongSignersLength (Z.to_nat {0})", ["usize"]),
                                          "NoSignersAssigned": ("QNoSignersAssigned (Z.to_nat {0})", ["usize"]),
                                          "OverlappingSignatureSet": ("QOverlapping (Z.to_nat {0})", ["usize"]),
                                          "NotEnoughWeight": ("QNotEnoughWeight", {"got": "u64", "want": "u64"}, "drop"),
                                          "BadSignature": ("QBadSignature", ["anyhow::Error"], "drop")}},
    "AggregateSignature": {"kind": "opaque", "coq": "(list (Z * sigref))"},
    "Schedule": {"kind": "opaque", "coq": "committee"},
    # engine block store
    "BlockStoreState": {"kind": "record", "coq": "bss", "src": R + "/node/libs/engine/src/block_store.rs",
                        "fields": {"first": ("bfirst", "validator::BlockNumber"), "last": ("blast", "Option<Last>")}},
    "Last": {"kind": "opaque", "coq": "Z"},      # the model keeps only Last::number() of the last block
    # mux header
    "StreamId": {"kind": "newtype", "inner": "u16", "src": R + "/node/components/network/src/mux/header.rs"},
    "StreamKind": {"kind": "newtype", "inner": "u16", "src": R + "/node/components/network/src/mux/header.rs"},
    "FrameKind": {"kind": "newtype", "inner": "u16", "src": R + "/node/components/network/src/mux/header.rs"},
    "Header": {"kind": "newtype", "inner": "u16", "src": R + "/node/components/network/src/mux/header.rs"},
}

# Callee table: Rust callees that are NOT translated but mapped to a function of the hand model.
# template: {0} = receiver, {1}.. = arguments.  eff: the Gallina term is in the outcome monad.
EXTERNS = {
    ("Last", "number"): dict(targets=["block_store"], template="{0}", params=[], ret="validator::BlockNumber", eff=False,
                             why="Model/BlockStore.v represents `last` by its block number"),
    ("Schedule", "index"): dict(targets=["qc_verify"], template="(option_map Z.of_nat (cindex {0} {1}))", params=["validator::PublicKey"],
                                ret="Option<usize>", eff=False, why="Model/Msgs.v cindex: position of the key in the committee"),
    ("Signed_ReplicaCommit", "verify"): dict(targets=["qc_verify"], params=[], ret="anyhow::Result<()>", eff=False,
                                             template="(if ksig_eqb sigref_eqb (ssig {0}) (skey {0}, RCommit (smsg {0})) then Ok tt else Err tt)",
                                             why="H-SIG: a signature verifies iff it was produced by the claimed key over the claimed message"),
    ("Signed_ReplicaTimeout", "verify"): dict(targets=["qc_verify"], params=[], ret="anyhow::Result<()>", eff=False,
                                              template="(if ksig_eqb tsigref_eqb (ssig {0}) (skey {0}, TTimeout (smsg {0})) then Ok tt else Err tt)",
                                              why="H-SIG, as above"),
    ("Config", "genesis_hash"): dict(targets=REPLICA, template="(cg {0})", params=[], ret="GenesisHash", eff=False, why="field of the model's config"),
    ("Schedule", "contains"): dict(targets=REPLICA, template="(match cindex {0} {1} with Some _ => true | None => false end)",
                                   params=["validator::PublicKey"], ret="bool", eff=False, why="Model/Replica.v ccontains"),
    ("Schedule", "view_leader"): dict(targets=REPLICA, template="(cleader v_cfg {1})", params=["ViewNumber"], ret="validator::PublicKey", eff=False,
                                      why="Model/Replica.v cleader (round robin; the election itself is C11 / Gen/Leader.v)"),
    ("StateMachine", "backup_state"): dict(targets=REPLICA, template="(backup_state v_cfg {0})", params=["ctx::Ctx"], ret="ctx::Result<()>", eff="h",
                                           why="Model/Replica.v backup_state: EPersist of the durable part of the state (block.rs backup_state is not translated)"),
    ("EngineManager", "queue_block"): dict(targets=REPLICA, template="(engine_queue_block s {1})", params=["ctx::Ctx", "FinalBlock"], ret="ctx::Result<()>",
                                           eff="h", why="Model/ReplicaGlue.v (H-ENG)"),
    ("EngineManager", "wait_until_persisted"): dict(targets=REPLICA, template="(engine_wait_persisted s {1})", params=["ctx::Ctx", "validator::BlockNumber"],
                                                    ret="ctx::Result<()>", eff="h", why="Model/ReplicaGlue.v (H-ENG): queued blocks are persisted at once"),
    ("FinalBlock", "header"): dict(targets=REPLICA, template="(cprop (qmsg (snd {0})))", params=[], ret="BlockHeader", eff=False, why="header of the justification"),
    ("PayloadMap", "get"): dict(targets=REPLICA, template="(payload_map_get {0} {1})", params=["PayloadHash"], ret="Option<Payload>", eff=False,
                                why="Model/ReplicaGlue.v: payloads are identified by their hash"),
    ("Outbound", "send"): dict(targets=REPLICA, template="(send_outbound s {1})", params=["ConsensusInputMessage"], ret="()", eff="h",
                               why="Model/ReplicaGlue.v: ESend effect"),
    ("ProposerSender", "send"): dict(targets=REPLICA, template="(notify_proposer s {1})", params=["Option<ProposalJustification>"],
                                     ret="Result<(), SendError>", eff="h", why="Model/ReplicaGlue.v: ENotifyProposer effect"),
    ("SecretKey", "sign_msg"): dict(targets=REPLICA, template="{1}", params=["ConsensusMsg"], ret="ConsensusMsg", eff=False,
                                    why="H-SIG: signing is symbolic, the model's ESend carries the message itself"),
    ("Ctx", "now"): dict(targets=REPLICA, template="tt", params=[], ret="Instant", eff=False, why="time is not part of the model"),
    ("Schedule", "iter"): dict(targets=["qc_verify"], template="{0}", params=[], ret="Vec<ValidatorInfo>", eff=False,
                               why="the committee of Model/Msgs.v is the list of the schedule's validators in key order"),
    ("Schedule", "len"): dict(targets=["qc_verify"], template="(Z.of_nat (length {0}))", params=[], ret="usize", eff=False,
                              why="the committee of Model/Msgs.v is the list of the schedule's validators"),
    ("Schedule", "quorum_threshold"): dict(targets=["qc_verify"] + REPLICA, template="(quorum {0})", params=[], ret="u64", eff=False,
                                           why="Model/Msgs.v quorum = total - (total - 1) / 5; arithmetic is C07"),
    ("Signers", "weight"): dict(targets=["justification", "qc_verify"] + REPLICA, template="signers_weight {1} {0}", params=["Schedule"], ret="u64", eff=True,
                                why="Model/Msgs.v signers_weight (asserts equal lengths, sums the weights); not trusted: the translated body of "
                                    "Signers::weight equals it, theorem C04_generated_signers_weight (positive weights, total < 2^64)"),
    ("Signers", "count"): dict(targets=["justification"], template="(Z.of_nat (length (filter (fun b : bool => b) {0})))", params=[], ret="usize", eff=False,
                               why="number of set bits of the signer bitmap; not trusted: theorem C04_generated_signers_count"),
    ("Duration", "seconds"): dict(targets=["std_conv"], self=False, template="(dur_seconds {0})", params=["i64"], ret="time::Duration",
                                  eff=False, why="Model/NetInput.v dur_seconds"),
    ("Duration", "nanoseconds"): dict(targets=["std_conv"], self=False, template="(dur_nanoseconds {0})", params=["i64"],
                                      ret="time::Duration", eff=False, why="Model/NetInput.v dur_nanoseconds (truncating division)"),
    ("Duration", "checked_add"): dict(targets=["std_conv"], template="(dur_checked_add {0} {1})", params=["time::Duration"],
                                      ret="Option<time::Duration>", eff=False, why="Model/NetInput.v dur_checked_add (the `time` crate's carry rules)"),
    ("Duration", "whole_seconds"): dict(targets=["std_conv"], template="(dsec {0})", params=[], ret="i64", eff=False, why="field of the model's dur"),
    ("Duration", "subsec_nanoseconds"): dict(targets=["std_conv"], template="(dnano {0})", params=[], ret="i32", eff=False, why="field of the model's dur"),
    ("BigUint", "from"): dict(targets=["leader"], self=False, template="{0}", params=["u64"], ret="BigUint", eff=False,
                              why="BigUint::from(u64) is the same number"),
    ("BigUint", "iter_u64_digits"): dict(targets=["leader"], template="(big_u64_digits {0})", params=[], ret="Vec<u64>", eff=False,
                                         why="Lib/RustSem.v big_u64_digits: base 2^64 digits, least significant first, none for zero"),
    ("Schedule", "subquorum_threshold"): dict(targets=["justification"], template="(subquorum {0})", params=[], ret="u64", eff=False,
                                              why="Model/Msgs.v subquorum = total - 3 * ((total - 1) / 5); arithmetic is C07"),
}


# Constants of other crates, mapped to the hand model.
CONSTS = {
    ("time", "UNIX_EPOCH"): dict(targets=["std_conv"], coq="dur_zero", type="Utc",
                                 why="Model/NetInput.v represents a Utc instant by its Duration since UNIX_EPOCH"),
}

# Operators on table types (std::ops impls that are not translated).
OPS = {
    ("Utc", "+"): dict(targets=["std_conv"], template="dur_add {0} {1}", eff=True, ret="Utc",
                       why="Model/NetInput.v dur_add: checked add + expect (time::Utc + Duration)"),
    ("Utc", "-"): dict(targets=["std_conv"], template="dur_sub {0} {1}", eff=True, ret="time::Duration",
                       why="Model/NetInput.v dur_sub: checked sub + expect (Utc - Utc)"),
    ("Signers", "&"): dict(targets=["qc_verify"], template="band {0} {1}", eff=False, why="Lib/ListW.v band: pointwise and (BitVec::and)"),
    ("Signers", "|"): dict(targets=["qc_verify"], template="bor {0} {1}", eff=False, why="Lib/ListW.v bor: pointwise or (BitVec::or)"),
    ("BigUint", "%"): dict(targets=["leader"], template="big_rem {0} {1}", eff=True,
                           why="num_bigint Rem: panics on a zero divisor, else the mathematical remainder"),
}


def _types(target=None):
    out = {}
    merged = dict(TYPES)
    if target:
        for d in order_of(target):
            merged.update(TARGETS[d].get("types", {}))
    for n, s in merged.items():
        s = dict(s)
        if s["kind"] == "newtype":
            s["inner"] = parse_type_src(s["inner"])
        out[n] = s
    return out


def _tok_text(toks):
    return " ".join(t.s for t in toks)


_items_cache = {}


def items_of(path):
    if path not in _items_cache:
        _items_cache[path] = scan_items(path)
    return _items_cache[path]


def verify_type(n, s):
    """A table entry with a source is compared with the declaration in that source (first time it is used)."""
    src = s.get("src")
    if not src:
        return
    it = items_of(src)
    if s["kind"] == "newtype":
        d = it.structs.get(n)
        if not d or d["kind"] != "tuple" or len(d["fields"]) != 1:
            raise ParseError(f"{src}: {n} is no longer a one-field tuple struct")
        t = parse_type_tokens(d["fields"][0][1], n)
        if s.get("src_inner"):
            if t != parse_type_src(s["src_inner"]):
                raise ParseError(f"{src}: {n} wraps {_tok_text(d['fields'][0][1])}, the type table says {s['src_inner']}")
        elif strip(t) != strip(s["inner"]):
            raise ParseError(f"{src}: {n} wraps {_tok_text(d['fields'][0][1])}, the type table says {s['inner']}")
        s["derives"] = d["derives"]
    elif s["kind"] == "record":
        d = it.structs.get(n)
        if not d or d["kind"] != "record":
            raise ParseError(f"{src}: struct {n} not found")
        have = {f: parse_type_tokens(t, n) for f, t in d["fields"]}
        want = {f: parse_type_src(ft[1]) for f, ft in s["fields"].items()}
        if have != want:
            raise ParseError(f"{src}: fields of struct {n} differ from the translator's type table: "
                             f"source {sorted(have)} vs table {sorted(want)} (or a field type changed)")
        s["derives"] = d["derives"]
    elif s["kind"] == "enum":
        d = it.enums.get(n)
        if not d:
            raise ParseError(f"{src}: enum {n} not found")
        have = {v: ([parse_type_tokens(t, n) for t in ts] if kd != "record" else "record") for v, kd, ts in d["variants"]}
        want = {v: ([parse_type_src(t) for t in vs[1]] if not isinstance(vs[1], dict) else "record") for v, vs in s["variants"].items()}
        if have != want:
            raise ParseError(f"{src}: variants of enum {n} differ from the translator's type table")
        s["derives"] = d["derives"]


# ---------------------------------------------------------------------------
# Targets

BS = R + "/node/libs/engine/src/block_store.rs"
HDR = R + "/node/components/network/src/mux/header.rs"
LIM = R + "/node/libs/concurrency/src/limiter/mod.rs"
SCHED = MSG + "/schedule.rs"
STDCONV = R + "/node/libs/protobuf/src/std_conv.rs"
BFT = R + "/node/components/bft/src"
NETSRC = R + "/node/components/network/src"
CHONKY = BFT + "/v2_chonky_bft"

# Types of the replica state machine -> Model/Replica.v.  Fields without a counterpart in the model map to None
# (timers, the inbound channel); channel endpoints, the engine and the secret key are unit values whose methods are
# callee-table entries (effects of the model).  A third component is the type the MODEL keeps for the field.
def handler_types(err_variants, msg_types):
    t = dict(REPLICA_TYPES)
    t["Error"] = {"kind": "enum", "coq": "rerr", "variants": err_variants}
    t.update(msg_types)
    return t


ERR_COMMON = {"NonValidatorSigner": ("RNonValidatorSigner", {"signer": "Box<validator::PublicKey>"}, "drop"),
              "InvalidSignature": ("RInvalidSignature", ["anyhow::Error"], "drop"),
              "Internal": ("{0}", ["ctx::Error"])}
# an incoming signed message is (claimed key, signature verdict, message): Model/Replica.v sgmsg
def signed(coq_msg, rust_msg):
    return {"kind": "record", "coq": f"(Z * bool * {coq_msg})",
            "fields": {"msg": ("snd", rust_msg), "key": ("fst (fst {0})", "validator::PublicKey"), "sig": (None, "validator::Signature")}}


def signed_verify(ty):
    return {(ty, "verify"): dict(template="(if snd (fst {0}) then Ok tt else Err tt)", params=[], ret="anyhow::Result<()>", eff=False,
                                 why="H-SIG: the signature verdict is an input of the model (sgmsg.m_sig_ok)")}


def hs_types(handshake_fields, sig_err):
    return {
        "Handshake": {"kind": "record", "coq": "hmsg", "fields": handshake_fields},
        "Signed_SessionId": {"kind": "record", "coq": "hmsg",
                             "fields": {"msg": ("m_sid", "node::SessionId"), "key": ("m_key", "PublicKey"), "sig": ("m_sig", "Signature")}},
        "SessionId": {"kind": "opaque", "coq": "Z", "eqb": "Z.eqb"},
        "PublicKey": {"kind": "opaque", "coq": "Z", "eqb": "Z.eqb"},
        "GenesisHash": {"kind": "opaque", "coq": "Z", "eqb": "Z.eqb"},
        "SecretKey": {"kind": "opaque", "coq": "Z"},        # a secret key is identified with its public key (pool index)
        "Config": {"kind": "opaque", "coq": "unit"},
        "Recv": {"kind": "opaque", "coq": "recv"},
        "Claims": {"kind": "opaque", "coq": "unit"},
        "Ctx": {"kind": "dropped", "coq": "unit"},
        "Stream": {"kind": "dropped", "coq": "unit"},
        "Connection": {"kind": "record", "coq": "Z", "mk": "{key}", "into": True,
                       "fields": {"key": ("id", "node::PublicKey"), "build_version": (None, "Claims"), "stats": (None, "Claims")}},
        "Error": {"kind": "enum", "coq": "herr",
                  "variants": {"GenesisMismatch": ("EGenesisMismatch", []), "SessionIdMismatch": ("ESessionIdMismatch", []),
                               "PeerMismatch": ("EPeerMismatch", []), "Signature": ("ESignature", [sig_err], "drop"),
                               "Stream": ("EStream", ["ctx::Error"], "drop")}},
    }


HS_EXTERNS = {
    ("SecretKey", "public"): dict(template="{0}", params=[], ret="PublicKey", eff=False, why="keys are pool indices"),
    ("Signed_SessionId", "verify"): dict(template="(if verify (m_key {0}) (m_sid {0}) (m_sig {0}) then Ok tt else Err ESignature)", params=[],
                                         ret="Result<(), Error>", eff=False, why="H-SIG: Model/Handshake.v verify"),
}
# what the handshake functions read from the wire and write to it is bound: the received message is the abstract input `r`
# (Model/Handshake.v recv), the own session id the abstract input `own_sid` (H-SID); the message sent is not part of the decision
HS_BINDS = [
    {"rust": "node::SessionId(stream.id().encode())", "coq": "v_own_sid", "type": "node::SessionId"},
    {"rust": "frame::recv_proto(ctx, stream, MAX_FRAME)", "coq": "(match v_r with RMsg m => Ok m | RClosed => Err EStream end)", "type": "Result<Handshake, Error>"},
]
HS_EXTRA = [("own_sid", "node::SessionId"), ("r", "Recv")]


REPLICA_TYPES = {
    "StateMachine": {"kind": "record", "coq": "rstate", "src": CHONKY + "/mod.rs",
                     "fields": {
                         "config": ("=v_cfg", "Arc<Config>"),
                         "outbound_channel": ("=tt", "ctx::channel::UnboundedSender<ToNetworkMessage>", "Outbound"),
                         "inbound_channel": (None, "sync::prunable_mpsc::Receiver<FromNetworkMessage>"),
                         "proposer_sender": ("=tt", "sync::watch::Sender<Option<validator::v2::ProposalJustification>>", "ProposerSender"),
                         "view_number": ("r_view", "validator::ViewNumber"),
                         "phase": ("r_phase", "validator::v2::Phase"),
                         "high_vote": ("r_high_vote", "Option<validator::v2::ReplicaCommit>"),
                         "high_commit_qc": ("r_high_cqc", "Option<validator::v2::CommitQC>"),
                         "high_timeout_qc": ("r_high_tqc", "Option<validator::v2::TimeoutQC>"),
                         "block_proposal_cache": ("r_cache", "BTreeMap<validator::BlockNumber, HashMap<validator::PayloadHash, validator::Payload>>",
                                                  "BTreeMap<validator::BlockNumber, PayloadMap>"),
                         "commit_views_cache": ("r_commit_views", "BTreeMap<validator::PublicKey, validator::ViewNumber>"),
                         "commit_qcs_cache": ("r_commit_qcs", "BTreeMap<validator::ViewNumber, BTreeMap<validator::v2::ReplicaCommit, validator::v2::CommitQC>>"),
                         "timeout_views_cache": ("r_timeout_views", "BTreeMap<validator::PublicKey, validator::ViewNumber>"),
                         "timeout_qcs_cache": ("r_timeout_qcs", "BTreeMap<validator::ViewNumber, validator::v2::TimeoutQC>"),
                         "view_timeout": (None, "time::Deadline"),
                         "view_start": (None, "time::Instant")},
                     "setters": {"view_number": "set_view {s} {v}", "phase": "set_phase {s} {v}", "high_vote": "set_high_vote {s} {v}",
                                 "high_commit_qc": "set_high_cqc {s} {v}", "high_timeout_qc": "set_high_tqc {s} {v}",
                                 "block_proposal_cache": "set_cache {s} {v}",
                                 "commit_views_cache": "set_commit_caches {s} {v} (r_commit_qcs {s})",
                                 "commit_qcs_cache": "set_commit_caches {s} (r_commit_views {s}) {v}",
                                 "timeout_views_cache": "set_timeout_caches {s} {v} (r_timeout_qcs {s})",
                                 "timeout_qcs_cache": "set_timeout_caches {s} (r_timeout_views {s}) {v}"},
                     "ignored_assign": ["view_timeout", "view_start"]},
    "Config": {"kind": "record", "coq": "config", "src": BFT + "/config.rs",
               "fields": {"engine_manager": ("=tt", "Arc<EngineManager>", "EngineManager"),
                          "secret_key": ("=tt", "validator::SecretKey", "SecretKey"),
                          "max_payload_size": ("cmaxpay", "usize"),
                          "view_timeout": (None, "time::Duration"),
                          "epoch": ("ce", "validator::EpochNumber"),
                          "first_block": ("cfirst", "validator::BlockNumber"),
                          "validators": ("cC", "validator::Schedule")}},
    "Phase": {"kind": "enum", "coq": "phase", "eqb": "phase_eqb", "src": MSG + "/v2/consensus.rs",
              "variants": {"Prepare": ("Prepare", []), "Commit": ("PCommit", []), "Timeout": ("PTimeout", [])}},
    "Ctx": {"kind": "dropped", "coq": "unit"},
    "EngineManager": {"kind": "opaque", "coq": "unit"},
    "SecretKey": {"kind": "opaque", "coq": "unit"},
    "Outbound": {"kind": "opaque", "coq": "unit"},
    "ProposerSender": {"kind": "opaque", "coq": "unit"},
    "Instant": {"kind": "opaque", "coq": "unit"},
    "Payload": {"kind": "opaque", "coq": "Z", "eqb": "Z.eqb"},        # a payload is identified by its hash (Model/Replica.v)
    "PayloadMap": {"kind": "opaque", "coq": "(list Z)"},
    "PublicKey": {"kind": "opaque", "coq": "Z", "eqb": "Z.eqb"},
    "CtxError": {"kind": "opaque", "coq": "rerr"},
    # FinalBlock { payload, justification }
    "FinalBlock": {"kind": "record", "coq": "(Z * cqc)", "mk": "{payload}, {justification}", "into": True,
                   "fields": {"payload": ("fst", "Payload"), "justification": ("snd", "CommitQC")}},
    "View": dict(TYPES["View"], ge="view_ge"),
    # outbound messages: signing is symbolic (the model's ESend carries the message)
    "ConsensusInputMessage": {"kind": "record", "coq": "cmsg", "mk": "{message}", "fields": {"message": ("id", "validator::Signed<validator::ConsensusMsg>", "ConsensusMsg")}},
    "ConsensusMsg": {"kind": "enum", "coq": "cmsg", "variants": {"V2": ("{0}", ["ChonkyMsg"])}},
    "ChonkyMsg": {"kind": "enum", "coq": "cmsg",
                  "variants": {"ReplicaNewView": ("MNewView {0}", ["ReplicaNewView"]), "ReplicaCommit": ("MCommit {0}", ["ReplicaCommit"]),
                               "ReplicaTimeout": ("MTimeout {0}", ["ReplicaTimeout"]), "LeaderProposal": ("{0}", ["LeaderProposal"])}},
    # a ReplicaNewView is its justification; a LeaderProposal is (payload id or None, justification)  (Model/Replica.v cmsg)
    "ReplicaNewView": {"kind": "record", "coq": "justification", "mk": "{justification}", "src": MSG + "/v2/replica_new_view.rs",
                       "fields": {"justification": ("id", "ProposalJustification")}},
    "LeaderProposal": {"kind": "record", "coq": "(option Z * justification)", "mk": "{proposal_payload}, {justification}",
                       "src": MSG + "/v2/leader_proposal.rs",
                       "fields": {"proposal_payload": ("fst", "Option<Payload>"), "justification": ("snd", "ProposalJustification")}},
    "ReplicaNewViewVerifyError": {"kind": "enum", "coq": "just_err", "src": MSG + "/v2/replica_new_view.rs",
                                  "variants": {"Justification": ("{0}", ["ProposalJustificationVerifyError"])}},
    "LeaderProposalVerifyError": {"kind": "enum", "coq": "just_err", "src": MSG + "/v2/leader_proposal.rs",
                                  "variants": {"Justification": ("{0}", ["ProposalJustificationVerifyError"])}},
}

TARGETS = {
    "numbers": {
        "out": "theories/Gen/Numbers.v",
        "requires": "Lib.Outcome Lib.U64 Lib.RustSem",
        "deps": [],
        "items": [
            {"kind": "fn", "src": MSG + "/consensus.rs", "type": "ViewNumber", "name": "next"},
            {"kind": "fn", "src": MSG + "/consensus.rs", "type": "ViewNumber", "name": "prev"},
            {"kind": "fn", "src": MSG + "/consensus.rs", "type": "EpochNumber", "name": "next"},
            {"kind": "fn", "src": MSG + "/consensus.rs", "type": "EpochNumber", "name": "prev"},
            {"kind": "fn", "src": MSG + "/block.rs", "type": "BlockNumber", "name": "next"},
            {"kind": "fn", "src": MSG + "/block.rs", "type": "BlockNumber", "name": "prev"},
        ],
    },
    "block_store": {
        "out": "theories/Gen/BlockStore.v",
        "requires": "Lib.Outcome Lib.U64 Lib.RustSem Model.BlockStore Gen.Numbers",
        "deps": ["numbers"],
        "types": {
            "BlockStoreState": {"kind": "record", "coq": "bss", "src": BS,
                                "fields": {"first": ("bfirst", "validator::BlockNumber"), "last": ("blast", "Option<Last>")},
                                "setters": {"first": "{{| bfirst := {v}; blast := blast {s} |}}", "last": "{{| bfirst := bfirst {s}; blast := {v} |}}"}},
            "BlockStore": {"kind": "record", "coq": "store", "src": BS,
                           "fields": {"queued": ("queued", "BlockStoreState"), "persisted": ("persisted", "BlockStoreState"),
                                      "cache": ("cache", "VecDeque<validator::Block>")},
                           "setters": {"queued": "{{| queued := {v}; persisted := persisted {s}; cache := cache {s} |}}",
                                       "persisted": "{{| queued := queued {s}; persisted := {v}; cache := cache {s} |}}",
                                       "cache": "{{| queued := queued {s}; persisted := persisted {s}; cache := {v} |}}"}},
            "Block": {"kind": "opaque", "coq": "block"},
        },
        "externs": {
            ("Block", "number"): dict(template="(bnum {0})", params=[], ret="validator::BlockNumber", eff=False, why="Model/BlockStore.v bnum"),
            ("Last", "from"): dict(self=False, template="(bnum {0})", params=["Block"], ret="Last", eff=False,
                                   why="Model/BlockStore.v represents `last` by the number of the last block"),
            ("BlockStore", "truncate_cache"): dict(
                template="({{| queued := queued s; persisted := persisted s; "
                         "cache := truncate (Z.to_nat gen_BlockStore_CACHE_CAPACITY) (bs_next (persisted s)) (cache s) |}}, Ok tt)",
                params=[], ret="()", eff="s", why="Model/BlockStore.v truncate: the loop `while COND { pop_front }`; COND and the capacity are "
                                                 "translated and tied by C08_generated_truncate_cond / _truncate_step"),
        },
        "items": [
            {"kind": "const", "src": BS, "type": "BlockStore", "name": "CACHE_CAPACITY"},
            {"kind": "fn", "src": BS, "type": "BlockStoreState", "name": "contains"},
            {"kind": "fn", "src": BS, "type": "BlockStoreState", "name": "head"},
            {"kind": "fn", "src": BS, "type": "BlockStoreState", "name": "next"},
            # the loop condition of truncate_cache as a function of what it reads; the loop body is pinned
            {"kind": "while_cond", "src": BS, "type": "BlockStore", "name": "truncate_cache", "as": "truncate_cache_cond",
             "params": [("cache_len", "usize"), ("persisted", "BlockStoreState"), ("cache_front_number", "validator::BlockNumber")],
             "binds": [{"rust": "self.cache.len()", "coq": "v_cache_len", "type": "usize"},
                       {"rust": "self.persisted", "coq": "v_persisted", "type": "BlockStoreState"},
                       {"rust": "self.cache[0].number()", "coq": "index_known v_cache_len 0 v_cache_front_number",
                        "type": "validator::BlockNumber", "eff": True}],
             "pin_body": "{ self.cache.pop_front(); }"},
            # update_persisted and try_push as state functions over the store (the loop of truncate_cache is the model's
            # `truncate` with the translated capacity; its condition is tied above)
            {"kind": "state_fn", "flavour": "s", "src": BS, "type": "BlockStore", "name": "update_persisted", "state": "store", "err": "unit",
             "anyhow": {"head block has been removed from storage, this is not supported": "tt"}},
            {"kind": "state_fn", "flavour": "s", "src": BS, "type": "BlockStore", "name": "try_push", "as": "try_push_state", "state": "store", "err": "unit"},
            # the decision of try_push (its return value); the three state updates are pinned textually
            {"kind": "decision", "src": BS, "type": "BlockStore", "name": "try_push", "as": "try_push_accepts",
             "params": [("queued", "BlockStoreState"), ("block_number", "validator::BlockNumber")],
             "ret": "bool",
             "binds": [{"rust": "self.queued", "coq": "v_queued", "type": "BlockStoreState"},
                       {"rust": "block.number()", "coq": "v_block_number", "type": "validator::BlockNumber"}],
             "allowed": ["self.queued.last = Some(Last::from(&block))", "self.cache.push_back(block)", "self.truncate_cache()"]},
        ],
    },
    "mux_header": {
        "out": "theories/Gen/MuxHeader.v",
        "requires": "Lib.Outcome Lib.U64 Lib.RustSem",
        "deps": [],
        "items": [
            {"kind": "const", "src": HDR, "type": "FrameKind", "name": "OPEN"},
            {"kind": "const", "src": HDR, "type": "FrameKind", "name": "DATA"},
            {"kind": "const", "src": HDR, "type": "FrameKind", "name": "CLOSE"},
            {"kind": "const", "src": HDR, "type": "FrameKind", "name": "MASK"},
            {"kind": "const", "src": HDR, "type": "StreamKind", "name": "ACCEPT"},
            {"kind": "const", "src": HDR, "type": "StreamKind", "name": "CONNECT"},
            {"kind": "const", "src": HDR, "type": "StreamKind", "name": "MASK"},
            {"kind": "const", "src": HDR, "type": "StreamId", "name": "MASK"},
            {"kind": "fn", "src": HDR, "type": "StreamId", "name": "new"},
            {"kind": "fn", "src": HDR, "type": "Header", "name": "new"},
            {"kind": "fn", "src": HDR, "type": "Header", "name": "frame_kind"},
            {"kind": "fn", "src": HDR, "type": "Header", "name": "stream_kind"},
            {"kind": "fn", "src": HDR, "type": "Header", "name": "stream_id"},
            {"kind": "fn", "src": HDR, "type": "Header", "name": "raw"},
            {"kind": "fn", "src": HDR, "type": "Header", "name": "From::from", "as": "from_bytes"},
        ],
    },
    "leader": {
        "out": "theories/Gen/Leader.v",
        "requires": "Lib.Outcome Lib.U64 Lib.RustSem Model.Leader",
        "deps": [],
        "types": {
            "Schedule": {"kind": "record", "coq": "schedule", "src": SCHED,
                         "mk": "{{| svec := {vec}; stotal := {total_weight}; sleaders := map Z.to_nat {leaders}; "
                               "ssel := {leader_selection}; sleader_weight := {leader_weight} |}}",
                         "fields": {"vec": ("svec", "Vec<ValidatorInfo>"),
                                    "indexes": (None, "BTreeMap<validator::PublicKey, usize>"),
                                    "total_weight": ("stotal", "u64"),
                                    "leaders": ("map Z.of_nat (sleaders {0})", "Vec<usize>"),
                                    "leader_selection": ("ssel", "LeaderSelection"),
                                    "leader_weight": ("sleader_weight", "u64")}},
            "ValidatorInfo": {"kind": "record", "coq": "vinfo", "src": SCHED,
                              "fields": {"key": ("vkey", "validator::PublicKey"), "weight": ("vweight", "u64"), "leader": ("vleader", "bool")}},
            "LeaderSelection": {"kind": "record", "coq": "selection", "src": SCHED,
                                "fields": {"frequency": ("sfreq", "u64"), "mode": ("smode", "LeaderSelectionMode")}},
            "LeaderSelectionMode": {"kind": "enum", "coq": "mode", "src": SCHED,
                                    "variants": {"RoundRobin": ("RoundRobin", []), "Weighted": ("Weighted", [])}},
            "PublicKey": {"kind": "opaque", "coq": "Z", "eqb": "Z.eqb"},     # keys are ranks in byte order (Model/Leader.v)
            "BigUint": {"kind": "opaque", "coq": "Z"},
            "Keccak256": {"kind": "opaque", "coq": "unit"},
        },
        "items": [
            {"kind": "fn", "src": SCHED, "type": "Schedule", "name": "get"},
            # Schedule::new: the key -> index map is not part of the model (bound, i.e. pinned textually)
            {"kind": "fn", "src": SCHED, "type": "Schedule", "name": "new", "err": "serr",
             "anyhow": {"Duplicate key in validator Schedule": "EDuplicateKey",
                        "Validator weight has to be a positive value": "EZeroWeight",
                        "Sum of weights overflows in validator Schedule": "EOverflow",
                        "Validator Schedule must contain at least one validator": "EEmpty",
                        "Validator Schedule must contain at least one leader": "ENoLeader"},
             "binds": [{"rust": "vec.iter().enumerate().map(|(i, v)| (v.key.clone(), i)).collect()", "coq": "tt", "type": "Claims"}]},
            # the keccak digest of the turn number is an abstract input `digest` (as an unbounded integer, big endian)
            {"kind": "fn", "src": SCHED, "type": "LeaderSelection", "name": "leader_weighted_eligibility",
             "extra_params": [("digest", "BigUint")],
             "binds": [{"rust": "Keccak256::new(&input_bytes)", "coq": "tt", "type": "Keccak256"},
                       {"rust": "BigUint::from_bytes_be(hash.as_bytes())", "coq": "v_digest", "type": "BigUint"}]},
            {"kind": "fn", "src": SCHED, "type": "Schedule", "name": "view_leader", "extra_params": [("digest", "BigUint")]},
        ],
    },
    "qc_verify": {
        "out": "theories/Gen/QCVerify.v",
        "requires": "Lib.Outcome Lib.U64 Lib.RustSem Lib.ListW Model.Msgs",
        "deps": [],
        "types": {
            # in Model/Msgs.v a validator is (key, weight); leader eligibility plays no role in certificates
            "ValidatorInfo": {"kind": "record", "coq": "member", "src": SCHED,
                              "fields": {"key": ("mkey", "validator::PublicKey"), "weight": ("mweight", "u64"), "leader": (None, "bool")}},
        },
        "items": [
            # Signers::weight / count themselves: translated under the names gen_Signers_weight_impl / _count_impl and proved equal
            # to what the callee table maps Signers::weight / count to (so those two table entries are theorems, not trust)
            {"kind": "fn", "src": MSG + "/v2/consensus.rs", "type": "Signers", "name": "weight", "as": "weight_impl", "register": False},
            {"kind": "fn", "src": MSG + "/v2/consensus.rs", "type": "Signers", "name": "count", "as": "count_impl", "register": False},
            {"kind": "fn", "src": MSG + "/v2/consensus.rs", "type": "Signers", "name": "new"},
            {"kind": "fn", "src": MSG + "/v2/consensus.rs", "type": "Signers", "name": "len"},
            {"kind": "fn", "src": MSG + "/v2/consensus.rs", "type": "Signers", "name": "is_empty"},
            {"kind": "fn", "src": MSG + "/v2/consensus.rs", "type": "View", "name": "verify", "err": "view_err",
             "anyhow": {"Genesis mismatch. expected: {:?}, got: {:?}": "EGenesis", "Epoch number mismatch. expected: {}, got: {}": "EEpoch"}},
            {"kind": "fn", "src": MSG + "/v2/replica_commit.rs", "type": "ReplicaCommit", "name": "verify"},
            # symbolic cryptography (H-SIG): AggregateSignature::verify_messages over the selected (message, key) pairs is the
            # multiset comparison of Model/Msgs.v; the iterator that selects the pairs is read as the model's selection
            {"kind": "fn", "src": MSG + "/v2/replica_commit.rs", "type": "CommitQC", "name": "verify",
             "binds": [{"rust": "validators_schedule.keys().enumerate().filter(|(i, _)| self.signers.0[*i]).map(|(_, pk)| (self.message.clone(), pk))",
                        "coq": "tt", "type": "Claims"},
                       {"rust": "self.signature.verify_messages(messages_and_keys)", "type": "anyhow::Result<()>",
                        "coq": "(if mset_eqb (ksig_eqb sigref_eqb) (qagg v_self) (map (fun k => (k, RCommit (qmsg v_self))) "
                               "(selected_keys v_validators_schedule (qsigners v_self))) then Ok tt else Err tt)"}]},
            {"kind": "fn", "src": MSG + "/v2/replica_timeout.rs", "type": "ReplicaTimeout", "name": "verify"},
            {"kind": "fn", "src": MSG + "/v2/replica_timeout.rs", "type": "TimeoutQC", "name": "verify",
             "binds": [{"rust": "self.map.clone().into_iter().flat_map(|(msg, signers)| { validators_schedule.keys().enumerate()"
                                ".filter(|(i, _)| signers.0[*i]).map(|(_, pk)| (msg.clone(), pk)).collect::<Vec<_>>() })",
                        "coq": "tt", "type": "Claims"},
                       {"rust": "self.signature.verify_messages(messages_and_keys)", "type": "anyhow::Result<()>",
                        "coq": "(if mset_eqb (ksig_eqb tsigref_eqb) (tqagg v_self) (tqc_claimed v_validators_schedule (tqmap v_self)) "
                               "then Ok tt else Err tt)"}]},
            {"kind": "fn", "src": MSG + "/v2/leader_proposal.rs", "type": "ProposalJustification", "name": "verify"},
            # add(): the accept / reject decision (with the error) is translated; the state updates that follow an accepted
            # message are pinned as the exact last statements of the body
            {"kind": "decision", "src": MSG + "/v2/replica_commit.rs", "type": "CommitQC", "name": "add", "as": "add_decision",
             "pinned_tail": "self.signers.0.set(i, true); self.signature.add(&msg.sig);"},
            {"kind": "decision", "src": MSG + "/v2/replica_timeout.rs", "type": "TimeoutQC", "name": "add", "as": "add_decision",
             "pinned_tail": "let e = self.map.entry(msg.msg.clone()).or_insert_with(|| Signers::new(validators_schedule.len())); "
                            "e.0.set(i, true); self.signature.add(&msg.sig);"},
        ],
    },
    "std_conv": {
        "out": "theories/Gen/StdConv.v",
        "requires": "Lib.Outcome Lib.U64 Lib.RustSem Model.NetInput",
        "deps": [],
        "types": {
            "Duration": {"kind": "opaque", "coq": "dur"},
            "Utc": {"kind": "opaque", "coq": "dur"},       # an instant = its Duration since UNIX_EPOCH
            # the prost message of Duration / Timestamp: two optional fields
            "Proto": {"kind": "record", "coq": "(option Z * option Z)", "mk": "{seconds}, {nanos}",
                      "fields": {"seconds": ("fst {0}", "Option<i64>"), "nanos": ("snd {0}", "Option<i32>")}},
        },
        "items": [
            {"kind": "fn", "src": STDCONV, "type": "", "name": "duration_from_parts", "err": "Z",
             "anyhow": {"duration out of range": "E_RANGE"}},
            {"kind": "fn", "src": STDCONV, "type": "Duration", "name": "ProtoFmt::read", "as": "read", "err": "Z",
             "anyhow": {"<required>": "0", "seconds": "E_MISSING_1", "nanos": "E_MISSING_2"}},
            {"kind": "fn", "src": STDCONV, "type": "Duration", "name": "ProtoFmt::build", "as": "build"},
            {"kind": "fn", "src": STDCONV, "type": "Utc", "name": "ProtoFmt::read", "as": "read", "err": "Z",
             "anyhow": {"<required>": "0", "seconds": "E_MISSING_1", "nanos": "E_MISSING_2"}},
            {"kind": "fn", "src": STDCONV, "type": "Utc", "name": "ProtoFmt::build", "as": "build"},
        ],
    },
    "replica_core": {
        "out": "theories/Gen/ReplicaCore.v",
        "requires": "Lib.Outcome Lib.U64 Lib.RustSem Lib.ListW Lib.Obs Model.Msgs Model.Replica Model.ReplicaGlue Gen.Numbers Gen.Justification Gen.QCVerify",
        "deps": ["numbers", "justification", "qc_verify"],
        "types": REPLICA_TYPES,
        "items": [
            {"kind": "fn", "src": MSG + "/v2/replica_new_view.rs", "type": "ReplicaNewView", "name": "view"},
            {"kind": "fn", "src": MSG + "/v2/replica_new_view.rs", "type": "ReplicaNewView", "name": "verify"},
            {"kind": "fn", "src": MSG + "/v2/leader_proposal.rs", "type": "LeaderProposal", "name": "view"},
            {"kind": "fn", "src": MSG + "/v2/leader_proposal.rs", "type": "LeaderProposal", "name": "verify"},
            {"kind": "state_fn", "src": CHONKY + "/block.rs", "type": "StateMachine", "name": "save_block"},
            {"kind": "state_fn", "src": CHONKY + "/mod.rs", "type": "StateMachine", "name": "process_commit_qc"},
            {"kind": "state_fn", "src": CHONKY + "/mod.rs", "type": "StateMachine", "name": "process_timeout_qc"},
            {"kind": "fn", "src": CHONKY + "/new_view.rs", "type": "StateMachine", "name": "get_justification", "extra_params": [("cfg", "Config")]},
            {"kind": "state_fn", "src": CHONKY + "/new_view.rs", "type": "StateMachine", "name": "start_new_view"},
            {"kind": "state_fn", "src": CHONKY + "/timeout.rs", "type": "StateMachine", "name": "start_timeout"},
        ],
    },
    "replica_commit": {
        "out": "theories/Gen/ReplicaCommit.v",
        "requires": "Lib.Outcome Lib.U64 Lib.RustSem Lib.ListW Lib.Obs Model.Msgs Model.Replica Model.ReplicaGlue "
                    "Gen.Numbers Gen.Justification Gen.QCVerify Gen.ReplicaCore",
        "deps": ["qc_verify", "replica_core"],
        "types": handler_types(dict(ERR_COMMON,
                                    Old=("ROld", {"current_view": "validator::ViewNumber"}, "drop"),
                                    DuplicateSigner=("RDuplicateSigner", {"message_view": "validator::ViewNumber", "signer": "Box<validator::PublicKey>"}, "drop"),
                                    InvalidMessage=("RInvalidMessage (OZ (view_err_code {0}))", ["validator::v2::ReplicaCommitVerifyError"])),
                               {"Signed_ReplicaCommit": signed("commit", "validator::v2::ReplicaCommit")}),
        "externs": signed_verify("Signed_ReplicaCommit"),
        "items": [
            {"kind": "guard", "src": CHONKY + "/commit.rs", "type": "StateMachine", "name": "on_commit", "as": "on_commit_guard",
             "to": {"let_mentions": "entry"}},
            {"kind": "pin", "src": CHONKY + "/commit.rs", "type": "StateMachine", "name": "on_commit", "what": "add the vote to the CommitQC under construction, compute its weight",
             "from": {"let_mentions": "entry"}, "to": {"call": "insert"}, "sha": "9666448c64a29d48"},
            {"kind": "state_part", "src": CHONKY + "/commit.rs", "type": "StateMachine", "name": "on_commit", "as": "on_commit_tail",
             "from": {"call": "insert"}, "to": {"end": True},
             "locals": [("message", "validator::v2::ReplicaCommit"), ("author", "validator::PublicKey"), ("weight", "u64")]},
        ],
    },
    "replica_timeout": {
        "out": "theories/Gen/ReplicaTimeout.v",
        "requires": "Lib.Outcome Lib.U64 Lib.RustSem Lib.ListW Lib.Obs Model.Msgs Model.Replica Model.ReplicaGlue "
                    "Gen.Numbers Gen.Justification Gen.QCVerify Gen.ReplicaCore",
        "deps": ["qc_verify", "replica_core"],
        "types": handler_types(dict(ERR_COMMON,
                                    Old=("ROld", {"current_view": "validator::ViewNumber"}, "drop"),
                                    DuplicateSigner=("RDuplicateSigner", {"message_view": "validator::ViewNumber", "signer": "Box<validator::PublicKey>"}, "drop"),
                                    InvalidMessage=("RInvalidMessage (timeout_verify_err_obs {0})", ["validator::v2::ReplicaTimeoutVerifyError"])),
                               {"Signed_ReplicaTimeout": signed("timeout", "validator::v2::ReplicaTimeout")}),
        "externs": {**signed_verify("Signed_ReplicaTimeout"),
                    ("TimeoutQC", "weight"): dict(template="tqc_weight {1} {0}", params=["Schedule"], ret="u64", eff=True,
                                                  why="Model/Msgs.v tqc_weight (sum of the entries' signer weights)")},
        "items": [
            {"kind": "guard", "src": CHONKY + "/timeout.rs", "type": "StateMachine", "name": "on_timeout", "as": "on_timeout_guard",
             "to": {"let_mentions": "entry"}},
            {"kind": "pin", "src": CHONKY + "/timeout.rs", "type": "StateMachine", "name": "on_timeout",
             "what": "add the vote to the TimeoutQC under construction, compute its weight",
             "from": {"let_mentions": "entry"}, "to": {"call": "insert"}, "sha": "90bb0441592fbfad"},
            {"kind": "state_part", "src": CHONKY + "/timeout.rs", "type": "StateMachine", "name": "on_timeout", "as": "on_timeout_tail",
             "from": {"call": "insert"}, "to": {"end": True},
             "locals": [("message", "validator::v2::ReplicaTimeout"), ("author", "validator::PublicKey"), ("weight", "u64")]},
        ],
    },
    "replica_new_view": {
        "out": "theories/Gen/ReplicaNewView.v",
        "requires": "Lib.Outcome Lib.U64 Lib.RustSem Lib.ListW Lib.Obs Model.Msgs Model.Replica Model.ReplicaGlue "
                    "Gen.Numbers Gen.Justification Gen.QCVerify Gen.ReplicaCore",
        "deps": ["qc_verify", "replica_core"],
        "types": handler_types(dict(ERR_COMMON,
                                    Old=("ROld", {"current_view": "validator::ViewNumber"}, "drop"),
                                    InvalidMessage=("RInvalidMessage (just_err_obs {0})", ["validator::v2::ReplicaNewViewVerifyError"])),
                               {"Signed_ReplicaNewView": signed("justification", "validator::v2::ReplicaNewView")}),
        "externs": signed_verify("Signed_ReplicaNewView"),
        "items": [
            {"kind": "guard", "src": CHONKY + "/new_view.rs", "type": "StateMachine", "name": "on_new_view", "as": "on_new_view_guard",
             "to": {"kind": "match"}},
            {"kind": "state_part", "src": CHONKY + "/new_view.rs", "type": "StateMachine", "name": "on_new_view", "as": "on_new_view_tail",
             "from": {"kind": "match"}, "to": {"end": True}, "locals": [("message", "validator::v2::ReplicaNewView")]},
        ],
    },
    "replica_proposal": {
        "out": "theories/Gen/ReplicaProposal.v",
        "requires": "Lib.Outcome Lib.U64 Lib.RustSem Lib.ListW Lib.Obs Model.Msgs Model.Replica Model.ReplicaGlue "
                    "Gen.Numbers Gen.Justification Gen.QCVerify Gen.ReplicaCore",
        "deps": ["qc_verify", "replica_core"],
        "types": handler_types(dict(ERR_COMMON,
                                    Old=("ROld", {"current_view": "validator::ViewNumber", "current_phase": "validator::v2::Phase"}, "drop"),
                                    InvalidLeader=("RInvalidLeader", {"correct_leader": "validator::PublicKey", "received_leader": "validator::PublicKey"}, "drop"),
                                    InvalidMessage=("RInvalidMessage (just_err_obs {0})", ["validator::v2::LeaderProposalVerifyError"]),
                                    ProposalAlreadyPruned=("RProposalAlreadyPruned", []), ReproposalWithPayload=("RReproposalWithPayload", []),
                                    MissingPayload=("RMissingPayload", []),
                                    ProposalOversizedPayload=("ROversizedPayload", {"payload_size": "usize"}, "drop"),
                                    MissingPreviousPayload=("RMissingPreviousPayload", {"prev_number": "validator::BlockNumber"}, "drop"),
                                    InvalidPayload=("RInvalidPayload", ["anyhow::Error"], "drop")),
                               {"Signed_LeaderProposal": signed("(option Z * justification)", "validator::v2::LeaderProposal")}),
        "externs": signed_verify("Signed_LeaderProposal"),
        "items": [
            {"kind": "guard", "src": CHONKY + "/proposal.rs", "type": "StateMachine", "name": "on_proposal", "as": "on_proposal_guard",
             "to": {"let_kind": "match"},
             "returns": {"expr": "(implied_block_number, implied_block_hash)", "type": "(validator::BlockNumber, Option<validator::PayloadHash>)"},
             "binds": [{"rust": "self.config.engine_manager.queued().first", "coq": "(r_store_first v_self)", "type": "validator::BlockNumber"}]},
            {"kind": "pin", "src": CHONKY + "/proposal.rs", "type": "StateMachine", "name": "on_proposal",
             "what": "payload checks of a proposal (reproposal without payload, size, previous block persisted, verify_payload) and caching of the payload",
             "from": {"let_kind": "match"}, "to": {"let_struct": "ReplicaCommit"}, "sha": "5890c90419e9cf19"},
            {"kind": "state_part", "src": CHONKY + "/proposal.rs", "type": "StateMachine", "name": "on_proposal", "as": "on_proposal_tail",
             "from": {"let_struct": "ReplicaCommit"}, "to": {"end": True},
             "locals": [("message", "validator::v2::LeaderProposal"), ("implied_block_number", "validator::BlockNumber"),
                        ("block_hash", "validator::PayloadHash")]},
        ],
    },
    "proposer": {
        "out": "theories/Gen/Proposer.v",
        "requires": "Lib.Outcome Lib.U64 Lib.RustSem Lib.ListW Lib.Obs Model.Msgs Model.Replica Model.ReplicaGlue Model.RunLoop "
                    "Gen.Numbers Gen.Justification",
        "deps": ["numbers", "justification"],
        "types": REPLICA_TYPES,
        # the engine as the proposer sees it: the previous block is persisted iff it is below the store's next number
        # (otherwise the task waits: RBlocked); propose_payload is the harness engine's payload (Model/RunLoop.v)
        "externs": {
            ("EngineManager", "wait_until_persisted"): dict(template="(if {1} <? v_next then Ok tt else Err RBlocked)", params=["ctx::Ctx", "validator::BlockNumber"],
                                                            ret="ctx::Result<()>", eff=False, why="Model/RunLoop.v: PWait while block n-1 is not stored"),
            ("EngineManager", "propose_payload"): dict(template="(Ok (proposed_payload {1}))", params=["ctx::Ctx", "validator::BlockNumber"],
                                                       ret="ctx::Result<Payload>", eff=False, why="Model/RunLoop.v proposed_payload (the harness engine)"),
        },
        "items": [
            {"kind": "fn", "src": CHONKY + "/proposer.rs", "type": "", "name": "create_proposal", "err": "rerr",
             "extra_params": [("next", "validator::BlockNumber")],
             "binds": [{"rust": "payload.0.len()", "coq": "(cpsize v_cfg v_payload)", "type": "usize"},
                       {"rust": 'anyhow::format_err!("proposed payload too large: got {}B, max {}B", payload.0.len(), cfg.max_payload_size).into()',
                        "coq": "RInternal", "type": "ctx::Error"}]},
        ],
    },
    "addr_book": {
        "out": "theories/Gen/AddrBook.v",
        "requires": "Lib.Outcome Lib.U64 Lib.RustSem Lib.Obs Model.AddrBook",
        "deps": [],
        "types": {
            # the book: im::HashMap<PublicKey, Arc<Signed<NetAddress>>> is the model's key-ordered list of entries
            "ValidatorAddrs": {"kind": "newtype", "inner": "AddrMap", "src": NETSRC + "/gossip/validator_addrs.rs",
                               "src_inner": "im::HashMap<validator::PublicKey, Arc<validator::Signed<validator::NetAddress>>>"},
            "AddrMap": {"kind": "opaque", "coq": "book",
                        "iter": ("map (fun e => (ekey e, e)) {0}", "Vec<(validator::PublicKey, validator::Signed<validator::NetAddress>)>")},
            "ValidatorAddrsWatch": {"kind": "newtype", "inner": "Watch", "src": NETSRC + "/gossip/validator_addrs.rs",
                                    "src_inner": "Watch<ValidatorAddrs>"},
            "Watch": {"kind": "opaque", "coq": "book"},
            "WatchGuard": {"kind": "opaque", "coq": "unit"},
            "NetAddress": {"kind": "record", "coq": "net_address", "src": MSG + "/discovery.rs",
                           "fields": {"addr": ("na_addr", "net::SocketAddr"), "version": ("na_version", "u64"), "timestamp": ("na_ts", "time::Utc")}},
            "SocketAddr": {"kind": "opaque", "coq": "Z", "eqb": "Z.eqb"},
            "Utc": {"kind": "opaque", "coq": "Z", "eqb": "Z.eqb"},
            "Signed_NetAddress": {"kind": "record", "coq": "entry",
                                  "fields": {"msg": ("emsg", "validator::NetAddress"), "key": ("ekey", "validator::PublicKey"),
                                             "sig": ("esig", "validator::Signature")}},
            "PublicKey": {"kind": "opaque", "coq": "Z", "eqb": "Z.eqb"},
            "SecretKey": {"kind": "opaque", "coq": "Z"},
            "Schedule": {"kind": "opaque", "coq": "(list Z)"},
        },
        "externs": {
            ("AddrMap", "get"): dict(template="(get {1} {0})", params=["validator::PublicKey"], ret="Option<validator::Signed<validator::NetAddress>>",
                                     eff=False, why="Model/AddrBook.v get"),
            ("AddrMap", "insert"): dict(update="put {2} {0}", params=["validator::PublicKey", "validator::Signed<validator::NetAddress>"], ret="()",
                                        eff=False, why="Model/AddrBook.v put (the map key of an entry is the entry's own key: insert(d.key.clone(), d))"),
            ("Schedule", "contains"): dict(template="(mem {1} {0})", params=["validator::PublicKey"], ret="bool", eff=False,
                                           why="Model/AddrBook.v: the schedule is the list of its keys"),
            ("Signed_NetAddress", "verify"): dict(template="(if verify {0} then Ok tt else Err EBadSig)", params=[], ret="anyhow::Result<()>", eff=False,
                                                  why="H-SIG: Model/AddrBook.v verify"),
            ("SecretKey", "public"): dict(template="{0}", params=[], ret="validator::PublicKey", eff=False, why="keys are ranks; a secret key is identified with its public key"),
            ("SecretKey", "sign_msg"): dict(template="(sign {0} {1})", params=["validator::NetAddress"], ret="validator::Signed<validator::NetAddress>", eff=False,
                                            why="H-SIG: Model/AddrBook.v sign"),
            # the watch: lock().await then borrow() reads the published value, send_replace publishes (H-ATOM: the lock is held
            # from the read to the publication)
            ("Watch", "lock"): dict(template="tt", params=[], ret="WatchGuard", eff=False, why="H-ATOM"),
            ("WatchGuard", "borrow"): dict(template="s", params=[], ret="ValidatorAddrs", eff=False, why="the published book"),
            ("WatchGuard", "send_replace"): dict(sets_state=True, params=["ValidatorAddrs"], ret="()", eff=False, why="publishes the new book"),
        },
        "items": [
            {"kind": "fn", "src": MSG + "/discovery.rs", "type": "NetAddress", "name": "is_newer"},
            {"kind": "fn", "src": NETSRC + "/gossip/validator_addrs.rs", "type": "ValidatorAddrs", "name": "get"},
            {"kind": "fn", "src": NETSRC + "/gossip/validator_addrs.rs", "type": "ValidatorAddrs", "name": "get_newer"},
            {"kind": "state_fn", "flavour": "s", "src": NETSRC + "/gossip/validator_addrs.rs", "type": "ValidatorAddrs", "name": "update",
             "err": "uerr", "anyhow": {"duplicate entry for {:?}": "EDuplicate"}},
            {"kind": "state_fn", "flavour": "s", "src": NETSRC + "/gossip/validator_addrs.rs", "type": "ValidatorAddrsWatch", "name": "update",
             "as": "watch_update", "err": "uerr", "state": "book"},
            {"kind": "state_fn", "flavour": "s", "src": NETSRC + "/gossip/validator_addrs.rs", "type": "ValidatorAddrsWatch", "name": "announce",
             "err": "uerr", "state": "book"},
        ],
    },
    "pool": {
        "out": "theories/Gen/Pool.v",
        "requires": "Lib.Outcome Lib.U64 Lib.RustSem Lib.Obs Model.Handshake Model.Pool",
        "deps": [],
        "types": {
            "K": {"kind": "opaque", "coq": "Z", "eqb": "Z.eqb"},      # keys are pool indices; values are not modelled
            "V": {"kind": "opaque", "coq": "unit"},
            "KeyMap": {"kind": "opaque", "coq": "(list Z)"},
            "Pool": {"kind": "record", "coq": "pool", "src": NETSRC + "/pool.rs",
                     "fields": {"extra_limit": ("p_limit", "usize"), "extra_count": ("p_extra", "usize"),
                                "allowed": ("p_allowed", "HashSet<K>"), "current": ("p_current", "im::HashMap<K, V>", "KeyMap")},
                     "setters": {"extra_count": "{{| p_allowed := p_allowed {s}; p_limit := p_limit {s}; p_extra := {v}; p_current := p_current {s} |}}",
                                 "current": "{{| p_allowed := p_allowed {s}; p_limit := p_limit {s}; p_extra := p_extra {s}; p_current := {v} |}}"}},
        },
        "externs": {
            ("KeyMap", "contains_key"): dict(template="(memz {1} {0})", params=["K"], ret="bool", eff=False, why="Model/Pool.v: `current` is the list of its keys"),
            ("KeyMap", "insert"): dict(update="{1} :: {0}", params=["K", "V"], ret="()", eff=False, why="insert of a key known to be absent"),
            ("KeyMap", "remove"): dict(template="(if memz {1} {0} then Some tt else None)", update="removez {1} {0}", params=["K"], ret="Option<V>",
                                       eff=False, why="Model/Pool.v removez"),
        },
        "items": [
            {"kind": "closure_body", "src": NETSRC + "/pool.rs", "type": "PoolWatch", "name": "insert", "as": "insert_step",
             "shape": "self.0.send_if_ok(CLOSURE).await", "state_type": "Pool", "state": "pool", "ret": "anyhow::Result<()>", "err": "perr",
             "anyhow": {"already exists": "EExists", "limit exceeded": "ELimit"}},
            {"kind": "closure_body", "src": NETSRC + "/pool.rs", "type": "PoolWatch", "name": "remove", "as": "remove_step",
             "shape": "self.0.lock().await.send_if_modified(CLOSURE);", "state_type": "Pool", "state": "pool", "ret": "bool", "err": "perr"},
        ],
    },
    "handshake_consensus": {
        "out": "theories/Gen/HandshakeConsensus.v",
        "requires": "Lib.Outcome Lib.U64 Lib.RustSem Lib.Obs Model.Handshake",
        "deps": [],
        "types": hs_types({"session_id": ("id", "validator::Signed<node::SessionId>"), "genesis": ("m_gen", "validator::GenesisHash")}, "anyhow::Error"),
        "externs": HS_EXTERNS,
        "items": [
            {"kind": "fn", "src": NETSRC + "/consensus/handshake/mod.rs", "type": "", "name": "outbound", "as": "validator_outbound", "extra_params": HS_EXTRA,
             "binds": HS_BINDS + [{"rust": "frame::send_proto(ctx, stream, &Handshake { session_id: me.sign_msg(session_id.clone()), genesis, })",
                                   "coq": "(Ok tt)", "type": "Result<(), Error>"}]},
            {"kind": "fn", "src": NETSRC + "/consensus/handshake/mod.rs", "type": "", "name": "inbound", "as": "validator_inbound", "extra_params": HS_EXTRA,
             "binds": HS_BINDS + [{"rust": "frame::send_proto(ctx, stream, &Handshake { session_id: me.sign_msg(session_id.clone()), genesis, })",
                                   "coq": "(Ok tt)", "type": "Result<(), Error>"}]},
        ],
    },
    "handshake_gossip": {
        "out": "theories/Gen/HandshakeGossip.v",
        "requires": "Lib.Outcome Lib.U64 Lib.RustSem Lib.Obs Model.Handshake",
        "deps": [],
        "types": hs_types({"session_id": ("id", "node::Signed<node::SessionId>"), "genesis": ("m_gen", "validator::GenesisHash"),
                           "is_static": ("m_static", "bool"), "build_version": (None, "Option<semver::Version>")}, "node::InvalidSignatureError"),
        "externs": HS_EXTERNS,
        "items": [
            {"kind": "fn", "src": NETSRC + "/gossip/handshake/mod.rs", "type": "", "name": "outbound", "as": "gossip_outbound", "extra_params": HS_EXTRA,
             "binds": HS_BINDS + [
                 {"rust": "frame::send_proto(ctx, stream, &Handshake { session_id: cfg.gossip.key.sign_msg(session_id.clone()), genesis, "
                          "is_static: cfg.gossip.static_outbound.contains_key(peer), build_version: cfg.build_version.clone(), })",
                  "coq": "(Ok tt)", "type": "Result<(), Error>"},
                 {"rust": "h.build_version", "coq": "tt", "type": "Claims"}, {"rust": "stream.stats()", "coq": "tt", "type": "Claims"}]},
            {"kind": "fn", "src": NETSRC + "/gossip/handshake/mod.rs", "type": "", "name": "inbound", "as": "gossip_inbound", "extra_params": HS_EXTRA,
             "binds": HS_BINDS + [
                 {"rust": "frame::send_proto(ctx, stream, &Handshake { build_version: cfg.build_version.clone(), "
                          "session_id: cfg.gossip.key.sign_msg(session_id.clone()), genesis, "
                          "is_static: cfg.gossip.static_inbound.contains(&h.session_id.key), })",
                  "coq": "(Ok tt)", "type": "Result<(), Error>"},
                 {"rust": "h.build_version", "coq": "tt", "type": "Claims"}, {"rust": "stream.stats()", "coq": "tt", "type": "Claims"}]},
        ],
    },
    # connection admission: handshake -> insert -> serve -> remove as a sequence of pool operations.  The result of the
    # handshake and of serving the stream are abstract inputs; the pool is the state.
    "admission": {
        "out": "theories/Gen/Admission.v",
        "requires": "Lib.Outcome Lib.U64 Lib.RustSem Lib.Obs Model.Handshake Model.Pool Model.PoolGlue",
        "deps": [],
        "types": {
            "Network": {"kind": "opaque", "coq": "unit"},
            "PoolHandle": {"kind": "opaque", "coq": "unit"},
            "HsResult": {"kind": "opaque", "coq": "(outcome herr Z)"},
            "ServeResult": {"kind": "opaque", "coq": "(outcome unit unit)"},
            "Connection": {"kind": "record", "coq": "Z", "mk": "{key}", "into": True,
                           "fields": {"key": ("id", "node::PublicKey"), "build_version": (None, "Claims"), "stats": (None, "Claims")}},
            "PublicKey": {"kind": "opaque", "coq": "Z", "eqb": "Z.eqb"},
            "V": {"kind": "opaque", "coq": "unit"},
            "Claims": {"kind": "opaque", "coq": "unit"},
            "Ctx": {"kind": "dropped", "coq": "unit"},
            "Stream": {"kind": "dropped", "coq": "unit"},
            "Host": {"kind": "dropped", "coq": "unit"},
            "SocketAddr": {"kind": "dropped", "coq": "unit"},
        },
        "externs": {
            ("PoolHandle", "insert"): dict(template="(pool_insert_s s {1})", params=["PublicKey", "V"], ret="anyhow::Result<()>", eff="s",
                                           why="Model/PoolGlue.v: Model.Pool.insert, published iff Ok (Watch::send_if_ok)"),
            ("PoolHandle", "remove"): dict(template="(pool_remove_s s {1})", params=["PublicKey"], ret="()", eff="s",
                                           why="Model/PoolGlue.v: Model.Pool.remove"),
        },
        "items": [
            {"kind": "state_fn", "flavour": "s", "src": NETSRC + "/gossip/runner.rs", "type": "Network", "name": "run_inbound_stream",
             "as": "gossip_run_inbound_stream", "err": "cerr", "state": "pool", "extra_params": [("hs", "HsResult"), ("served", "ServeResult")],
             "binds": [{"rust": "handshake::inbound(ctx, &self.cfg, self.genesis_hash(), &mut stream)", "coq": "(rmap_err CHandshake v_hs)", "type": "Result<Connection, Error>"},
                       {"rust": "self.inbound", "coq": "tt", "type": "PoolHandle"},
                       {"rust": "conn.clone()", "coq": "tt", "type": "V"},
                       {"rust": "self.run_stream(ctx, stream)", "coq": "(rmap_err (fun _ => CServe) v_served)", "type": "anyhow::Result<()>"}]},
            {"kind": "pin", "src": NETSRC + "/gossip/runner.rs", "type": "Network", "name": "run_outbound_stream",
             "what": "address resolution and TCP/noise connect", "to": {"let_mentions": "outbound"}, "sha": "5c184022f3437308"},
            {"kind": "state_fn", "flavour": "s", "src": NETSRC + "/gossip/runner.rs", "type": "Network", "name": "run_outbound_stream",
             "as": "gossip_run_outbound_stream", "err": "cerr", "state": "pool", "extra_params": [("hs", "HsResult"), ("served", "ServeResult")], "from": {"let_mentions": "outbound"},
             "binds": [{"rust": "handshake::outbound(ctx, &self.cfg, self.genesis_hash(), &mut stream, peer)", "coq": "(rmap_err CHandshake v_hs)", "type": "Result<Connection, Error>"},
                       {"rust": "self.outbound", "coq": "tt", "type": "PoolHandle"},
                       {"rust": "conn.into()", "coq": "tt", "type": "V"},
                       {"rust": "self.run_stream(ctx, stream)", "coq": "(rmap_err (fun _ => CServe) v_served)", "type": "anyhow::Result<()>"}]},
            {"kind": "state_fn", "flavour": "s", "src": NETSRC + "/consensus/mod.rs", "type": "Network", "name": "run_inbound_stream",
             "as": "consensus_run_inbound_stream", "err": "cerr", "state": "pool", "extra_params": [("hs", "HsResult"), ("served", "ServeResult")],
             "binds": [{"rust": "handshake::inbound(ctx, &self.key, self.gossip.genesis_hash(), &mut stream)", "coq": "(rmap_err CHandshake v_hs)", "type": "Result<PublicKey, Error>"},
                       {"rust": "self.inbound", "coq": "tt", "type": "PoolHandle"},
                       {"rust": "stream.stats()", "coq": "tt", "type": "V"},
                       {"macro": "scope::run", "sha": "fa0b006461a08f98", "coq": "(rmap_err (fun _ => CServe) v_served)", "type": "anyhow::Result<()>"}]},
            {"kind": "pin", "src": NETSRC + "/consensus/mod.rs", "type": "Network", "name": "run_outbound_stream",
             "what": "TCP/noise connect", "to": {"kind": "try"}, "sha": "0b0c01b082d0deaa"},
            {"kind": "state_fn", "flavour": "s", "src": NETSRC + "/consensus/mod.rs", "type": "Network", "name": "run_outbound_stream",
             "as": "consensus_run_outbound_stream", "err": "cerr", "state": "pool", "extra_params": [("hs", "HsResult"), ("served", "ServeResult")], "from": {"kind": "try"},
             "binds": [{"rust": "handshake::outbound(ctx, &self.key, self.gossip.genesis_hash(), &mut stream, peer)", "coq": "(rmap_err (fun e => CHandshake e) (rmap_err (fun e => e) (match v_hs with Ok _ => Ok tt | Err e => Err e | Panic p => Panic p end)))", "type": "Result<(), Error>"},
                       {"rust": "self.outbound", "coq": "tt", "type": "PoolHandle"},
                       {"rust": "stream.stats()", "coq": "tt", "type": "V"},
                       {"rust": "rpc::Client::<rpc::consensus::Rpc>::new(ctx, self.gossip.cfg.rpc.consensus_rate)", "coq": "tt", "type": "Claims"},
                       {"macro": "scope::run", "sha": "f4d06ff22df3294b", "coq": "(rmap_err (fun _ => CServe) v_served)", "type": "anyhow::Result<()>"}]},
        ],
    },
    "fetch": {
        "out": "theories/Gen/Fetch.v",
        "requires": "Lib.Outcome Lib.U64 Lib.RustSem Lib.Obs Model.Fetch",
        "deps": [],
        "types": {
            "BlockInner": {"kind": "opaque", "coq": "queue"},          # BTreeMap<BlockNumber, oneshot::Sender<()>>
            "BlockNumber": {"kind": "opaque", "coq": "Z", "eqb": "Z.eqb"},
            "Sender": {"kind": "opaque", "coq": "chan"},               # a oneshot sender is named by its channel
            "Claims": {"kind": "opaque", "coq": "unit"},
        },
        "externs": {
            ("BlockInner", "insert"): dict(update="qinsert {1} {2} {0}", params=["BlockNumber", "Sender"], ret="()", eff=False,
                                           why="Model/Fetch.v qinsert (an overridden sender is dropped)"),
            ("BlockInner", "first_key_value"): dict(template="(option_map (fun k => (k, tt)) (qmin {0}))", params=[], ret="Option<(BlockNumber, Claims)>",
                                                    eff=False, why="Model/Fetch.v qmin: the lowest requested number"),
            ("BlockInner", "remove"): dict(template="(qlookup {1} {0})", update="qremove {1} {0}", params=["BlockNumber"], ret="Option<Sender>",
                                           eff=False, why="Model/Fetch.v qlookup / qremove"),
            ("BlockInner", "remove_entry"): dict(template="(option_map (fun c => ({1}, c)) (qlookup {1} {0}))", update="qremove {1} {0}",
                                                 params=["BlockNumber"], ret="Option<(BlockNumber, Sender)>", eff=False, why="Model/Fetch.v qlookup / qremove"),
            ("BlockInner", "is_empty"): dict(template="(qempty {0})", params=[], ret="bool", eff=False, why="Model/Fetch.v qempty"),
        },
        "items": [
            {"kind": "closure_in", "src": NETSRC + "/gossip/fetch.rs", "type": "Queue", "name": "request", "as": "request_insert",
             "method": "send_if_modified", "index": 0, "fn_sha": "0b7087f2764f5ab0", "state_type": "BlockInner", "state": "queue", "ret": "bool",
             "locals": [("n", "BlockNumber"), ("send", "Sender")]},
            {"kind": "closure_in", "src": NETSRC + "/gossip/fetch.rs", "type": "Queue", "name": "request", "as": "request_cancel",
             "method": "send_if_modified", "index": 1, "fn_sha": "0b7087f2764f5ab0", "state_type": "BlockInner", "state": "queue", "ret": "bool",
             "locals": [("n", "BlockNumber")]},
            {"kind": "closure_in", "src": NETSRC + "/gossip/fetch.rs", "type": "Queue", "name": "accept_block", "as": "accept_take",
             "method": "send_if_modified", "index": 0, "fn_sha": "a52991cc183cf993", "state_type": "BlockInner", "state": "queue", "ret": "bool",
             "locals": [("block_number", "BlockNumber")], "captures": [("res", "Option<(BlockNumber, Sender)>")]},
        ],
    },
    # code that is too effectful for the subset (poll-based I/O, semaphores): NOT translated, only pinned by the hash of
    # its syntax tree, so that any change raises an alarm and sends a human back to the hand model
    "pins_noise": {
        "out": "theories/Gen/PinsNoise.v", "requires": "Lib.Outcome", "deps": [],
        "items": [
            {"kind": "pin", "src": NETSRC + "/noise/stream.rs", "type": "Stream", "name": "poll_flush_frame", "what": "whole body (Model/Noise.v flush of the frame buffer)", "sha": "62b07ccefdb1da67"},
            {"kind": "pin", "src": NETSRC + "/noise/stream.rs", "type": "Stream", "name": "poll_flush_payload", "what": "whole body (Model/Noise.v: encrypt the payload buffer into one frame)", "sha": "f0f481d5112461d1"},
            {"kind": "pin", "src": NETSRC + "/noise/stream.rs", "type": "Stream", "name": "io::AsyncWrite::poll_write", "what": "whole body (Model/Noise.v write)", "sha": "c4494bb4e08dcb40"},
            {"kind": "pin", "src": NETSRC + "/noise/stream.rs", "type": "Stream", "name": "io::AsyncWrite::poll_flush", "what": "whole body (Model/Noise.v flush)", "sha": "59e04b4dee39be34"},
            {"kind": "pin", "src": NETSRC + "/noise/stream.rs", "type": "Stream", "name": "poll_read_frame", "what": "whole body (Model/Noise.v read of one frame)", "sha": "dca6ba9b8ab04817"},
            {"kind": "pin", "src": NETSRC + "/noise/stream.rs", "type": "Stream", "name": "poll_read_payload", "what": "whole body (Model/Noise.v decrypt)", "sha": "170cd0df6df7b5d7"},
            {"kind": "pin", "src": NETSRC + "/noise/stream.rs", "type": "Stream", "name": "io::AsyncRead::poll_read", "what": "whole body (Model/Noise.v read)", "sha": "a573ed7b17c82078"},
        ],
    },
    "pins_mux": {
        "out": "theories/Gen/PinsMux.v", "requires": "Lib.Outcome", "deps": [],
        "items": [
            {"kind": "pin", "src": NETSRC + "/mux/mod.rs", "type": "Mux", "name": "process_inbound_frames",
             "what": "whole body (Model/Mux.v dispatcher: permit acquisition before reading / forwarding a frame)", "sha": "f2c4067dedc4d1fe"},
        ],
    },
    "limiter": {
        "out": "theories/Gen/Limiter.v",
        "requires": "Lib.Outcome Lib.U64 Lib.RustSem",
        "deps": [],
        "items": [
            {"kind": "fn", "src": LIM, "type": "", "name": "usize_or_max"},
            # State::advance(&mut self, refresh_ticks, l): the fields it updates are read as locals and returned
            {"kind": "state_update", "src": LIM, "type": "State", "name": "advance",
             "state": [("refresh_ticks", "i128"), ("permits", "usize")],
             "params": [("refresh_ticks", "i128"), ("burst", "usize")],
             "binds": [{"rust": "l.burst", "coq": "v_burst", "type": "usize"}]},
        ],
    },
    "justification": {
        "out": "theories/Gen/Justification.v",
        "requires": "Lib.Outcome Lib.U64 Lib.RustSem Lib.ListW Model.Msgs Gen.Numbers",
        "deps": ["numbers"],
        "items": [
            {"kind": "fn", "src": MSG + "/v2/replica_commit.rs", "type": "CommitQC", "name": "header"},
            {"kind": "fn", "src": MSG + "/v2/replica_commit.rs", "type": "CommitQC", "name": "view"},
            {"kind": "fn", "src": MSG + "/v2/consensus.rs", "type": "View", "name": "next_view"},
            {"kind": "fn", "src": MSG + "/v2/replica_timeout.rs", "type": "TimeoutQC", "name": "high_vote"},
            {"kind": "fn", "src": MSG + "/v2/replica_timeout.rs", "type": "TimeoutQC", "name": "high_qc"},
            {"kind": "fn", "src": MSG + "/v2/leader_proposal.rs", "type": "ProposalJustification", "name": "view"},
            {"kind": "fn", "src": MSG + "/v2/leader_proposal.rs", "type": "ProposalJustification", "name": "get_implied_block"},
        ],
    },
}


def subst_self(t, self_type):
    if isinstance(t, tuple):
        if t == ("named", "Self"):
            return ("named", self_type)
        return tuple(subst_self(x, self_type) for x in t)
    if isinstance(t, list) and not (len(t) == 1 and t[0] is None):
        return [subst_self(x, self_type) for x in t]
    return t


def find_marker(stmts, m, what):
    """index of a top-level statement: {"let": name[, "nth": k]} | {"kind": expr kind[, "nth": k]} | {"end": True} | None (= 0)"""
    if m is None:
        return 0
    if m.get("end"):
        return len(stmts)
    hits = []
    for i, st in enumerate(stmts):
        if "let" in m and st[0] == "let" and st[1] == ("pbind", m["let"]):
            hits.append(i)
        if "kind" in m and st[0] == "expr" and st[1][0] == m["kind"]:
            hits.append(i)
        if "let_mentions" in m and st[0] == "let" and _mentions(st[3], m["let_mentions"]):
            hits.append(i)
        if "let_struct" in m and st[0] == "let" and st[3][0] == "struct" and st[3][1][-1] == m["let_struct"]:
            hits.append(i)
        if "let_kind" in m and st[0] == "let" and st[3][0] == m["let_kind"]:
            hits.append(i)
        if "assign" in m and st[0] == "expr" and st[1][0] == "assign" and st[1][2] == parse_expr_src(m["assign"], what):
            hits.append(i)
        if "call" in m and st[0] == "expr" and _mentions(st[1], m["call"]):
            hits.append(i)
    k = m.get("nth", 0)
    if len(hits) <= k:
        raise ParseError(f"{what}: statement marker {m} not found: the shape of the body changed")
    return hits[k]


def _mentions(e, name):
    if isinstance(e, tuple) and len(e) >= 3 and e[0] == "mcall" and e[2] == name:
        return True
    if isinstance(e, tuple) and len(e) >= 3 and e[0] == "call" and e[1][-1] == name:
        return True
    if isinstance(e, (tuple, list)):
        return any(_mentions(x, name) for x in e)
    return False


def ast_sha(x):
    import hashlib
    return hashlib.sha256(repr(x).encode()).hexdigest()[:16]


def coq_name(item):
    n = item.get("as") or item["name"]
    if item["kind"] == "pin":
        return f"pin_{item['type']}_{item['name']}_{item['sha']}"
    return f"gen_{item['type']}_{n}" if item["type"] else f"gen_{n}"


def rewrite_self_fields(e, fields):
    """`self.f` -> local `self_f` for the listed fields (state_update targets)."""
    if isinstance(e, tuple):
        if len(e) == 3 and e[0] == "field" and e[1] == ("path", ["self"]) and e[2] in fields:
            return ("path", ["self_" + e[2]])
        return tuple(rewrite_self_fields(x, fields) for x in e)
    if isinstance(e, list):
        return [rewrite_self_fields(x, fields) for x in e]
    return e


def _sanitize(s):
    """source text quoted inside a Gallina comment: no comment brackets, no string quotes, and none of the words the
    development's hygiene scan rejects (it scans comments too)"""
    import re
    s = s.replace("(*", "( *").replace("*)", "* )").replace('"', "'")
    return re.sub(r"(?i)(adm)(it)|(axi)(om)|(param)(eter)|(conj)(ecture)", lambda m: "_".join(g for g in m.groups() if g), s)


def order_of(target):
    order = []

    def collect(t):
        for d in TARGETS[t]["deps"]:
            collect(d)
        if t not in order:
            order.append(t)
    collect(target)
    return order


def translate(target, _done=None):
    """-> (Gallina text, summary, translator state). Raises ParseError when the source left the subset."""
    spec = TARGETS[target]
    types = _types(target)
    externs = {}
    for key, x in list(EXTERNS.items()) + [(k2, x2) for t2 in order_of(target) for k2, x2 in TARGETS[t2].get("externs", {}).items()]:
        x = dict(x)
        x.setdefault("targets", [target])
        if not any(d in x["targets"] for d in order_of(target)):
            continue
        externs[key] = Sig(None, [parse_type_src(p) for p in x["params"]], x.get("self", True), parse_type_src(x["ret"]), x["eff"], x.get("template"))
        externs[key].flags = {f: x[f] for f in ("update", "sets_state") if f in x}
    tr = Translator(types, externs)
    tr.verify = verify_type
    for (ty, op), x in OPS.items():
        if any(d in x["targets"] for d in order_of(target)):
            tr.ops[(ty, op)] = (x["template"], x["eff"], parse_type_src(x["ret"]) if x.get("ret") else None)
    for (ty, name), x in CONSTS.items():
        if target in x["targets"]:
            tr.consts[(ty, name)] = (x["coq"], parse_type_src(x["type"]))
    srcs = set()
    all_items = []
    order = []

    def collect(tname):
        for d in TARGETS[tname]["deps"]:
            collect(d)
        if tname not in order:
            order.append(tname)
    collect(target)
    for tname in order:
        for item in TARGETS[tname]["items"]:
            srcs.add(item["src"])
            all_items.append((tname, item))
    summary = []

    def make_thunk(tname, item):
        def run():
            it = items_of(item["src"])
            cn = coq_name(item)
            what = f"{os.path.relpath(item['src'], R)}: {item['type']}::{item['name']}"
            key = (item["type"], item["name"])
            if item["kind"] == "const":
                c = it.consts.get(key)
                if c is None:
                    raise ParseError(f"{what}: constant not found")
                ty = parse_type_tokens(c["type"], what)
                if ty == ("named", "Self"):
                    ty = ("named", item["type"])
                ast = parse_expr_src(_tok_text(c["expr"]), what)
                tr.define_const(what, item["type"], cn, ty, ast)
                tr.consts[key] = (cn, ty)
                summary.append({"item": f"{item['type']}::{item['name']}", "coq": cn, "target": tname, "kind": "const",
                                "source": _tok_text(c["expr"])})
                return
            f = it.fns.get(key)
            if f is None:
                raise ParseError(f"{what}: function not found")
            if item["kind"] == "pin":
                f = dict(f, params=[], ret=None)      # a pinned body is not translated: its signature need not be in the subset
            self_mode, params = parse_params(f["params"], what)
            ret = subst_self(parse_type_tokens(f["ret"], what) if f["ret"] else ("unit",), item["type"])
            params = [(n, subst_self(t, item["type"])) for n, t in params]
            body = parse_body_tokens(f["body"], what)
            binds = [({"ast": parse_expr_src(b["rust"], what), "coq": b["coq"], "type": parse_type_src(b["type"]), "eff": b.get("eff", False)}
                      if "rust" in b else
                      {"ast": None, "macro": b["macro"], "sha": b["sha"], "coq": b["coq"], "type": parse_type_src(b["type"])})
                     for b in item.get("binds", [])]
            extra = [(n, parse_type_src(t)) for n, t in item.get("extra_params", [])]
            if item["kind"] == "fn":
                if self_mode == "refmut":
                    raise ParseError(f"{what}: `&mut self` method is outside the subset")
                ps = ([("self", ("named", item["type"]))] if self_mode else []) + params
                eff = tr.define_fn(what, item["type"], cn, ps, ret, body, binds=binds, anyhow=item.get("anyhow"),
                                   err_coq=item.get("err"), extra=extra)
                if item.get("register", True):
                    tr.fns[key] = Sig(cn, [t for _, t in params], bool(self_mode), ret, eff, extra=[n for n, _ in extra])
                if "::" in item["name"]:
                    tr.fns[(item["type"], item["name"].split("::")[-1])] = tr.fns[key]     # trait method, callable by its short name
            elif item["kind"] in ("guard", "state_part", "pin"):
                a = find_marker(body[1], item.get("from"), what)
                b = find_marker(body[1], item["to"], what) if item.get("to") else len(body[1])
                part = body[1][a:b]
                at_end = b == len(body[1])
                if item["kind"] == "pin":
                    # statements that are NOT translated: pinned by the hash of their syntax tree (comments / layout free)
                    h = ast_sha(part + ([body[2]] if at_end else []))
                    if h != item["sha"]:
                        raise ParseError(f"{what}: the untranslated part `{item['what']}` of the body changed (syntax hash {h}, pinned {item['sha']})")
                    summary.append({"item": f"{item['type']}::{item['name']} [{item['what']}]", "coq": cn, "target": tname, "kind": "pin",
                                    "source": "pinned by syntax hash " + item["sha"]})
                    return
                ok_unit = ("call", ["Ok"], [("tuple", [])])
                if item.get("returns"):
                    ok_unit = ("call", ["Ok"], [parse_expr_src(item["returns"]["expr"], what)])
                    ret = ("result", parse_type_src(item["returns"]["type"]), ret[2])
                pbody = ("block", part, body[2] if at_end else ok_unit)
                locs = [(n, parse_type_src(t)) for n, t in item.get("locals", [])]
                ex2 = [("cfg", parse_type_src("Config"))] + extra
                if item["kind"] == "guard":
                    ps = [("self", ("named", item["type"]))] + params + locs
                    tr.define_fn(what, item["type"], cn, ps, ret, pbody, binds=binds, err_coq="rerr", extra=ex2)
                else:
                    ps = [("self", ("named", item["type"]))] + locs
                    tr.define_fn(what, item["type"], cn, ps, ret, pbody, binds=binds, err_coq="rerr", extra=ex2, state_fn=True)
            elif item["kind"] == "closure_in":
                # the k-th closure handed to `method` somewhere in the body (e.g. watch::Sender::send_if_modified): its body is a
                # state function over the closure's parameter; everything around the closures is pinned by syntax hash
                found = []

                def strip_closures(e):
                    if isinstance(e, tuple):
                        if len(e) >= 4 and e[0] == "mcall" and e[2] == item["method"] and len(e[3]) == 1 and e[3][0][0] == "closure":
                            found.append(e[3][0])
                            return ("mcall", strip_closures(e[1]), e[2], [("path", ["CLOSURE"])])
                        return tuple(strip_closures(x) for x in e)
                    if isinstance(e, list):
                        return [strip_closures(x) for x in e]
                    return e
                skel = strip_closures(body)
                h = ast_sha(skel)
                if h != item["fn_sha"]:
                    raise ParseError(f"{what}: the code around the {item['method']} closures changed (syntax hash {h}, pinned {item['fn_sha']})")
                if item["index"] >= len(found):
                    raise ParseError(f"{what}: closure #{item['index']} of {item['method']} not found")
                cl = found[item["index"]]
                if len(cl[1]) != 1 or cl[1][0][0] != "pbind":
                    raise ParseError(f"{what}: closure parameter changed")
                sv = cl[1][0][1]
                cbody = cl[2] if cl[2][0] == "block" else ("block", [], cl[2])
                caps = [(n, parse_type_src(t)) for n, t in item.get("captures", [])]
                cret = parse_type_src(item["ret"])
                if caps:
                    cbody = ("block", cbody[1], ("tuple", [cbody[2]] + [("path", [n]) for n, _ in caps]))
                    cret = ("tuple", [cret] + [t for _, t in caps])
                ps = [(sv, parse_type_src(item["state_type"]))] + [(n, parse_type_src(t)) for n, t in item.get("locals", [])] + caps
                tr.define_fn(what, item["type"], cn, ps, cret, cbody, binds=binds, err_coq=item.get("err"), extra=extra, state_fn="s",
                             state_coq=item.get("state"), anyhow=item.get("anyhow"), state_var=sv, mutable=[n for n, _ in caps])
            elif item["kind"] == "closure_body":
                # the closure handed to a watch primitive (send_if_ok / send_if_modified): its body is a state function over
                # the closure's parameter; the call around it is pinned by shape
                found = []

                def strip_closure(e):
                    if isinstance(e, tuple):
                        if e and e[0] == "closure":
                            found.append(e)
                            return ("path", ["CLOSURE"])
                        return tuple(strip_closure(x) for x in e)
                    if isinstance(e, list):
                        return [strip_closure(x) for x in e]
                    return e
                skel = strip_closure(body)
                want = parse_body_tokens(lex(item["shape"]), what)
                if skel != want or len(found) != 1:
                    raise ParseError(f"{what}: the body is no longer `{item['shape']}` around one closure")
                cl = found[0]
                if len(cl[1]) != 1 or cl[1][0][0] != "pbind":
                    raise ParseError(f"{what}: closure parameter changed")
                sv = cl[1][0][1]
                cbody = cl[2] if cl[2][0] == "block" else ("block", [], cl[2])
                ps = [(sv, parse_type_src(item["state_type"]))] + params
                cret = parse_type_src(item["ret"])
                tr.define_fn(what, item["type"], cn, ps, cret, cbody, binds=binds, err_coq=item.get("err"), extra=extra, state_fn="s",
                             state_coq=item.get("state"), anyhow=item.get("anyhow"), state_var=sv)
            elif item["kind"] == "state_fn" and item.get("flavour") == "s":
                # a method whose state is a plain value (no effect list): Lib/RustSem.v sres
                if item.get("from"):
                    a0 = find_marker(body[1], item["from"], what)
                    body = ("block", body[1][a0:], body[2])
                ps = [("self", ("named", item["type"]))] + params
                tr.define_fn(what, item["type"], cn, ps, ret, body, binds=binds, err_coq=item.get("err"), extra=extra, state_fn="s",
                             state_coq=item.get("state"), anyhow=item.get("anyhow"))
                tr.fns[key] = Sig(cn, [t for _, t in params], True, ret, "s", extra=[n for n, _ in extra])
            elif item["kind"] == "state_fn":
                if self_mode != "refmut":
                    raise ParseError(f"{what}: expected a `&mut self` method")
                ps = [("self", ("named", item["type"]))] + params
                ex2 = [("cfg", parse_type_src("Config"))] + extra
                tr.define_fn(what, item["type"], cn, ps, ret, body, binds=binds, err_coq="rerr", extra=ex2, state_fn=True)
                tr.fns[key] = Sig(cn, [t for _, t in params], True, ret, "h", extra=[n for n, _ in ex2])
            elif item["kind"] == "state_update":
                if self_mode != "refmut" or f["ret"]:
                    raise ParseError(f"{what}: expected `&mut self` and no return value")
                st = [("self_" + n, parse_type_src(t)) for n, t in item["state"]]
                ps = st + [(n, parse_type_src(t)) for n, t in item["params"]]
                body2 = rewrite_self_fields(body, {n for n, _ in item["state"]})
                tr.define_fn(what, item["type"], cn, ps, ("unit",), body2, binds=binds, state=[n for n, _ in st])
            elif item["kind"] == "while_cond":
                if len(body[1]) != 1 or body[2] is not None or body[1][0][0] != "expr" or body[1][0][1][0] != "while":
                    raise ParseError(f"{what}: body is no longer a single `while` loop")
                w = body[1][0][1]
                pin = parse_expr_src(item["pin_body"], what)
                if w[2] != pin:
                    raise ParseError(f"{what}: loop body changed (pinned: {item['pin_body']})")
                ps = [(n, parse_type_src(t)) for n, t in item["params"]]
                tr.define_fn(what, item["type"], cn, ps, ("bool",), w[1], binds=binds, as_expr=True)
            elif item["kind"] == "decision":
                if "params" in item:
                    ps = [(n, parse_type_src(t)) for n, t in item["params"]]
                else:
                    ps = ([("self", ("named", item["type"]))] if self_mode else []) + params
                allowed = [parse_expr_src(a, what) for a in item.get("allowed", [])]
                if "ret" in item and parse_type_src(item["ret"]) != ret:
                    raise ParseError(f"{what}: return type changed")
                pinned = []
                if item.get("pinned_tail"):
                    pinned = parse_body_tokens(lex(item["pinned_tail"]), what)[1]
                    if body[1][len(body[1]) - len(pinned):] != pinned:
                        raise ParseError(f"{what}: the state updates are no longer exactly the last statements of the body, in the "
                                         f"pinned order ({item['pinned_tail']})")
                    body = ("block", body[1][:len(body[1]) - len(pinned)], body[2])     # translated without them
                tr.define_fn(what, item["type"], cn, ps, ret, body, binds=binds, allowed=allowed,
                             anyhow=item.get("anyhow"), err_coq=item.get("err"))
                seen = [s[1] for s in body[1] if s[0] == "expr"]
                for a in allowed:
                    if a not in seen:
                        raise ParseError(f"{what}: pinned statement disappeared from the body")
            else:
                raise ParseError(f"unknown item kind {item['kind']}")
            src_text = _tok_text(f["body"])
            if item["kind"] in ("guard", "state_part"):
                src_text = f"statements {item.get('from') or 'top'} .. {item.get('to')} of the body"
            summary.append({"item": (item['type'] + "::" if item['type'] else "") + item['name'], "coq": cn, "target": tname,
                            "kind": item["kind"], "source": src_text})
        return run

    for tname, item in all_items:
        kind = "const" if item["kind"] == "const" else "fn"
        if item["kind"] in ("fn", "const", "state_fn"):
            tr.pending[(kind, item["type"], item["name"] if item["name"] != item.get("as", item["name"]) and False else item["name"]) if not item.get("as") else (kind, item["type"], "@" + item["as"])] = make_thunk(tname, item)
    mine = []
    for tname, item in all_items:
        before = len(tr.out)
        kind = "const" if item["kind"] == "const" else "fn"
        key = (kind, item["type"], item["name"]) if not item.get("as") else (kind, item["type"], "@" + item["as"])
        if item["kind"] in ("fn", "const", "state_fn"):
            if key in tr.pending:
                tr.run_pending(key)
        else:
            saved, tr.n = tr.n, 0
            make_thunk(tname, item)()
            tr.n = saved
    own = {coq_name(i) for t, i in all_items if t == target}
    srcmap = {s["coq"]: s for s in summary}
    lines = [f"(* GENERATED by gen/rust2coq.py (target {target}) on every run of the owning check; do not edit.",
             "   Sources: " + ", ".join(sorted({"repo/" + os.path.relpath(i["src"], R) for t, i in all_items if t == target})) + " *)",
             "From Coq Require Import ZArith List Bool.",
             "From EC Require Import " + spec["requires"] + ".",
             "Import ListNotations.",
             "Open Scope Z_scope.", ""]
    for s0 in summary:
        if s0["kind"] == "pin" and s0["coq"] in own:
            lines.append(f"(* {s0['item']}: NOT translated, {s0['source']} *)")
            lines.append("")
    for cn, text in tr.out:
        if cn not in own:
            continue
        s = srcmap[cn]
        lines.append(f"(* {s['item']} ({s['kind']}): {_sanitize(s['source'])} *)")
        lines.append(text)
        lines.append("")
    return "\n".join(lines), [s for s in summary if s["coq"] in own], tr


# the replica state machine (stages A and B): targets in dependency order and their theorem files
REPLICA_STEP = ["numbers", "justification", "qc_verify"] + REPLICA + ["proposer"]
REPLICA_PROPS = ["theories/Properties/C02Gen.v", "theories/Properties/C04Gen.v", "theories/Properties/C05Gen.v",
                 "theories/Properties/C05Gen2.v", "theories/Properties/C05Gen3.v", "theories/Properties/C05Gen4.v"]


def regenerate(target):
    """Re-translates the target from the Rust source and rewrites coq/theories/Gen/<File>.v when it differs.
    -> {"status": "ok"|"parse_error", "changed": bool, "file": .., "functions": [..], ...}"""
    t0 = time.time()
    _items_cache.clear()
    path = os.path.join(common.COQ, TARGETS[target]["out"])
    try:
        text, summary, _ = translate(target)
    except ParseError as e:
        return {"status": "parse_error", "target": target, "reason": str(e), "changed": False, "file": TARGETS[target]["out"],
                "wall_s": round(time.time() - t0, 3)}
    except (IndexError, KeyError, TypeError, AttributeError, OSError) as e:
        return {"status": "parse_error", "target": target, "reason": f"translator could not read the source: {type(e).__name__}: {e}",
                "changed": False, "file": TARGETS[target]["out"], "wall_s": round(time.time() - t0, 3)}
    old = open(path).read() if os.path.exists(path) else None
    changed = old != text
    if changed:
        with open(path, "w") as f:
            f.write(text)
    return {"status": "ok", "target": target, "changed": changed, "file": TARGETS[target]["out"],
            "functions": [s["item"] for s in summary], "definitions": [s["coq"] for s in summary],
            "wall_s": round(time.time() - t0, 3)}


def step(targets, gen_prop_files, broken):
    """The `translator` step of a check module (modelled on gen/c07.py).  Regenerates the targets; a source that
    left the subset degrades the tie to correspondence only (see below); a regenerated definition that no longer
    satisfies the generated = model theorems is a broken obligation (the module then searches for a failing input
    with its own generators).  Returns (evidence dict, the Properties/*Gen*.v files to add to the proof obligations)."""
    info = {"status": "ok", "targets": []}
    for t in targets:
        r = regenerate(t)
        info["targets"].append(r)
        if r["status"] != "ok":
            # The source can no longer be translated (it left the subset, or an untranslated pinned part changed
            # shape).  That is not evidence of a semantic change - most behaviour-preserving refactorings do it too -
            # so it is NOT reported as a broken obligation: the tie of this run falls back to the differential
            # correspondence + predicates alone, the evidence says so, and the driver (`check`) compensates by
            # running the thorough-size generators.  A source that still translates but no longer equals the
            # model (below) IS a broken obligation.
            info["status"] = "degraded to correspondence only"
            info.setdefault("degraded", []).append(f"{t}: {r['reason']}")
    info["theorem_files"] = list(gen_prop_files)
    info["trusted"] = trusted_base(targets)
    if info["status"] == "ok" and gen_prop_files:
        # build the generated = model theorems once here so that a failure is reported with Coq's own error
        # (the caller's proof_obligations then recompiles them for Print Assumptions when they do compile)
        t0 = time.time()
        ok, out = common.coq_build([f[:-2] + ".vo" for f in gen_prop_files])
        info["theorems_build_s"] = round(time.time() - t0, 1)
        if not ok:
            errs = coq_errors(out)
            info["status"] = "generated definitions no longer equal the hand model"
            info["coq_error"] = errs
            broken.append("translator gen/rust2coq.py: the definitions regenerated from the Rust source no longer satisfy the "
                          "generated = model theorems of " + ", ".join(gen_prop_files) + ": " + errs)
            return info, []
    return info, (list(gen_prop_files) if info["status"] == "ok" else [])


def coq_errors(out):
    ls = out.splitlines()
    res = []
    for i, l in enumerate(ls):
        if l.startswith("File \"") and i + 1 < len(ls) and ls[i + 1].startswith("Error"):
            res.append(" ".join(x.strip() for x in ls[i:i + 4] if not x.startswith("make")))
    return (" | ".join(res) or out[-400:])[:700]


def trusted_base(targets):
    ts = []
    for t in targets:
        for d in order_of(t):
            if d not in ts:
                ts.append(d)
    out = ["translator gen/rust2coq.py + gen/r2c_{parse,trans,ir}.py (pure Rust subset -> Gallina; fails on anything else) and "
           "the primitives it emits, coq/theories/Lib/RustSem.v; targets: " + ", ".join(ts)]
    used = set()
    for t in ts:
        for i in TARGETS[t]["items"]:
            used.add(i["src"])
            for b in i.get("binds", []):
                what_b = b["rust"] if "rust" in b else f"{b['macro']}!(..) block (token hash {b['sha']})"
                out.append(f"{i['type']}::{i['name']}: `{what_b}` is read as `{b['coq']}`")
            for a in i.get("allowed", []):
                out.append(f"{i['type']}::{i['name']}: state update `{a}` is pinned textually, not translated")
            if i["kind"] == "pin":
                out.append(f"{i['type']}::{i['name']}: the part `{i['what']}` is NOT translated; it is pinned by the hash of its syntax tree "
                           f"({i['sha']}) and tied to the model by the correspondence check only")
            if i["kind"] in ("guard", "state_part"):
                out.append(f"{i['type']}::{i['name']}: statements from {i.get('from') or 'the top'} to {i.get('to')} are translated as "
                           f"`{coq_name(i)}`" + (f" over the locals {[n for n, _ in i.get('locals', [])]}" if i.get("locals") else ""))
            if i.get("pinned_tail"):
                out.append(f"{i['type']}::{i['name']}: only the accept/reject decision is translated; the state updates "
                           f"`{i['pinned_tail']}` are pinned textually as the last statements of the body")
            if i.get("pin_body"):
                out.append(f"{i['type']}::{i['name']}: loop body `{i['pin_body']}` is pinned textually, not translated")
    if any(t in REPLICA for t in ts):
        out.append("replica state machine: tracing / metrics statements and assignments to the timer fields view_timeout, view_start are not "
                   "translated (the model has no time); `.await` is transparent; the engine, the outbound channel and the proposer watch "
                   "channel are the effect constructors of coq/theories/Model/ReplicaGlue.v; an incoming Signed<M> is (key, signature verdict, M)")
    allx = list(EXTERNS.items()) + [(k2, dict(x2, targets=[t2])) for t2 in ts for k2, x2 in TARGETS[t2].get("externs", {}).items()]
    for (ty, m), x in allx:
        if any(t in ts for t in x["targets"]):
            shown = x.get("template") or ""
            if x.get("update"):
                shown += (" ; " if shown else "") + "receiver := " + x["update"]
            if x.get("sets_state"):
                shown += (" ; " if shown else "") + "state := {1}"
            out.append(f"callee table: {ty}::{m} -> `{shown}` ({x['why']})")
    touched = set()
    for t in ts:
        try:
            touched |= translate(t)[2].verified
        except ParseError:
            pass
    for (ty, name), x in CONSTS.items():
        if any(t in ts for t in x["targets"]):
            out.append(f"constant table: {ty}::{name} -> `{x['coq']}` ({x['why']})")
    for (ty, op), x in OPS.items():
        if any(t in ts for t in x["targets"]):
            out.append(f"operator table: {ty} {op} -> `{x['template']}` ({x['why']})")
    tys = []
    merged = {}
    for t in ts:
        merged.update(_types(t))
    for n, sp in merged.items():
        if n not in touched:
            continue
        if sp["kind"] == "record":
            tys.append(f"{n} -> {sp['coq']} (" + ", ".join(f"{f}->{ft[0]}" for f, ft in sp["fields"].items()) + ")")
        elif sp["kind"] == "enum":
            tys.append(f"{n} -> {sp['coq']} (" + ", ".join(f"{v}->{vs[0]}" for v, vs in sp["variants"].items()) + ")")
    if tys:
        out.append("type table (field lists and field types are compared with the struct/enum declarations on every run; integer "
                   "newtypes are erased; hashes, signer bitmaps, signatures and the Schedule are the model's abstractions): " + "; ".join(tys))
    return out


if __name__ == "__main__":
    import sys
    for t in sys.argv[1:] or list(TARGETS):
        try:
            text, summary, _ = translate(t)
            print(text)
        except ParseError as e:
            print(f"(* {t}: ParseError: {e} *)")
