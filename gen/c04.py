"""C04 — certificates accepted exactly when backed by a quorum: theorems + correspondence
(vh qc vs Model.MsgsRun.run_op) + specification predicates."""
import copy
import json
import os
from collections import Counter

import common
import msgs as M
from common import Rng, coq_z, coq_list

PROP_FILES = ["theories/Properties/C04.v", "theories/Properties/C04Tqc.v"]
G, E = 0, 0


def gen_committee(rng, nmax=8):
    n = rng.range(1, nmax)
    ranks = sorted(rng.shuffle(list(range(16)))[:n])
    style = rng.below(4)
    c = []
    for r in ranks:
        if style == 0:
            w = 1
        elif style == 1:
            w = rng.range(1, 5)
        elif style == 2:
            w = rng.range(1, 100)
        else:
            w = (1 << rng.range(20, 58)) + rng.below(7)
        c.append((r, w))
    return c


def subsets_near_quorum(rng, c, k):
    """signer index subsets: all when small, else random biased to weight q-1/q/q+1."""
    n = len(c)
    q = M.quorum(c)
    out = []
    if n <= 5:
        for m in range(1 << n):
            out.append([i for i in range(n) if m >> i & 1])
        out = rng.shuffle(out)[:k]
    else:
        for _ in range(k):
            idx = rng.shuffle(list(range(n)))
            s, w = [], 0
            target = rng.choice([q - 1, q, q, q + 1, M.total(c)])
            for i in idx:
                if w >= target:
                    break
                s.append(i)
                w += c[i][1]
            if rng.chance(1, 3) and s:
                s.pop()
            out.append(sorted(s))
    return out


def base_msg(rng, g=G, e=E):
    return M.commit(M.view(g, e, rng.choice([0, 1, 2, 7, rng.below(1000), (1 << 64) - 1])),
                    M.header(rng.choice([0, 1, 5, rng.below(100)]), rng.range(1, 4)))


def corrupt_cqc(rng, c, qc):
    """single-field corruptions of a certificate; returns (kind, qc')"""
    q = copy.deepcopy(qc)
    n = len(c)
    kinds = ["none", "flip", "push", "pop", "view_n", "epoch", "genesis", "header_n", "header_p",
             "agg_other_subset", "agg_other_msg", "agg_dup", "agg_empty", "agg_extra_nonmember", "agg_wrong_signer"]
    k = rng.choice(kinds)
    if k == "flip":
        i = rng.below(n)
        q["signers"][i] ^= 1
    elif k == "push":
        q["signers"].append(rng.below(2))
    elif k == "pop":
        q["signers"].pop()
    elif k == "view_n":
        q["msg"]["v"]["n"] = str((int(q["msg"]["v"]["n"]) + 1) % (1 << 64))
    elif k == "epoch":
        q["msg"]["v"]["e"] = str(int(q["msg"]["v"]["e"]) + 1)
    elif k == "genesis":
        q["msg"]["v"]["g"] = q["msg"]["v"]["g"] + 1
    elif k == "header_n":
        q["msg"]["h"]["n"] = str(int(q["msg"]["h"]["n"]) + 1)
    elif k == "header_p":
        q["msg"]["h"]["p"] = q["msg"]["h"]["p"] + 1
    elif k == "agg_other_subset":
        idx = [i for i in range(n) if rng.chance(1, 2)]
        q["agg"] = [M.sig_commit(c[i][0], qc["msg"]) for i in idx]
    elif k == "agg_other_msg":
        m2 = copy.deepcopy(qc["msg"])
        m2["h"]["p"] += 7
        q["agg"] = [M.sig_commit(s["k"], m2) for s in qc["agg"]]
    elif k == "agg_dup":
        if q["agg"]:
            q["agg"].append(copy.deepcopy(rng.choice(q["agg"])))
    elif k == "agg_empty":
        q["agg"] = []
    elif k == "agg_extra_nonmember":
        members = {r for r, _ in c}
        non = [r for r in range(16) if r not in members]
        if non:
            q["agg"].append(M.sig_commit(rng.choice(non), qc["msg"]))
    elif k == "agg_wrong_signer":
        if q["agg"]:
            members = [r for r, _ in c]
            i = rng.below(len(q["agg"]))
            q["agg"][i] = M.sig_commit(rng.choice(members), qc["msg"]) if rng.chance(1, 2) else M.sig_other(q["agg"][i]["k"], rng.below(5))
    return k, q


def spec_cqc_ok(c, q, g=G, e=E):
    """The right-hand side of the property for commit certificates."""
    v = q["msg"]["v"]
    if v["g"] != g or int(v["e"]) != e:
        return False
    if len(q["signers"]) != len(c):
        return False
    idx = [i for i, b in enumerate(q["signers"]) if b]
    if M.weight(c, idx) < M.quorum(c):
        return False
    want = Counter((c[i][0], json.dumps(q["msg"], sort_keys=True)) for i in idx)
    have = Counter((s["k"], json.dumps(s["m"].get("commit"), sort_keys=True) if "commit" in s["m"] else "other:" + json.dumps(s["m"], sort_keys=True)) for s in q["agg"])
    return want == have


def spec_timeout_msg_ok(c, t, g=G, e=E):
    if t["v"]["g"] != g or int(t["v"]["e"]) != e:
        return False
    if t["hv"] is not None and (t["hv"]["v"]["g"] != g or int(t["hv"]["v"]["e"]) != e):
        return False
    if t["hq"] is not None and not spec_cqc_ok(c, t["hq"], g, e):
        return False
    return True


def spec_tqc_ok(c, q, g=G, e=E):
    if q["v"]["g"] != g or int(q["v"]["e"]) != e:
        return False
    # BTreeMap: later duplicates of an equal message replace the signers
    entries = {}
    for (t, s) in q["map"]:
        entries[json.dumps(t, sort_keys=True)] = (t, s)
    seen = set()
    for (t, s) in entries.values():
        if t["v"] != q["v"] or len(s) != len(c):
            return False
        idx = [i for i, b in enumerate(s) if b]
        if not idx or seen & set(idx):
            return False
        seen |= set(idx)
        if not spec_timeout_msg_ok(c, t, g, e):
            return False
    if M.weight(c, seen) < M.quorum(c):
        return False
    want = Counter()
    for (t, s) in entries.values():
        for i, b in enumerate(s):
            if b:
                want[(c[i][0], json.dumps(t, sort_keys=True))] += 1
    have = Counter((s["k"], json.dumps(s["m"].get("timeout"), sort_keys=True) if "timeout" in s["m"] else "other:" + json.dumps(s["m"], sort_keys=True)) for s in q["agg"])
    return want == have


def gen_timeout_msgs(rng, c, v, nmsgs):
    """distinct ReplicaTimeout messages for view v (high votes / high QCs of earlier views)"""
    out = []
    vn = int(v["n"])
    for j in range(nmsgs):
        hv = None
        hq = None
        if rng.chance(2, 3) and vn > 0:
            hv = M.commit(M.view(G, E, rng.below(vn) if vn < 1 << 62 else rng.below(1000)), M.header(rng.range(0, 6), rng.range(1, 3)))
        if rng.chance(1, 2) and vn > 0:
            m = M.commit(M.view(G, E, rng.below(vn) if vn < 1 << 62 else rng.below(1000)), M.header(rng.range(0, 6), rng.range(1, 3)))
            # a valid high QC: smallest prefix of a shuffled committee reaching the quorum
            idx, w = [], 0
            for i in rng.shuffle(list(range(len(c)))):
                if w >= M.quorum(c):
                    break
                idx.append(i)
                w += c[i][1]
            hq = M.valid_cqc(c, m, idx)
        t = M.timeout(v, hv, hq)
        if all(json.dumps(t, sort_keys=True) != json.dumps(x, sort_keys=True) for x in out):
            out.append(t)
    return out or [M.timeout(v, None, None)]


def gen_valid_tqc(rng, c):
    n = len(c)
    v = M.view(G, E, rng.choice([0, 1, 3, rng.below(50) + 1]))
    tm = gen_timeout_msgs(rng, c, v, rng.range(1, min(3, n)))
    # signers: a subset reaching the quorum (sometimes all), partitioned over the messages
    idx = rng.shuffle(list(range(n)))
    chosen, w = [], 0
    target = rng.choice([M.quorum(c), M.quorum(c), M.total(c), M.quorum(c) - 1])
    for i in idx:
        if w >= target:
            break
        chosen.append(i)
        w += c[i][1]
    groups = [[] for _ in tm]
    for i in chosen:
        groups[rng.below(len(tm))].append(i)
    entries, agg = [], []
    for t, gr in zip(tm, groups):
        if not gr:
            continue
        entries.append((t, [i in gr for i in range(n)]))
        agg += [M.sig_timeout(c[i][0], t) for i in gr]
    return M.tqc(v, entries, agg)


def corrupt_tqc(rng, c, qc):
    q = copy.deepcopy(qc)
    n = len(c)
    kinds = ["none", "none", "overlap", "overlap_signed", "overlap_signed", "empty_group", "wrong_len", "entry_view", "nested_qc", "hv_genesis",
             "drop_signer", "agg_drop", "agg_dup", "agg_other", "view_epoch", "view_genesis", "swap_groups",
             "nested_qc_twin", "nested_qc_twin"]
    k = rng.choice(kinds)
    if not q["map"]:
        return "none", q
    j = rng.below(len(q["map"]))
    if k == "nested_qc_twin":
        # a second entry whose high QC is for the SAME vote as a genuine one in another entry but is not backed by
        # a quorum (a signature dropped / a signer bit cleared); sorted before or after the genuine entry through
        # its high vote.  Every nested certificate must be verified, not one per certified vote.
        cand = [x for x in range(len(q["map"])) if q["map"][x][0]["hq"] is not None]
        donors = [x for x in range(len(q["map"])) if sum(q["map"][x][1]) >= 2]
        if not cand or not donors:
            return "none", q
        j = rng.choice(cand)
        t0 = q["map"][j][0]
        t2 = copy.deepcopy(t0)
        vn = int(t0["v"]["n"])
        if rng.chance(2, 3):       # sorts after the genuine entry: a higher high vote
            base_v = int(t0["hv"]["v"]["n"]) if t0["hv"] is not None else -1
            t2["hv"] = M.commit(M.view(G, E, min(base_v + 1, max(vn - 1, 0))), M.header(7, 2))
        else:                       # sorts before it
            t2["hv"] = None if t0["hv"] is not None else t2["hv"]
        if rng.chance(1, 2) and t2["hq"]["agg"]:
            t2["hq"]["agg"] = t2["hq"]["agg"][:-1]
        else:
            on = [i for i, b in enumerate(t2["hq"]["signers"]) if b]
            if on:
                t2["hq"]["signers"][on[0]] = 0
        if json.dumps(t2, sort_keys=True) == json.dumps(t0, sort_keys=True) or any(json.dumps(t2, sort_keys=True) == json.dumps(e[0], sort_keys=True) for e in q["map"]):
            return "none", q
        d = rng.choice(donors)
        i = [x for x in range(n) if q["map"][d][1][x]][0]
        q["map"][d][1][i] = 0
        old_sig = M.sig_timeout(c[i][0], q["map"][d][0])
        for x, sg in enumerate(q["agg"]):
            if sg == old_sig:
                q["agg"].pop(x)
                break
        q["map"].append([t2, [1 if x == i else 0 for x in range(n)]])
        q["agg"].append(M.sig_timeout(c[i][0], t2))
        return k, q
    if k == "overlap" and len(q["map"]) >= 2:
        a = q["map"][j][1]
        b = q["map"][(j + 1) % len(q["map"])][1]
        for i in range(n):
            if a[i]:
                b[i] = 1
                break
    elif k == "overlap_signed" and len(q["map"]) >= 2:
        # a signer listed (and signing) under two different timeout messages
        a = q["map"][j][1]
        jb = (j + 1) % len(q["map"])
        b = q["map"][jb][1]
        for i in range(n):
            if a[i] and not b[i]:
                b[i] = 1
                q["agg"].append(M.sig_timeout(c[i][0], q["map"][jb][0]))
                break
    elif k == "empty_group":
        q["map"][j][1] = [0] * n
    elif k == "wrong_len":
        q["map"][j][1] = q["map"][j][1] + [0] if rng.chance(1, 2) else q["map"][j][1][:-1]
    elif k == "entry_view":
        q["map"][j][0]["v"]["n"] = str(int(q["map"][j][0]["v"]["n"]) + 1)
    elif k == "nested_qc":
        t = q["map"][j][0]
        if t["hq"] is not None:
            _, t["hq"] = corrupt_cqc(rng, c, t["hq"])
    elif k == "hv_genesis":
        t = q["map"][j][0]
        if t["hv"] is not None:
            t["hv"]["v"]["g"] += 1
    elif k == "drop_signer":
        s = q["map"][j][1]
        on = [i for i in range(len(s)) if s[i]]
        if on:
            s[rng.choice(on)] = 0
    elif k == "agg_drop":
        if q["agg"]:
            q["agg"].pop(rng.below(len(q["agg"])))
    elif k == "agg_dup":
        if q["agg"]:
            q["agg"].append(copy.deepcopy(rng.choice(q["agg"])))
    elif k == "agg_other":
        if q["agg"]:
            i = rng.below(len(q["agg"]))
            q["agg"][i] = M.sig_other(q["agg"][i]["k"], 3)
    elif k == "view_epoch":
        q["v"]["e"] = str(int(q["v"]["e"]) + 1)
    elif k == "view_genesis":
        q["v"]["g"] += 1
    elif k == "swap_groups" and len(q["map"]) >= 2:
        a, b = q["map"][0][1], q["map"][1][1]
        q["map"][0][1], q["map"][1][1] = b, a
    return k, q


def gen_cases(rng, tier):
    cases = []
    ncomm = 150 if tier == "quick" else 1500
    for _ in range(ncomm):
        c = gen_committee(rng)
        cj = M.committee_json(c)
        # leader eligibility is irrelevant for certificates (thresholds are functions of the TOTAL weight):
        # mark a random subset non-eligible, keeping at least one leader; only the implementation sees the flag
        flags = [1 if rng.chance(2, 3) else 0 for _ in cj]
        if not any(flags):
            flags[0] = 1
        cj = [e + [fl] for e, fl in zip(cj, flags)]
        pids = list(range(0, 12))
        base = {"g": G, "e": str(E), "committee": cj, "payload_ids": pids}
        # commit certificates
        msg = base_msg(rng)
        for idx in subsets_near_quorum(rng, c, 6 if tier == "quick" else 12):
            qc = M.valid_cqc(c, msg, idx)
            kind, q2 = corrupt_cqc(rng, c, qc)
            cases.append(dict(base, op="cqc_verify", qc=q2, kind="cqc:" + kind, _c=c))
            if rng.chance(1, 4):
                cases.append(dict(base, op="final_block", qc=q2, payload=rng.choice([q2["msg"]["h"]["p"], q2["msg"]["h"]["p"], 11]), kind="block:" + kind, _c=c))
        # timeout certificates
        for _ in range(3 if tier == "quick" else 6):
            tq = gen_valid_tqc(rng, c)
            kind, t2 = corrupt_tqc(rng, c, tq)
            cases.append(dict(base, op="tqc_verify", qc=t2, kind="tqc:" + kind, _c=c))
            if rng.chance(1, 2):
                cases.append(dict(base, op="implied", j={"timeout": t2}, first_block=str(rng.choice([0, 5])), kind="implied:tqc:" + kind, _c=c))
        if rng.chance(1, 2):
            qc = M.valid_cqc(c, msg, list(range(len(c))))
            kind, q2 = corrupt_cqc(rng, c, qc)
            cases.append(dict(base, op="implied", j={"commit": q2}, first_block="0", kind="implied:cqc:" + kind, _c=c))
        # incremental assembly of a commit certificate
        members = [r for r, _ in c]
        non = [r for r in range(16) if r not in members]
        votes = []
        for r in rng.shuffle(members):
            z = rng.below(12)
            s = {"key": r, "msg": msg, "sig": M.sig_commit(r, msg)}
            if z == 0 and non:
                nk = rng.choice(non)
                s = {"key": nk, "msg": msg, "sig": M.sig_commit(nk, msg)}
            elif z == 1:
                m2 = copy.deepcopy(msg); m2["h"]["p"] += 1
                s = {"key": r, "msg": m2, "sig": M.sig_commit(r, m2)}
            elif z == 2:
                s["sig"] = M.sig_commit(rng.choice(members), msg) if rng.chance(1, 2) else M.sig_other(r, 1)
            elif z == 3:
                m2 = copy.deepcopy(msg); m2["v"]["e"] = "9"
                s = {"key": r, "msg": m2, "sig": M.sig_commit(r, m2)}
            votes.append(s)
            if rng.chance(1, 6):
                votes.append(copy.deepcopy(s))
        cases.append(dict(base, op="cqc_assemble", msg=msg, votes=votes, kind="cqc_assemble", _c=c))
        # incremental assembly of a timeout certificate
        v = M.view(G, E, rng.choice([1, 2, 9]))
        tms = gen_timeout_msgs(rng, c, v, 2)
        tvotes = []
        for r in rng.shuffle(members):
            t = rng.choice(tms)
            z = rng.below(12)
            s = {"key": r, "msg": t, "sig": M.sig_timeout(r, t)}
            if z == 0 and non:
                nk = rng.choice(non)
                s = {"key": nk, "msg": t, "sig": M.sig_timeout(nk, t)}
            elif z == 1:
                t2 = copy.deepcopy(t); t2["v"]["n"] = str(int(t2["v"]["n"]) + 1)
                s = {"key": r, "msg": t2, "sig": M.sig_timeout(r, t2)}
            elif z == 2:
                s["sig"] = M.sig_other(r, 2)
            elif z == 3 and t["hq"] is not None:
                t2 = copy.deepcopy(t); _, t2["hq"] = corrupt_cqc(rng, c, t2["hq"])
                s = {"key": r, "msg": t2, "sig": M.sig_timeout(r, t2)}
            tvotes.append(s)
            if rng.chance(1, 6):
                tvotes.append(copy.deepcopy(s))
            if rng.chance(1, 4):
                # the same signer votes again in this view with DIFFERENT content (another high vote /
                # high certificate): a repeated signer must be refused whatever it signs
                others = [x for x in tms if x != s["msg"]]
                t3 = copy.deepcopy(rng.choice(others)) if others and rng.chance(1, 2) else copy.deepcopy(s["msg"])
                if t3 == s["msg"]:
                    t3["hv"] = M.commit(M.view(G, E, 0), M.header(rng.range(0, 3), rng.range(5, 9))) if t3["hv"] is None else None
                tvotes.append({"key": s["key"], "msg": t3, "sig": M.sig_timeout(s["key"], t3)})
        cases.append(dict(base, op="tqc_assemble", view=v, votes=tvotes, kind="tqc_assemble", _c=c))
    return cases


def coq_case(case, out):
    c = case["_c"]
    C = M.c_committee(c)
    ge = f"{coq_z(case['g'])} {coq_z(case['e'])} {C}"
    op = case["op"]
    if op == "cqc_verify":
        return f"OpCqcVerify {ge} {M.c_cqc(case['qc'])}"
    if op == "cqc_assemble":
        return f"OpCqcAssemble {ge} {M.c_commit(case['msg'])} {coq_list([M.c_signed_commit(s) for s in case['votes']])}"
    if op == "tqc_verify":
        return f"OpTqcVerify {ge} {M.c_tqc(case['qc'], out['order'])}"
    if op == "tqc_assemble":
        return f"OpTqcAssemble {ge} {M.c_view(case['view'])} {coq_list([M.c_signed_timeout(s) for s in case['votes']])} {coq_list([str(i) + '%nat' for i in out['order']])}"
    if op == "implied":
        return f"OpImplied {ge} {coq_z(case['first_block'])} ({M.c_justification(case['j'], out['order'] if 'timeout' in case['j'] else None)})"
    if op == "final_block":
        return f"OpFinalBlock {ge} {coq_z(case['payload'])} {M.c_cqc(case['qc'])}"
    raise ValueError(op)


def predicate(case, out):
    """impl verdict == specification verdict (independent of the model)."""
    obs = out["obs"]
    c = case["_c"]
    op = case["op"]
    bad = []
    if op == "cqc_verify":
        if (obs[0] == 0) != spec_cqc_ok(c, case["qc"]):
            bad.append(f"commit certificate {'accepted' if obs[0] == 0 else 'rejected'} but specification says {'backed' if spec_cqc_ok(c, case['qc']) else 'not backed'} by a quorum")
        if obs[0] == 1:
            bad.append("verify panicked")
    elif op == "tqc_verify":
        if (obs[0] == 0) != spec_tqc_ok(c, case["qc"]):
            bad.append(f"timeout certificate {'accepted' if obs[0] == 0 else 'rejected'} but specification says {'backed' if spec_tqc_ok(c, case['qc']) else 'not backed'} by a quorum")
        if obs[0] == 1:
            bad.append("verify panicked")
    elif op == "final_block":
        want = case["payload"] == case["qc"]["msg"]["h"]["p"] and spec_cqc_ok(c, case["qc"])
        if (obs[0] == 0) != want:
            bad.append("final block verdict differs from specification")
    elif op == "cqc_assemble":
        adds, bits, ver = obs
        members = {r: i for i, (r, _) in enumerate(c)}
        have = set()
        for s, r in zip(case["votes"], adds):
            good = (s["key"] in members and members[s["key"]] not in have and s["sig"] == M.sig_commit(s["key"], s["msg"])
                    and s["msg"] == case["msg"] and s["msg"]["v"]["g"] == G and int(s["msg"]["v"]["e"]) == E)
            if (r[0] == 0) != good:
                bad.append(f"add of vote by {s['key']}: impl {'accepted' if r[0] == 0 else 'refused'}, specification {'accepts' if good else 'refuses'}")
            if r[0] == 0:
                have.add(members[s["key"]])
        if [i for i, b in enumerate(bits) if b] != sorted(have):
            bad.append("signers after assembly differ from the accepted votes")
        reached = M.weight(c, have) >= M.quorum(c) and case["msg"]["v"]["g"] == G and int(case["msg"]["v"]["e"]) == E
        if (ver[0] == 0) != reached:
            bad.append("assembled certificate: verify verdict differs from 'accepted votes reach the quorum'")
    elif op == "tqc_assemble":
        adds = obs[0]
        members = {r: i for i, (r, _) in enumerate(c)}
        have = set()
        for s, r in zip(case["votes"], adds):
            good = (s["key"] in members and members[s["key"]] not in have and s["sig"] == M.sig_timeout(s["key"], s["msg"])
                    and s["msg"]["v"] == case["view"] and spec_timeout_msg_ok(c, s["msg"]))
            if (r[0] == 0) != good:
                bad.append(f"add of timeout by {s['key']}: impl {'accepted' if r[0] == 0 else 'refused'}, specification {'accepts' if good else 'refuses'}")
            if r[0] == 0:
                have.add(members[s["key"]])
        ver = obs[3]
        if out.get("stray"):
            bad.append(f"the certificate under construction holds {out['stray']} entr{'y' if out['stray'] == 1 else 'ies'} for timeout votes that add() refused")
        if any(not any(b) for b in obs[1]):
            bad.append("the certificate under construction holds an entry without signers")
        reached = M.weight(c, have) >= M.quorum(c) and case["view"]["g"] == G and int(case["view"]["e"]) == E
        if (ver[0] == 0) != reached:
            bad.append("assembled timeout certificate: verify verdict differs from 'accepted votes reach the quorum'")
    return bad


def strip(case):
    return {k: v for k, v in case.items() if not k.startswith("_")}


def run(rep):
    tier, rng = rep.tier, Rng(rep.seed)
    broken = []
    # translator: View/ReplicaCommit/CommitQC/ReplicaTimeout/TimeoutQC::verify and the decisions of CommitQC/TimeoutQC::add are
    # regenerated from the source; Properties/C04Gen.v proves them equal to Model/Msgs.v
    import rust2coq
    translator, gen_files = rust2coq.step(["qc_verify"], ["theories/Properties/C04Gen.v"], broken)
    po = common.proof_obligations(PROP_FILES + gen_files)
    if not po["ok"]:
        broken.append("Coq obligations of Properties/C04.v, C04Tqc.v" + (", C04Gen.v" if gen_files else "") + ": " + (po["log_tail"] or str(po["hygiene_problems"] or po["bad_axioms"])))
    ok, out = common.cargo_build(["qc"], "dev")
    if not ok:
        raise common.MachineryError("cargo build failed: " + out[-2000:])
    cases = []
    cp = os.path.join(common.CORPUS, "C04.json")
    if os.path.exists(cp):
        cases += json.load(open(cp))
    cases += gen_cases(rng, tier)
    for cs in cases:
        if "_c" not in cs:
            cs["_c"] = [(int(k), int(w)) for k, w in cs["committee"]]
    outs = common.run_impl("qc", [strip(c) for c in cases], "dev")
    coq_cases, pred_fail, kinds = [], [], {}
    dist = set()
    for i, (c, o) in enumerate(zip(cases, outs)):
        if "crash" in o or "skipped" in o:
            raise common.MachineryError(f"harness crashed on case {i}: {str(o)[:500]}")
        kinds[c["kind"]] = kinds.get(c["kind"], 0) + 1
        coq_cases.append((i, coq_case(c, o), common.to_obsv(o["obs"])))
        for b in predicate(c, o):
            pred_fail.append({"case": strip(c), "impl": o, "failed": b})
        dist.add(json.dumps(strip(c), sort_keys=True))
    sample_ids = [0, 1, 2]
    mm, samp = common.run_model_cases("C04", "From EC Require Import Model.Msgs Model.MsgsRun.", "Model.MsgsRun.run_op true",
                                      coq_cases, shard_size=40, sample_ids=sample_ids)
    if mm:
        broken.append(f"correspondence vh qc vs Model.MsgsRun.run_op: {len(mm)} disagreeing cases")
    if pred_fail:
        rep.violation("C04 violated on the implementation: " + pred_fail[0]["failed"],
                      {"failing_input": pred_fail[0], "more": pred_fail[1:3], "broken": broken})
    elif broken:
        first = None
        if mm:
            i = sorted(mm)[0]
            first = {"case": strip(cases[i]), "impl": outs[i], "model_obs": mm[i]}
        rep.violation("C04 no longer shown to hold: " + "; ".join(broken)[:500],
                      {"broken": broken, "first_disagreement": first}, found_input=False)
    rep.cov.update({
        "obligations": po["obligations"] + 1, "discharged": po["discharged"] + (0 if mm else 1),
        "checker_cmd": "make -C coq theories/Properties/C04.vo theories/Properties/C04Tqc.vo + coqc on generated cases_*.v (vm_compute of Model.MsgsRun.run_op)",
        "trusted_base": common.standard_trusted_base(["H-SIG: BLS12-381 (blst) aggregate verification accepts iff the aggregated multiset of (signer, message) equals the claimed one; proof of possession against rogue keys"] + translator["trusted"]),
        "theorems": po["theorems"], "axioms": po["axioms"], "translator": translator,
        "evaluations": len(cases), "distinct_nontrivial": len(dist),
        "rule": "committees of 1-8 pool keys with unit/small/medium/2^20..2^58 weights; commit certificates for all (<=5 members) or quorum-biased signer subsets with one single-field corruption each (bitmap flip/push/pop, view number/epoch/genesis, header, aggregate: other subset, other message, duplicate, empty, non-member, wrong signer); timeout certificates with 1-3 signer groups, valid nested high QCs and one corruption each (overlap, empty group, wrong length, entry view, nested QC, high vote genesis, dropped signer, aggregate drop/dup/other, view epoch/genesis, swapped groups); final blocks; incremental assembly in random order with non-members, repeated signers, other votes, bad signatures, wrong epoch; real BLS signatures throughout; distinct = distinct case descriptions",
        "input_distribution": kinds,
        "samples": [{"case": strip(cases[i]), "impl": outs[i], "model_obs": samp.get(i)} for i in sample_ids if i < len(cases)],
        "correspondence_mismatches": len(mm), "predicate_failures": len(pred_fail),
    })
    rep.assumptions += ["H-SIG (symbolic signatures; blst trusted)"]


def replay(path):
    d = json.load(open(path))
    fi = d.get("failing_input") or d.get("first_disagreement")
    if not fi:
        print("no concrete input in replay file:", d.get("broken"))
        return 1
    common.cargo_build(["qc"], "dev")
    print(json.dumps(common.run_impl("qc", [fi["case"]], "dev")[0], indent=1))
    return 0
