"""C02 — certificate uniqueness: Layer A/B theorems + exhaustive correspondence of the
implied-block decision function (high_vote / high_qc / get_implied_block) + the property's
premises => conclusion evaluated on the implementation's answers."""
import itertools
import json
import os

import common
import msgs as M
from common import Rng, coq_z

G, E = 0, 0


def prop_files():
    fs = ["theories/Properties/C01Abs.v"]
    for f in ("theories/Properties/C02.v",):
        if os.path.exists(os.path.join(common.COQ, f)):
            fs.append(f)
    return fs


# alphabet: block A = (n, 1), B = (n, 2) (conflicting payload), C = (n + 1, 3), D = (n - 1, 4)
def blocks(n):
    return {"A": (n, 1), "B": (n, 2), "C": (n + 1, 3), "D": (n - 1, 4)}


def mk_reports(n, view):
    """the reports a signer may give: (high vote or None, high qc or None)"""
    bl = blocks(n)
    hvs = [None] + [M.commit(M.view(G, E, v), M.header(*bl[b])) for b in ("A", "B", "C") for v in (view - 1,)]
    hvs += [M.commit(M.view(G, E, view - 2), M.header(*bl["A"]))]

    def qc(num, pay, v):
        return M.cqc(M.commit(M.view(G, E, v), M.header(num, pay)), [], [])
    hqs = [None, qc(n - 1, 4, view - 3), qc(n, 1, view - 2), qc(n + 1, 3, view - 1)]
    return [(hv, hq) for hv in hvs for hq in hqs]


def build_tqc(c, view, assign, reports):
    """assign: per validator index None (not a signer) or an index into reports"""
    groups = {}
    for i, a in enumerate(assign):
        if a is not None:
            groups.setdefault(a, []).append(i)
    entries = []
    for a, idx in groups.items():
        hv, hq = reports[a]
        hq2 = None if hq is None else dict(hq, signers=[0] * len(c))
        entries.append((M.timeout(M.view(G, E, view), hv, hq2), [i in idx for i in range(len(c))]))
    return M.tqc(M.view(G, E, view), entries, [])


def gen_cases(rng, tier):
    cases = []
    n0, view = 5, 9
    specs = []
    if tier == "quick":
        specs = [([1, 1, 1], "all"), ([1, 2, 1], "all"), ([1, 1, 1, 1], 4000), ([3, 1, 2, 1], 2500), ([1, 1, 1, 1, 1, 1], 2500), ([2, 1, 1, 3, 1], 2000)]
    else:
        specs = [([1, 1, 1], "all"), ([1, 2, 1], "all"), ([2, 3, 1], "all"), ([1, 1, 1, 1], "all"), ([3, 1, 2, 1], 40000),
                 ([1, 1, 1, 1, 1, 1], 60000), ([2, 1, 1, 3, 1], 40000), ([1, 1, 1, 1, 1, 1, 1, 1, 1, 1, 1], 30000)]
    for ws, how in specs:
        c = [(i, w) for i, w in enumerate(ws)]
        reports = mk_reports(n0, view)
        opts = [None] + list(range(len(reports)))
        if how == "all":
            assigns = itertools.product(opts, repeat=len(c))
        else:
            def gen():
                for _ in range(how):
                    # bias: most validators sign, few distinct reports
                    palette = [rng.choice(opts[1:]) for _ in range(rng.range(1, 3))]
                    yield tuple(None if rng.chance(1, 6) else rng.choice(palette) for _ in c)
            assigns = gen()
        for a in assigns:
            if all(x is None for x in a):
                continue
            t = build_tqc(c, view, a, reports)
            cases.append({"op": "implied", "g": G, "e": str(E), "committee": [e + [1 if (i + len(cases)) % 3 else (0 if i else 1)] for i, e in enumerate(M.committee_json(c))], "payload_ids": list(range(0, 8)),
                          "j": {"timeout": t}, "first_block": "0", "_c": c, "_assign": a, "_reports": reports})
    return cases, n0


def impl_answer(o):
    r = o["obs"][0]
    if r[0] != 0:
        return None
    n, h = r[1]
    return int(n), (h[0] if h else None)


def respects_commit_predicate(case, ans, n0):
    """For every (Q, byz, committed block) for which the property's premises hold on this certificate, the
    implementation's implied block must re-propose the block or have a higher number."""
    c = case["_c"]
    n = len(c)
    reports, assign = case["_reports"], case["_assign"]
    tot = M.total(c)
    f = (tot - 1) // 5
    q = tot - f
    signers = [i for i in range(n) if assign[i] is not None]
    if M.weight(c, signers) < q:
        return []   # not a certificate that can verify
    bad = []
    idxs = list(range(n))
    # a block for which a commit certificate is carried by the timeout certificate is committed: whatever is
    # proposed next has a higher number (a certified block is never displaced by a fresh payload)
    certified = [int(reports[assign[i]][1]["msg"]["h"]["n"]) for i in signers if reports[assign[i]][1] is not None]
    if certified and ans is not None and ans[0] <= max(certified):
        bad.append(f"the certificate carries a commit certificate for block {max(certified)} but implies block ({ans[0]}, {ans[1]}): a certified block would be displaced")
        return bad
    for blk in ((n0, 1), (n0, 2)):
        for qmask in range(1, 1 << n):
            Q = [i for i in idxs if qmask >> i & 1]
            if M.weight(c, Q) < q:
                continue
            for bmask in range(1 << n):
                B = [i for i in idxs if bmask >> i & 1]
                if M.weight(c, B) > f:
                    continue
                ok = True
                for i in Q:
                    if i in B or assign[i] is None:
                        continue
                    hv, hq = reports[assign[i]]
                    if hv is None:
                        ok = False; break
                    num, pay = int(hv["h"]["n"]), hv["h"]["p"]
                    if not ((num, pay) == blk or num > blk[0]):
                        ok = False; break
                    if num > blk[0] and (hq is None or int(hq["msg"]["h"]["n"]) < blk[0]):
                        ok = False; break
                if not ok:
                    continue
                # premise (c): nested certificates monotone (higher view => not smaller number): holds for the alphabet
                if ans is None:
                    bad.append("implied block computation failed")
                    return bad
                num, h = ans
                if not ((num == blk[0] and h == blk[1]) or num > blk[0]):
                    bad.append(f"possible commit of block {blk} by quorum {Q} (faulty {B}) but the certificate implies ({num}, {h})")
                    return bad
    return bad


def run(rep):
    tier, rng = rep.tier, Rng(rep.seed)
    broken = []
    # translator: high_vote / high_qc / get_implied_block regenerated from replica_timeout.rs, leader_proposal.rs;
    # Properties/C02Gen.v proves them equal to Model/Msgs.v
    import rust2coq
    translator, gen_files = rust2coq.step(["numbers", "justification"], ["theories/Properties/C02Gen.v"], broken)
    files = prop_files() + gen_files
    po = common.proof_obligations(files)
    if not po["ok"]:
        broken.append("Coq obligations of " + ",".join(files) + ": " + (po["log_tail"] or str(po["hygiene_problems"] or po["bad_axioms"])))
    ok, out = common.cargo_build(["qc"], "dev")
    if not ok:
        raise common.MachineryError("cargo build failed: " + out[-2000:])
    cases, n0 = gen_cases(rng, tier)
    outs = common.run_impl("qc", [{k: v for k, v in c.items() if not k.startswith("_")} for c in cases], "dev")
    import c04
    coq_cases, pred_fail = [], []
    answers = {}
    npred = 0
    for i, (c, o) in enumerate(zip(cases, outs)):
        if "crash" in o or "skipped" in o:
            raise common.MachineryError(f"harness crashed on case {i}: {str(o)[:400]}")
        coq_cases.append((i, c04.coq_case(c, o), common.to_obsv(o["obs"])))
        ans = impl_answer(o)
        answers[json.dumps(ans)] = answers.get(json.dumps(ans), 0) + 1
        if len(c["_c"]) <= 6 and (tier != "quick" or i % 3 == 0):
            npred += 1
            for b in respects_commit_predicate(c, ans, n0):
                pred_fail.append({"case": {k: v for k, v in c.items() if not k.startswith("_")}, "impl": o, "failed": b})
    mm, samp = common.run_model_cases("C02", "From EC Require Import Model.Msgs Model.MsgsRun.", "Model.MsgsRun.run_op true",
                                      coq_cases, shard_size=250, sample_ids=[0, 7, 100])
    if mm:
        broken.append(f"correspondence vh qc (implied) vs Model.MsgsRun.run_op: {len(mm)} disagreeing certificates")
    # history level: the protocol-level theorem (Properties/C02.v) is about the replica rules, which are tied to the
    # code by the cluster simulation (N real replicas vs Model/Sim.v on adversarial and directed schedules); its
    # "one certified payload per block number" monitor is the statement of C02 itself on the implementation's history
    import sim_gen as SG
    S = SG.run_sim_cases(rep, "C02", {"prefix_ops": 100, "rounds": 8, "shard": 2}, 8 if tier == "quick" else 200, rng.fork(), broken)
    sim_fail = [m for m in S["mon_fail"] if m["monitor"] in ("C01", "C02")]
    for m in sim_fail:
        pred_fail.insert(0, {"case": m.get("case"), "meta": m.get("meta"),
                             "failed": "cluster simulation, %s monitor: %s" % (m["monitor"], m["failed"])})
    sim_cov = {"schedules": len(S["cases"]), "mismatches": len(S["mm"]), "monitor_failures": len(sim_fail),
               "what": "N real replicas vs Model/Sim.v: adversarial schedules plus the directed 'commit then timeout' and 'split vote, then commit then timeout' families; monitor: at most one payload per block number ever has a quorum of commit votes / a certificate"}
    if pred_fail:
        rep.violation("C02 violated on the implementation: " + pred_fail[0]["failed"],
                      {"failing_input": pred_fail[0], "broken": broken})
    elif broken:
        first = None
        if mm:
            i = sorted(mm)[0]
            first = {"case": {k: v for k, v in cases[i].items() if not k.startswith("_")}, "impl": outs[i], "model_obs": mm[i]}
        rep.violation("C02 no longer shown to hold: " + "; ".join(broken)[:500], {"broken": broken, "first_disagreement": first}, found_input=False)
    rep.cov.update({
        "obligations": po["obligations"] + 1, "discharged": po["discharged"] + (0 if mm else 1),
        "checker_cmd": "make -C coq " + " ".join(f[:-2] + ".vo" for f in files) + " + coqc on generated cases_*.v",
        "trusted_base": common.standard_trusted_base(["H-SIG/H-ADV/H-HASH (symbolic cryptography, Dolev-Yao adversary) in the protocol-level theorems"] + translator["trusted"]),
        "theorems": po["theorems"], "axioms": po["axioms"], "translator": translator,
        "evaluations": len(cases), "distinct_nontrivial": len(cases) - answers.get("null", 0),
        "rule": "timeout certificates over committees of 3-11 validators (weights 1-3): every assignment (exhaustive for 3 and, in the thorough tier, 4 validators; biased random beyond) of 'not a signer' or one of 20 reports (high vote in {none, A=(n,1)@v-1, B=(n,2)@v-1, C=(n+1,3)@v-1, A@v-2} x high certificate in {none, (n-1), (n), (n+1)}); compared: high vote, high certificate, implied block, view; predicate: for every quorum Q, faulty set of weight <= f and block for which the property's premises hold, the implied block re-proposes it or has a higher number",
        "answer_distribution": answers, "predicate_certificates": npred,
        "samples": [{"assignment": [None if a is None else a for a in cases[i]["_assign"]], "committee": cases[i]["committee"], "impl": outs[i]["obs"], "model_obs": samp.get(i)} for i in (0, 7, 100) if i < len(cases)],
        "correspondence_mismatches": len(mm), "predicate_failures": len(pred_fail),
        "exhaustive": False, "cluster_simulation": sim_cov,
        "partial": "history-level certificate uniqueness is proved on the abstract vote-history model (Properties/C01Abs.v) and, when Properties/C02.v is present, on the concrete protocol model through the refinement; see evidence 'theorems'",
    })
    rep.assumptions += ["H-SIG, H-ADV, H-HASH"]


def replay(path):
    d = json.load(open(path))
    fi = d.get("failing_input") or d.get("first_disagreement")
    if not fi:
        print("no concrete input:", d.get("broken"))
        return 1
    case = fi.get("case") or {}
    if "nodes" in case or "script" in case or ("ops" in case and "op" not in case):
        import c06
        return c06.replay(path)
    common.cargo_build(["qc"], "dev")
    print(json.dumps(common.run_impl("qc", [fi["case"]], "dev")[0], indent=1))
    return 0
