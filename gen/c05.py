"""C05 — view changes justified, monotone, per specification: theorems + replica correspondence
(vh replica vs Model.ReplicaRun.run_case) + predicates on the implementation's behaviour."""
import json
import os

import common
import replica_gen as RG
import runloop
from common import Rng

PROP_FILES = ["theories/Properties/C05.v", "theories/Properties/C05Spec.v"]


def cert_views(snap):
    """(view, high_cqc view or -1, high_tqc view or -1) from a snapshot obs."""
    v = int(snap[0])
    cq = int(snap[3][0][0][2]) if snap[3] else -1
    tq = int(snap[4][0][0][2]) if snap[4] else -1
    return v, cq, tq


def carried_commit_views(m):
    """Views of the commit certificates a message carries (directly, or as a high_qc inside timeouts)."""
    vs = []

    def of_timeout(t):
        if t.get("hq") is not None:
            vs.append(int(t["hq"]["msg"]["v"]["n"]))
    if "timeout" in m:
        of_timeout(m["timeout"])
    elif "proposal" in m or "new_view" in m:
        j = (m.get("proposal") or m.get("new_view"))["j"]
        if j is not None and "commit" in j:
            vs.append(int(j["commit"]["msg"]["v"]["n"]))
        elif j is not None:
            for (tm, _s) in j["timeout"]["map"]:
                of_timeout(tm)
    return vs


def local_rule_failures(i, op, ob, snap, cur, case_committee=None):
    """Replica-local rules of the specification that the safety and view-change theorems rest on, evaluated
    on one accepted step of the implementation (never via the model):
      * a commit certificate the replica was shown in an accepted message is retained: afterwards its high
        commit certificate is at least as high;
      * the commit vote it has just sent is recorded as its latest vote (high_vote);
      * a timeout vote it sends reports exactly that recorded latest vote and its high commit certificate."""
    bad = []
    if ob[0] != [0] or op is None:
        return bad
    inner = op["op"] if op["t"] == "crash" else op
    if inner.get("t") == "msg" and inner.get("sig_ok", True):
        vs = carried_commit_views(inner["m"])
        # a single timeout vote is only verified and counted; its high_qc is processed when the quorum forms
        if vs and "timeout" not in inner["m"] and max(vs) > cur[1]:
            bad.append({"step": i, "failed": f"accepted a message carrying a commit certificate for view {max(vs)} but the replica's high commit certificate afterwards is for view {cur[1]} (certificate shown to the replica is dropped)"})
    # votes the replica has counted stay countable: a validator whose latest timeout (commit) vote the replica has
    # recorded for a view >= its own view is represented in the certificate under construction for that view
    # (otherwise a re-sent vote is refused as a duplicate and that weight can never be counted: C06G_timeout_views_have_bits)
    if len(snap) > 9:
        tq_views = {int(x) for x in snap[9]}
        for kv in snap[8]:
            if int(kv[1]) >= cur[0] and int(kv[1]) not in tq_views:
                bad.append({"step": i, "failed": f"validator {kv[0]}'s timeout vote for view {kv[1]} is recorded as counted but no timeout certificate is under construction for that view (its weight can never be counted again)"})
                break
        cq_views = {int(x[0]) for x in snap[7]}
        for kv in snap[6]:
            if int(kv[1]) >= cur[0] and int(kv[1]) not in cq_views:
                bad.append({"step": i, "failed": f"validator {kv[0]}'s commit vote for view {kv[1]} is recorded as counted but no commit certificate is under construction for that view"})
                break
    # an accepted proposal is signed by the leader of the PROPOSAL's view (round robin over the committee in the
    # scenarios), whatever view the replica was in
    if inner.get("t") == "msg" and inner.get("sig_ok", True) and "proposal" in inner["m"] and case_committee:
        j = inner["m"]["proposal"]["j"]
        pv = int(j["commit"]["msg"]["v"]["n"] if "commit" in j else j["timeout"]["v"]["n"]) + 1
        want = case_committee[pv % len(case_committee)][0]
        if int(inner["key"]) != int(want):
            bad.append({"step": i, "failed": f"accepted a proposal for view {pv} signed by validator {inner['key']}, but the leader of view {pv} is validator {want}"})
    hv = snap[2][0] if snap[2] else None
    for e in ob[1][0]:
        if e[0] != 1:
            continue
        m = e[1]
        if m[0] == 1 and m[1] != hv:
            bad.append({"step": i, "failed": f"sent the commit vote {m[1]} but recorded {hv} as its latest vote (high_vote must be the latest vote: a later timeout would report a stale vote)"})
        if m[0] == 2:
            thv = m[1][1][0] if m[1][1] else None
            thq = int(m[1][2][0][0][2]) if m[1][2] else -1
            if thv != hv:
                bad.append({"step": i, "failed": f"timeout vote reports high_vote {thv} but the replica's latest vote is {hv}"})
            if thq != cur[1]:
                bad.append({"step": i, "failed": f"timeout vote reports a high commit certificate for view {thq} but the replica holds one for view {cur[1]}"})
    return bad


def durability_failures(i, ob, prev_snap, queued):
    """The finalized block is handed to storage before the replica state that records its commit is made durable
    (save_block waits for persistence before start_new_view prunes the proposal cache and backs the state up): for
    every persisted state whose high commit certificate is for block n while the replica held the payload of n in
    its proposal cache before the step, the queue-block effect of n precedes that persist. `queued` accumulates the
    numbers handed to storage so far (mutated)."""
    bad = []
    effs = ob[1][0] + (ob[2][0] if ob[0] == [7] else [])
    cache = {}
    if prev_snap and len(prev_snap) > 5:
        cache = {int(e[0]): set(e[1]) for e in prev_snap[5]}
    for e in effs:
        if e[0] == 2:
            queued.add(int(e[1]))
        elif e[0] == 0 and ob[0] != [7]:
            d = e[1]
            if d[4]:
                n, pay = int(d[4][0][1][0]), d[4][0][1][1]
                if n in cache and pay in cache[n] and n not in queued:
                    bad.append({"step": i, "failed": f"the replica state recording the commit of block {n} was made durable before block {n} was handed to storage, although the replica held its payload (after this write the proposal is pruned: a crash now loses a committed block)"})
    return bad


def predicates(case, out):
    bad = []
    prev = None
    prev_snap, queued = None, set()
    for i, ob in enumerate(out["obs"]):
        if ob == [9] or len(ob) < 3:
            continue
        op0 = case["ops"][i - 1] if i > 0 else None
        if op0 is not None and op0["t"] == "sync":
            queued.add(int(op0["n"]))
        bad += durability_failures(i, ob, prev_snap, queued)
        if ob[0] == [7]:
            prev = None  # crash/restart: C03's business
            prev_snap = None
            continue
        snap = ob[2]
        if not snap:
            continue
        prev_snap = snap
        cur = cert_views(snap)
        op = case["ops"][i - 1] if i > 0 else None
        if op is not None and op["t"] == "restart":
            prev = None
        if prev is not None:
            if cur[0] < prev[0]:
                bad.append({"step": i, "failed": f"view decreased {prev[0]} -> {cur[0]}"})
            if cur[1] < prev[1]:
                bad.append({"step": i, "failed": f"high commit certificate view decreased {prev[1]} -> {cur[1]}"})
            if cur[2] < prev[2]:
                bad.append({"step": i, "failed": f"high timeout certificate view decreased {prev[2]} -> {cur[2]}"})
            if cur[0] > prev[0] and max(cur[1], cur[2]) < cur[0] - 1:
                bad.append({"step": i, "failed": f"moved to view {cur[0]} holding no certificate for view {cur[0] - 1}"})
            # the view entered must be the successor of the view of the certificate this very step
            # completed (votes) or received (new-view / proposal): "only on a certificate for the preceding view"
            if cur[0] > prev[0] and op is not None and ob[0] == [0]:
                inner = op["op"] if op["t"] == "crash" else op
                if inner.get("t") == "msg":
                    m = inner["m"]
                    want = None
                    if "commit" in m:
                        want = int(m["commit"]["v"]["n"]) + 1
                    elif "timeout" in m:
                        want = int(m["timeout"]["v"]["n"]) + 1
                    else:
                        j = (m.get("proposal") or m.get("new_view"))["j"]
                        want = int(j["commit"]["msg"]["v"]["n"] if "commit" in j else j["timeout"]["v"]["n"]) + 1
                    if want != cur[0]:
                        bad.append({"step": i, "failed": f"the step completed/received a certificate for view {want - 1} but the replica moved to view {cur[0]} (a view change must be to the successor of the certificate's view)"})
        if ob[0] and ob[0][0] == 1:
            bad.append({"step": i, "failed": "handler panicked"})
        bad += local_rule_failures(i, op, ob, snap, cur, case.get("_c"))
        prev = cur
    for s in out.get("sent", []):
        if s["by_me"] and not (s["sig_ok"] and s["verifies"]):
            bad.append({"failed": f"emitted message kind {s['kind']} for view {s['view']} does not verify in isolation"})
    return bad


def run_replica_cases(rep, prop, opts, ncases, rng, broken, extra_pred=None):
    """Shared by C01/C03/C05/C16: generate scenarios, run impl and model, diff, apply predicates."""
    for b, prof in (("qc", "dev"), ("replica", "dev")):
        ok, out = common.cargo_build([b], prof)
        if not ok:
            raise common.MachineryError("cargo build failed: " + out[-2000:])
    cases = []
    cp = os.path.join(common.CORPUS, prop + ".json")
    if os.path.exists(cp):
        cases += json.load(open(cp))
    for _ in range(ncases):
        cases.append(RG.gen_case(rng.fork(), opts))
    for c in cases:
        if "_c" not in c:
            c["_c"] = [(int(k), int(w)) for k, w in c["committee"]]
    RG.normalize_orders(cases)
    outs = common.run_impl("replica", [RG.strip(c) for c in cases], "dev")
    coq_cases, pred_fail, kinds = [], [], {}
    steps, dist = 0, set()
    results = {}
    for i, (c, o) in enumerate(zip(cases, outs)):
        if "crash" in o or "skipped" in o:
            raise common.MachineryError(f"replica harness crashed on case {i}: {str(o)[:800]}")
        for k, v in c.get("_kinds", {}).items():
            kinds[k] = kinds.get(k, 0) + v
        coq_cases.append((i, RG.c_case(c), common.to_obsv(o["obs"])))
        steps += len(o["obs"])
        for ob in o["obs"]:
            if ob != [9] and ob[0] != [7]:
                key = json.dumps(ob[0])
                results[key] = results.get(key, 0) + 1
                dist.add(json.dumps(ob))
        preds = predicates(c, o) + (extra_pred(c, o) if extra_pred else [])
        for b in preds:
            pred_fail.append({"case": RG.strip(c), "case_index": i, **b})
    sample_ids = [0, 1]
    mm, samp = common.run_model_cases(prop, "From EC Require Import Model.Msgs Model.Replica Model.ReplicaRun.",
                                      "Model.ReplicaRun.run_case", coq_cases, shard_size=4, sample_ids=sample_ids, timeout=2400)
    if mm:
        broken.append(f"correspondence vh replica vs Model.ReplicaRun.run_case: {len(mm)} of {len(cases)} scenarios disagree")
    return {"cases": cases, "outs": outs, "mm": mm, "samp": samp, "pred_fail": pred_fail, "kinds": kinds,
            "steps": steps, "dist": len(dist), "results": results, "sample_ids": sample_ids}


SPEC_CODES = {
    -2: "restart", -1: "replica dead",
    0: "both refuse", 1: "both accept, post-state and messages agree",
    10: "spec accepts / impl refuses: duplicate signer by per-validator latest view",
    11: "spec accepts / impl refuses: new-view for the current view not from its leader",
    12: "spec accepts / impl refuses: proposal for a pruned block number",
    13: "spec accepts / impl refuses: payload over max_payload_size",
    14: "spec accepts / impl refuses: previous block not yet stored",
    15: "spec accepts / impl refuses: block below the first block of the epoch",
    16: "spec accepts / impl refuses: block store gap (handler waits)",
    17: "spec accepts / impl panics: u64 overflow of .next()",
    18: "spec accepts / impl refuses: internal error",
    19: "spec accepts / impl refuses: implied block differs (sub-quorum per block vs per vote)",
    20: "impl accepts / spec refuses: implied block is not the next uncommitted block",
    21: "impl accepts / spec refuses: implied block differs (sub-quorum per block vs per vote)",
    99: "UNEXPLAINED (contradicts C05_refines_spec)",
}


def run_spec_cases(rep, cases, pred_fail):
    """Sanity check of the refinement theorem (a test, not a proof): evaluates in Coq, along the
    model's run of every replica scenario, Proofs.ReplicaSpec.classify = rstep next to
    Model.Spec.spec_step from the abstracted state, and returns the histogram of
    (implementation accepts / specification accepts / refinement reason).  Only an UNEXPLAINED
    step (code 99: an accepted step on which the two disagree, or a disagreement outside the
    documented refinements) is reported, as a predicate failure."""
    coq_cases = [(i, RG.c_case(c), "(OL [])") for i, c in enumerate(cases)]
    mm, _ = common.run_model_cases("C05S", "From EC Require Import Model.Msgs Model.Replica Model.ReplicaRun Proofs.ReplicaSpec.",
                                   "Proofs.ReplicaSpec.classify_case", coq_cases, shard_size=4, timeout=2400)
    hist, steps = {}, 0
    for i, c in enumerate(cases):
        codes = common.norm_obs(mm[i]) if i in mm else []
        for k, code in enumerate(codes):
            steps += 1
            name = SPEC_CODES.get(code, str(code))
            hist[name] = hist.get(name, 0) + 1
            if code == 99:
                pred_fail.append({"case": RG.strip(c), "case_index": i, "step": k + 1,
                                  "failed": f"specification refinement: step {k + 1} is neither in agreement with Model/Spec.v "
                                            "nor covered by a documented refinement"})
    return {"spec_refinement_steps": steps, "spec_refinement_histogram": hist,
            "spec_refinement_note": "test of Properties/C05Spec.v (C05_refines_spec) on the scenarios of the replica correspondence: "
                                    "Model/Replica.rstep vs Model/Spec.spec_step from abs(state), classified in Coq by vm_compute"}


def first_diff(model_obs, impl_obs):
    """index of the first differing step between the two observation lists"""
    m = common.norm_obs(model_obs) if not isinstance(model_obs, list) else model_obs
    for k, (a, b) in enumerate(zip(m, common.norm_obs(impl_obs))):
        if a != b:
            return k, a, b
    return None


def report(rep, prop, po, R, broken, what, extra_first=None):
    mm, cases, outs, pred_fail = R["mm"], R["cases"], R["outs"], R["pred_fail"]
    if pred_fail:
        rep.violation(f"{prop} violated on the implementation: " + pred_fail[0]["failed"],
                      {"failing_input": pred_fail[0], "more": [p["failed"] for p in pred_fail[1:5]], "broken": broken})
    elif broken:
        first = None
        if mm:
            i = sorted(mm)[0]
            fd = first_diff(mm[i], outs[i]["obs"])
            first = {"case": RG.strip(cases[i]), "first_differing_step": fd[0] if fd else None,
                     "model_step_obs": fd[1] if fd else None, "impl_step_obs": fd[2] if fd else None}
        first = first or extra_first
        rep.violation(f"{prop} no longer shown to hold: " + "; ".join(broken)[:500],
                      {"broken": broken, "first_disagreement": first}, found_input=False)
    rep.cov.update({
        "obligations": po["obligations"] + 1, "discharged": po["discharged"] + (0 if mm else 1),
        "checker_cmd": f"make -C coq {' '.join(f[:-2] + '.vo' for f in po.get('files', []))} + coqc on generated cases_*.v (vm_compute of Model.ReplicaRun.run_case)",
        "trusted_base": common.standard_trusted_base([
            "H-SIG/H-HASH symbolic cryptography; bft hook feature verif_hooks (step-driven wrapper, add-only)",
            "harness execution engine (blocks persisted as soon as queued; payload verdict by id; crash = set_state error)"]),
        "theorems": po["theorems"], "axioms": po["axioms"],
        "evaluations": R["steps"], "distinct_nontrivial": R["dist"],
        "rule": what,
        "input_distribution": R["kinds"], "outcome_distribution": R["results"], "scenarios": len(cases),
        "samples": [{"case_ops_head": RG.strip(cases[i])["ops"][:3], "impl_obs_head": outs[i]["obs"][:2]} for i in R["sample_ids"] if i < len(cases)],
        "correspondence_mismatches": len(mm), "predicate_failures": len(pred_fail),
    })


def run(rep):
    tier, rng = rep.tier, Rng(rep.seed)
    broken = []
    # translator: ViewNumber/EpochNumber/BlockNumber next/prev regenerated from the source; Properties/C05Gen.v proves
    # them equal to the model's num_next
    import rust2coq
    # ... and the replica state machine itself: handler guards, state updates and effects in program order (C05Gen2/3.v)
    translator, gen_files = rust2coq.step(rust2coq.REPLICA_STEP, rust2coq.REPLICA_PROPS, broken)
    po = common.proof_obligations(PROP_FILES + gen_files)
    po["files"] = PROP_FILES + gen_files
    if not po["ok"]:
        broken.append("Coq obligations of " + ",".join(po["files"]) + ": " + (po["log_tail"] or str(po["hygiene_problems"] or po["bad_axioms"])))
    R = run_replica_cases(rep, "C05", {"rounds": 6 if tier == "quick" else 10, "crash": False, "extreme": False},
                          int(os.environ.get("VERIF_C05_N") or (60 if tier == "quick" else 1200)), rng, broken)
    spec_ev = run_spec_cases(rep, R["cases"], R["pred_fail"])
    # black-box tie of the real run loop (Config::run fed through create_input_channel) to the model
    RL = runloop.run_runloop_cases(rep, "C05", 15 if tier == "quick" else 300, rng, broken,
                                   rounds=6 if tier == "quick" else 10)
    rl_ev = runloop.evidence(RL)
    for pf in RL["pred_fail"]:
        R["pred_fail"].append(dict(pf, harness="runloop"))
    rl_first = rl_ev.get("runloop_first_disagreement")
    if rl_first:
        rl_first = dict(rl_first, harness="runloop")
    report(rep, "C05", po, R, broken,
           "scenarios: one replica among 1-7 validators (unit/small/medium weights), a puppet network walking 6-10 views through commit rounds and timeout rounds with injected wrong-leader / bad-signature / payload-mismatch / oversized / invalid-payload / equivocating proposals, non-member / other-block / wrong-epoch / future / stale / duplicate votes, corrupted nested certificates, new-view catch-up, timers, block sync; per step the outcome class, ordered effects and full snapshot are compared; distinct = distinct step observations",
           extra_first=rl_first)
    rep.cov.update(rl_ev)
    rep.cov.update(spec_ev)
    rep.cov["translator"] = translator
    rep.cov["trusted_base"] = rep.cov["trusted_base"] + translator["trusted"]
    rep.cov["obligations"] += 1
    rep.cov["discharged"] += 0 if RL["mm"] else 1
    rep.cov["evaluations"] += RL["steps"]
    rep.assumptions += ["H-SIG, H-HASH", "crashes excluded here (C03)"]


def replay(path):
    d = json.load(open(path))
    fi = d.get("failing_input") or d.get("first_disagreement")
    if not fi:
        print("no concrete input:", d.get("broken"))
        return 1
    hbin = fi.get("harness", "replica")
    common.cargo_build([hbin], "dev")
    o = common.run_impl(hbin, [fi["case"]], "dev")[0]
    for i, ob in enumerate(o.get("obs", [])):
        print(i, json.dumps(ob)[:400])
    if d.get("what"):
        print("recorded:", d["what"])
    if hbin == "replica" and "obs" in o:
        case = fi["case"]
        if "_c" not in case:
            case["_c"] = [(int(k), int(w)) for k, w in case["committee"]]
        bad = predicates(case, o)
        print("predicates on this run of the current code:", "all hold" if not bad else "")
        for b in bad[:10]:
            print("  FAILED", b)
    return 0
