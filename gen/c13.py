"""C13 — encrypted transport: theorems (Properties/C13.v) + correspondence (vh noise vs Model.Noise)
+ predicates evaluated on the behaviour of the real noise::Stream / noise::bytes::Buffer."""
import json
import os
import common
from common import Rng, coq_list

PROP_FILES = ["theories/Properties/C13.v"]
PC = 65519            # MAX_PAYLOAD_LEN
MAXMSG = 65535        # MAX_TRANSPORT_MSG_LEN
MAXFRAME = 65537      # MAX_FRAME_LEN
AUTH = 16
PATK = 1103515245
BIG = [65518, 65519, 65520, 131072]
SMALL = [0, 1, 2, 15, 16, 17]


def pat(salt, i):
    return ((i * PATK + salt) >> 16) & 255


def hash_bytes(bs):
    h = 0
    for b in bs:
        h = (h * 33 + b + 1) & 0xFFFFFFFF
    return h


# ---------------------------------------------------------------------------
# generators

def gen_wscript(rng, big=False):
    n = rng.choice([0, 0, 0, 1, 2, 3, 5])
    out = []
    for _ in range(n):
        z = rng.below(100)
        if z < 25:
            out.append(-1)
        elif z < 28:
            out.append(-2)
        elif z < 30:
            out.append(0)
        elif z < 55:
            out.append(rng.choice([1, 2, 3, 16, 17, 18]))
        elif z < 80:
            out.append(rng.range(1, 400))
        else:
            out.append(rng.choice([65535, 65536, 65537, 70000, rng.range(400, 66000)]))
    return out


def gen_rscript(rng):
    n = rng.choice([0, 0, 0, 1, 2, 3, 6])
    out = []
    for _ in range(n):
        z = rng.below(100)
        if z < 22:
            out.append(-1)
        elif z < 25:
            out.append(-2)
        elif z < 55:
            out.append(rng.choice([1, 1, 2, 3, 17, 18, 19]))
        elif z < 80:
            out.append(rng.range(1, 400))
        else:
            out.append(rng.choice([65535, 65536, 65537, 70000, rng.range(400, 66000)]))
    return out


def gen_wlen(rng, heavy):
    z = rng.below(100)
    if heavy and z < 45:
        return rng.choice(BIG + [rng.range(60000, 70000)])
    if z < 20:
        return rng.choice(SMALL)
    if z < 75:
        return rng.range(1, 300)
    return rng.range(300, 3000)


def gen_rcap(rng, heavy):
    z = rng.below(100)
    if z < 15:
        return rng.choice([0, 1, 2, 16])
    if z < 50:
        return rng.range(1, 200)
    if z < 75:
        return rng.range(200, 5000)
    return rng.choice([65519, 65520, 70000, 100000]) if (heavy or z < 90) else rng.range(1, 64)


def closing(nframes_bound, with_shutdown):
    """clean flush (or shutdown) + enough reads to drain: a read delivers at most one frame."""
    ops = [["s" if with_shutdown else "f", []]]
    ops += [["r", 70000, []] for _ in range(nframes_bound + 2)]
    return ops


def gen_stream(rng, heavy=False, tamper=False):
    """One direction of a session: writes, flushes, reads interleaved; optional single tampering;
    most cases end with a clean flush (or shutdown) and a drain."""
    ops = []
    nops = rng.range(3, 14) if not heavy else rng.range(3, 8)
    shut = False
    flushes = 0
    t_at = rng.range(1, nops - 1) if tamper else -1
    reads_before_t = rng.chance(3, 10)
    for k in range(nops):
        if k == t_at:
            if flushes == 0:
                ops.append(["w", rng.range(1, 200), []])
                ops.append(["f", []])
                flushes += 1
            if rng.chance(1, 2):
                ops.append(["f", []])
            ops.append(gen_tamper(rng, flushes))
            continue
        z = rng.below(100)
        if shut:
            z = 60 + z % 40 if z >= 8 else 50
        if tamper and k < t_at and not reads_before_t and z >= 60:
            z = 50 if shut else z % 50
        if z < 38:
            ops.append(["w", gen_wlen(rng, heavy), gen_wscript(rng)])
        elif z < 50:
            ops.append(["f", gen_wscript(rng)])
            flushes += 1
        elif z < 54:
            if z < 52 or shut:
                ops.append(["s", gen_wscript(rng)])
                shut = True
                flushes += 1
            else:
                ops.append(["f", []])
                flushes += 1
        elif z < 60:
            ops.append(["w", gen_wlen(rng, heavy), []])
            ops.append(["f", []])
            flushes += 1
        else:
            ops.append(["r", gen_rcap(rng, heavy), gen_rscript(rng)])
    closed = rng.chance(9, 10)
    if closed:
        nwrites = sum(1 for o in ops if o[0] in ("w", "f", "s"))
        ops += closing(nwrites, shut or rng.chance(1, 3))
    kind = "heavy" if heavy else (("tamper:" + [o for o in ops if o[0] == "t"][0][1]) if tamper else "light")
    return {"kind": "stream", "dir": rng.below(2), "salt": rng.below(1 << 30), "ops": ops, "class": kind,
            "closed": closed}


TKINDS = ["flipbody", "flipbody", "fliplen", "trunc", "trunc", "swap", "dup", "drop", "insert", "dropbyte",
          "addbyte"]


def gen_tamper(rng, nframes):
    k = rng.choice(TKINDS)
    i = rng.below(max(1, nframes))
    if k == "flipbody":
        r = rng.choice([0, 1, rng.below(70000), 65535 - rng.below(17)])
        return ["t", k, i, r, 1 << rng.below(8) if rng.chance(2, 3) else rng.range(1, 255)]
    if k == "fliplen":
        return ["t", k, i, rng.below(2), 1 << rng.below(8)]
    if k == "trunc":
        return ["t", k, i, rng.choice([0, 1, 2, 3, rng.below(400)]), 0]
    if k == "swap":
        j = rng.range(i + 1, i + 2)
        return ["t", k, i, j, 0]
    if k in ("dup", "drop"):
        return ["t", k, i, 0, 0]
    if k == "insert":
        return ["t", k, i, rng.choice([0, 1, 15, 16, 17, 40, rng.range(0, 300)]), rng.below(1 << 20)]
    if k == "dropbyte":
        return ["t", k, i, rng.below(400), 0]
    return ["t", k, i, rng.below(400), rng.below(256)]


def gen_buf(rng):
    cap = rng.choice([0, 1, 2, 3, 4, 8, 8, 16, 16, 33])
    ops = []
    for _ in range(rng.range(1, 14)):
        z = rng.below(100)
        room = rng.range(0, cap + 2)
        if z < 30:
            ops.append(["push", [rng.below(256) for _ in range(rng.choice([0, 1, 2, 3, room, cap + 3]))]])
        elif z < 42:
            ops.append(["wcap", rng.choice([0, 0, 1, 2, room]), [rng.below(256) for _ in range(rng.below(5))]])
        elif z < 55:
            ops.append(["ext", rng.choice([0, 1, 2, room])])
        elif z < 72:
            ops.append(["take", rng.choice([0, 1, 1, 2, 3, room])])
        elif z < 80:
            ops.append(["pre"])
        elif z < 87:
            ops.append(["setpre", rng.below(256), rng.below(256)])
        elif z < 94:
            ops.append(["shift"])
        else:
            ops.append(["reset"])
    return {"kind": "buf", "cap": cap, "ops": ops, "class": "buf"}


def corpus_cases():
    cs = []
    # boundary writes: exactly full payload buffer, one more, flush fragmentation, tamper of each kind
    cs.append({"kind": "stream", "dir": 0, "salt": 5, "class": "heavy", "closed": False,
               "ops": [["w", 131072, []], ["w", 70000, [3, -1]], ["w", 10, []], ["f", [100, 65000]],
                       ["r", 100000, [1, 1, 70000]], ["r", 10, []], ["r", 100000, []], ["r", 100000, []],
                       ["r", 100000, []]]})
    cs.append({"kind": "stream", "dir": 1, "salt": 9, "class": "heavy", "closed": True,
               "ops": [["w", 65518, []], ["w", 2, []], ["w", 1, [0]], ["w", 1, [-2]], ["w", 1, [-1]], ["w", 5, [7]],
                       ["w", 5, []]] + closing(4, True)})
    for (k, a, b, c) in [("flipbody", 1, 3, 1), ("flipbody", 0, 25, 128), ("fliplen", 1, 0, 1), ("fliplen", 0, 1, 64),
                         ("trunc", 1, 0, 0), ("trunc", 1, 1, 0), ("trunc", 2, 7, 0), ("swap", 0, 1, 0),
                         ("swap", 1, 2, 0), ("dup", 0, 0, 0), ("dup", 2, 0, 0), ("drop", 0, 0, 0), ("drop", 1, 0, 0),
                         ("insert", 1, 20, 77), ("insert", 0, 0, 1), ("dropbyte", 1, 4, 0), ("addbyte", 1, 9, 200)]:
        cs.append({"kind": "stream", "dir": 0, "salt": 1234, "class": "tamper:" + k, "closed": True,
                   "ops": [["w", 10, []], ["f", []], ["w", 20, []], ["f", []], ["w", 30, []], ["f", []],
                           ["t", k, a, b, c]] + closing(4, False)})
    cs.append({"kind": "buf", "cap": 8, "class": "buf",
               "ops": [["push", [1, 2, 3]], ["take", 1], ["shift"], ["ext", 2], ["pre"], ["setpre", 7, 8], ["ext", 9]]})
    path = os.path.join(common.CORPUS, "C13.json")
    if os.path.exists(path):
        cs += json.load(open(path))
    return cs


# ---------------------------------------------------------------------------
# observations

PANICS = [("assertion failed", 6), ("out of range", 3), ("out of bounds", 3), ("range end index", 3),
          ("range start index", 3), ("slice index", 3), ("overflow", 1), ("unwrap", 4), ("unreachable", 5)]


def panic_code(msg):
    for s, c in PANICS:
        if s in msg:
            return c
    return 99


def impl_obs(c, o):
    if c["kind"] == "buf":
        out = []
        for x in o["ops"]:
            out.append([3, panic_code(x["panic"])] if isinstance(x, dict) else x)
        return out
    ops = []
    for x in o["ops"]:
        if "panic" in x:
            ops.append([3, panic_code(x["panic"])])
        else:
            ops.append([x["res"], x["log"]])
    return [ops, o["frames"], o["trailing"]]


def nat(n):
    return f"(Z.to_nat {int(n)})"


def zl(xs):
    return coq_list([common.coq_z(x) for x in xs])


def coq_case(c):
    if c["kind"] == "buf":
        ops = []
        for o in c["ops"]:
            k = o[0]
            ops.append({"push": lambda: f"BPush {zl(o[1])}", "wcap": lambda: f"BWriteCap {nat(o[1])} {zl(o[2])}",
                        "ext": lambda: f"BExtend {nat(o[1])}", "take": lambda: f"BTake {nat(o[1])}",
                        "pre": lambda: "BPrefix", "setpre": lambda: f"BSetPrefix {o[1]} {o[2]}",
                        "shift": lambda: "BShift", "reset": lambda: "BReset"}[k]())
        return f"CaseBuf ({nat(c['cap'])}, {coq_list(ops)})"
    ops = []
    for o in c["ops"]:
        k = o[0]
        if k == "w":
            ops.append(f"CWrite {nat(o[1])} {zl(o[2])}")
        elif k == "f":
            ops.append(f"CFlush {zl(o[1])}")
        elif k == "s":
            ops.append(f"CShutdown {zl(o[1])}")
        elif k == "r":
            ops.append(f"CRead {nat(o[1])} {zl(o[2])}")
        else:
            t, a, b, x = o[1], o[2], o[3], o[4]
            ops.append("CTamper (" + {
                "flipbody": f"KFlipBody {nat(a)} {nat(b)} {x}", "fliplen": f"KFlipLen {nat(a)} {nat(b)} {x}",
                "trunc": f"KTrunc {nat(a)} {nat(b)}", "swap": f"KSwap {nat(a)} {nat(b)}", "dup": f"KDup {nat(a)}",
                "drop": f"KDrop {nat(a)}", "insert": f"KInsert {nat(a)} {nat(b)} {x}",
                "dropbyte": f"KDropByte {nat(a)} {nat(b)}", "addbyte": f"KAddByte {nat(a)} {nat(b)} {x}"}[t] + ")")
    return f"CaseStream ({nat(PC)}, {c['salt']}, {coq_list(ops)})"


# ---------------------------------------------------------------------------
# predicates: the statement of C13 evaluated on the implementation's behaviour alone

def predicate_stream(c, o):
    bad = []
    salt = c["salt"]
    accepted = 0
    delivered = bytearray()
    hist_len = 0
    consumed = 0
    failed_at = None          # index of the first read that reported InvalidData / end of stream
    tamper = None             # (op index, bound on deliverable bytes) of an effective tampering
    flushed = False
    drained = False
    frames = o["frames"]
    has_no_tamper = not any(op[0] == "t" for op in c["ops"])
    starts = []
    off = 0
    for L in frames:
        starts.append(off)
        off += 2 + L
    for idx, (op, x) in enumerate(zip(c["ops"], o["ops"])):
        if "panic" in x:
            bad.append({"op": idx, "failed": "panic in the stream: " + x["panic"]})
            break
        res, log = x["res"], x["log"]
        for e in log:
            if e[0] == 0:
                if e[1] > MAXFRAME:
                    bad.append({"op": idx, "failed": f"{e[1]} bytes offered to the transport at once (> max frame {MAXFRAME})"})
                if e[2] > 0:
                    hist_len += e[2]
            if e[0] == 3 and e[2] > 0:
                consumed += e[2]
        k = op[0]
        if k in ("w", "f", "s") and res[0] == 2:
            sc = op[2] if k == "w" else op[1]
            if res[1] == 4 or (res[1] == 1 and 0 not in sc) or (res[1] == 2 and not any(z < -1 for z in sc)):
                bad.append({"op": idx, "failed": f"writer failed (error class {res[1]}) although the transport did not"})
        if k == "r" and res[0] == 2 and has_no_tamper and (res[1] == 3 or (res[1] == 2 and not any(z < -1 for z in op[2]))):
            bad.append({"op": idx, "failed": f"reader failed (error class {res[1]}) on an untampered stream"})
        if k == "w":
            flushed = False if op[1] > 0 else flushed
            drained = False
            if res[0] == 0:
                n = res[1]
                if (n == 0) != (op[1] == 0) or n > op[1]:
                    bad.append({"op": idx, "failed": f"poll_write of {op[1]} bytes returned Ok({n})"})
                accepted += n
        elif k in ("f", "s"):
            flushed = res[0] == 0
            drained = False
        elif k == "r":
            if res[0] == 0:
                data = bytes.fromhex(x["data"] or "")
                if len(data) != res[1] or len(data) > op[1]:
                    bad.append({"op": idx, "failed": "poll_read filled more than the buffer / inconsistent length"})
                if data and failed_at is not None:
                    bad.append({"op": idx, "failed": f"plaintext delivered after the reader had failed / hit end of stream at op {failed_at}"})
                delivered += data
                if not data and op[1] > 0 and failed_at is None:
                    failed_at = idx
            elif res[0] == 2 and res[1] == 3 and failed_at is None:
                failed_at = idx
            drained = (res[0] == 1 and not op[2]) or (res[0] == 0 and res[1] == 0 and op[1] > 0)
        elif k == "t":
            i = op[2]
            inflight = res[1]
            if i < len(frames) and tamper is None:
                st, L = starts[i], frames[i]
                tk = op[1]
                eff = consumed <= st and st + 2 + L <= hist_len
                if tk in ("flipbody", "dropbyte", "addbyte") and L == 0:
                    eff = False
                if tk == "swap":
                    j = op[3]
                    eff = eff and j < len(frames) and i < j and starts[j] + 2 + frames[j] <= hist_len
                if tk == "trunc" and eff:
                    pass
                if eff:
                    upto = i + 1 if tk == "dup" else i
                    tamper = (idx, sum(max(0, f - AUTH) for f in frames[:upto]))
            drained = False
    n = len(delivered)
    exp = bytes(pat(salt, i) for i in range(n))
    if n > accepted:
        bad.append({"failed": f"{n} bytes delivered but only {accepted} accepted by poll_write (insertion/duplication)"})
    if bytes(delivered) != exp:
        d = next(i for i in range(n) if delivered[i] != exp[i])
        bad.append({"failed": f"delivered plaintext differs from the written stream at offset {d} (altered / reordered / duplicated)"})
    for L in frames:
        if L > MAXMSG or L - AUTH > PC:
            bad.append({"failed": f"frame of {L} bytes on the wire exceeds the 64 KiB protocol limit"})
    if sum(2 + L for L in frames) + o["trailing"] != o["wire_len"]:
        bad.append({"failed": "wire is not a sequence of length-delimited frames"})
    if tamper is not None and n > tamper[1]:
        bad.append({"failed": f"{n} bytes delivered although the ciphertext was tampered after {tamper[1]} plaintext bytes (op {tamper[0]})"})
    if tamper is None and not any(op[0] == "t" for op in c["ops"]) and flushed and drained and n != accepted:
        bad.append({"failed": f"writer flushed and reader drained, but {n} of {accepted} bytes were delivered (loss)"})
    if flushed and sum(max(0, f - AUTH) for f in frames) != accepted:
        bad.append({"failed": "after a successful flush the frames on the wire do not carry all accepted bytes"})
    if not o.get("same_session", True):
        bad.append({"failed": "handshake ended with different session ids"})
    return bad, {"accepted": accepted, "delivered": n, "frames": len(frames), "tamper_effective": tamper is not None,
                 "failed": failed_at is not None, "complete": flushed and drained and tamper is None}


def predicate_buf(c, o):
    """Reference semantics of a bounded byte window, independent of the Coq model."""
    bad = []
    cap = c["cap"]
    inner = [0] * cap
    b = e = 0
    for idx, (op, x) in enumerate(zip(c["ops"], o["ops"])):
        k = op[0]
        exp_panic = False
        extra = []
        if k == "push":
            n = min(cap - e, len(op[1]))
            inner[e:e + n] = op[1][:n]
            e += n
            extra = [n]
        elif k == "wcap":
            if op[1] + len(op[2]) > cap - e:
                exp_panic = True
            else:
                inner[e + op[1]:e + op[1] + len(op[2])] = op[2]
        elif k == "ext":
            if e + op[1] > cap:
                exp_panic = True
            else:
                e += op[1]
        elif k == "take":
            if b + op[1] > e:
                exp_panic = True
            else:
                b += op[1]
        elif k == "pre":
            if b + 2 > e:
                exp_panic = True
            else:
                extra = inner[b:b + 2]
        elif k == "setpre":
            if e + 2 > cap:
                exp_panic = True
            else:
                inner[e:e + 2] = [op[1], op[2]]
        elif k == "shift":
            inner[0:e - b] = inner[b:e]
            e -= b
            b = 0
        elif k == "reset":
            b = e = 0
        if isinstance(x, dict):
            if not exp_panic:
                bad.append({"op": idx, "failed": f"Buffer::{k} panicked inside its documented domain: {x['panic']}"})
            break
        if exp_panic:
            bad.append({"op": idx, "failed": f"Buffer::{k} outside its domain did not panic (invariant begin <= end <= cap lost)"})
            break
        if x != [0, e - b, cap - e, inner[b:e]] + extra:
            bad.append({"op": idx, "failed": f"Buffer::{k}: content/len/capacity {x} differ from the byte-window semantics {[0, e - b, cap - e, inner[b:e]] + extra}"})
            break
    return bad


# ---------------------------------------------------------------------------

def strip(o):
    """impl output without the bulky plaintext, for evidence / replay files."""
    if "frames" not in o:
        return o
    d = dict(o)
    d["ops"] = [{k: (v[:32] + "..." if k == "data" and isinstance(v, str) and len(v) > 32 else v) for k, v in x.items()}
                for x in o["ops"]]
    return d


def evaluate(cases, outs):
    pred_fail, stats = [], []
    for i, (c, o) in enumerate(zip(cases, outs)):
        if "crash" in o or "skipped" in o:
            raise common.MachineryError(f"harness crashed on case {i}: {o}")
        if c["kind"] == "buf":
            bad = predicate_buf(c, o)
            st = None
        else:
            bad, st = predicate_stream(c, o)
        stats.append(st)
        for b in bad:
            pred_fail.append({"case": c, "impl": strip(o), **b})
    return pred_fail, stats


def gen_cases(rng, n_light, n_heavy, n_tamper, n_buf):
    cases = []
    for _ in range(n_light):
        cases.append(gen_stream(rng))
    for _ in range(n_tamper):
        cases.append(gen_stream(rng, tamper=True))
    for _ in range(n_heavy):
        cases.append(gen_stream(rng, heavy=True, tamper=rng.chance(1, 5)))
    for _ in range(n_buf):
        cases.append(gen_buf(rng))
    return cases


def run(rep):
    tier, rng = rep.tier, Rng(rep.seed)
    cov = rep.cov
    broken = []
    # translator: the poll-based read / write paths of noise/stream.rs are outside the translated subset; they are pinned by
    # syntax hash (any change raises an alarm)
    import rust2coq
    translator, _gen = rust2coq.step(["pins_noise"], [], broken)
    po = common.proof_obligations(PROP_FILES)
    if not po["ok"]:
        broken.append("Coq obligations of Properties/C13.v: " + (po["log_tail"] or str(po["hygiene_problems"] or po["bad_axioms"])))
    ok, out = common.cargo_build(["noise"], "dev")
    if not ok:
        raise common.MachineryError("cargo build failed: " + out[-2000:])
    if tier == "quick":
        sizes = (260, 20, 140, 250)
    else:
        sizes = (6000, 400, 3500, 4000)
    cases = corpus_cases() + gen_cases(rng, *sizes)
    # heavy cases first so that the parallel shards finish together
    order = sorted(range(len(cases)), key=lambda i: 0 if cases[i].get("class") == "heavy" else 1)
    cases = [cases[i] for i in order]
    outs = common.run_impl("noise", cases, "dev")
    pred_fail, stats = evaluate(cases, outs)
    coq_cases = []
    for i, (c, o) in enumerate(zip(cases, outs)):
        coq_cases.append((i, coq_case(c), common.to_obsv(impl_obs(c, o))))
    heavy = [x for x in coq_cases if cases[x[0]].get("class") == "heavy"]
    light = [x for x in coq_cases if cases[x[0]].get("class") != "heavy"]
    sample_ids = [i for i, c in enumerate(cases) if c.get("class", "").startswith("tamper")][:2] + \
                 [i for i, c in enumerate(cases) if c.get("class") == "buf"][:1] + \
                 [i for i, c in enumerate(cases) if c.get("class") == "light"][:1]
    # spread the heavy cases over the shards; ~40 cases per shard keeps a coqc process near 1.5 GB
    nsh = max(1, (len(coq_cases) + 39) // 40)
    shards = [[] for _ in range(nsh)]
    for k, x in enumerate(heavy + light):
        shards[k % nsh].append(x)
    flat = [x for s in shards for x in s]
    try:
        mm, samp = common.run_model_cases("C13", "From EC Require Import Model.Noise.", "Model.Noise.run_case",
                                          flat, shard_size=(len(flat) + nsh - 1) // nsh, sample_ids=sample_ids,
                                          timeout=2400)
    except RuntimeError as e:
        raise common.MachineryError(str(e)[-1500:])
    if mm:
        broken.append(f"correspondence vh noise vs Model.Noise.run_case: {len(mm)} disagreeing cases")
    searched = 0
    if broken and not pred_fail:
        # bigger search with the predicates alone (no model)
        extra = gen_cases(rng.fork(), 1500, 40, 1500, 1500)
        eouts = common.run_impl("noise", extra, "dev")
        pred_fail, _ = evaluate(extra, eouts)
        searched = len(extra)
    if pred_fail:
        rep.violation("noise transport violates C13 on the implementation: " + pred_fail[0]["failed"],
                      {"failing_input": pred_fail[0], "more": [{k: v for k, v in p.items() if k != "impl"} for p in pred_fail[1:4]],
                       "broken": broken})
    elif broken:
        first = None
        if mm:
            i = sorted(mm)[0]
            first = {"case": cases[i], "impl": strip(outs[i]), "model_obs": mm[i]}
        rep.violation("C13 no longer shown to hold: " + "; ".join(broken)[:600],
                      {"broken": broken, "first_disagreement": first, "extra_cases_searched": searched},
                      found_input=False)
    kinds = {}
    for c in cases:
        kinds[c["class"]] = kinds.get(c["class"], 0) + 1
    sstats = [s for s in stats if s]
    distinct = set()
    for c, s in zip(cases, stats):
        if s is None:
            if len(c["ops"]) >= 2:
                distinct.add(json.dumps([c["cap"], c["ops"]]))
        elif s["frames"] >= 1 and any(o[0] == "r" for o in c["ops"]):
            distinct.add(json.dumps([c["salt"], c["ops"]]))
    nops = sum(len(c["ops"]) for c in cases)
    cov.update({
        "obligations": po["obligations"] + 1,
        "discharged": po["discharged"] + (0 if mm else 1),
        "checker_cmd": "make -C coq theories/Properties/C13.vo + coqc on generated cases_*.v (vm_compute of Model.Noise.run_case)",
        "trusted_base": common.standard_trusted_base([
            "H-AEAD: snow / ChaChaPoly enter the theorems as Section parameters enc/dec with dec n (enc n p) = Some p and |enc n p| = |p| + 16; authenticity is the premise `authentic` of C13_tamper_detected (only ciphertexts produced by the writer under nonce i decrypt under nonce i)",
            "in the correspondence the model runs a toy AEAD, the Rust side real ChaChaPoly: ciphertext bytes are not compared, only frame lengths/boundaries, inner transport calls, results and delivered plaintext",
            "scripted in-memory transport and the tampering functions exist twice (harness/src/bin/noise.rs, Model/Noise.v tamper_of)"]),
        "theorems": po["theorems"], "axioms": po["axioms"], "translator": translator,
        "evaluations": nops,
        "cases": len(cases),
        "distinct_nontrivial": len(distinct),
        "rule": "stream cases: 3-14 operations (poll_write of sizes {0,1,2,15,16,17,1..3000; heavy: 65518,65519,65520,131072,60000..70000}, poll_flush, poll_shutdown, poll_read with buffer sizes 0..100000), each with its own transport script over {Pending, error, accept/deliver k bytes: 0,1,2,3,16..19,1..400,65535..70000}; tamper cases apply one of {flip body/tag bit, flip length bit, truncate, swap, replay, drop frame, insert junk frame, drop byte, insert byte} to the bytes in flight; 90% end with a clean flush/shutdown + drain; both directions of the session; buffer cases: 1-14 random Buffer operations on capacities 0..33 incl. out-of-domain calls. evaluations = operations executed on both sides; non-trivial = distinct stream cases with >= 1 frame on the wire and >= 1 poll_read, plus distinct buffer cases with >= 2 operations",
        "input_distribution": {"classes": kinds,
                               "stream_cases_delivering_everything": sum(1 for s in sstats if s["complete"]),
                               "effective_tamperings": sum(1 for s in sstats if s["tamper_effective"]),
                               "reader_failed_or_eof": sum(1 for s in sstats if s["failed"]),
                               "plaintext_bytes_delivered": sum(s["delivered"] for s in sstats),
                               "frames_on_wire": sum(s["frames"] for s in sstats)},
        "samples": [{"case": cases[i], "impl": strip(outs[i]), "model_obs": samp.get(i)} for i in sample_ids],
        "correspondence_mismatches": len(mm), "predicate_failures": len(pred_fail),
        "partial": PARTIAL,
    })
    rep.assumptions += [
        "H-AEAD (dec n (enc n p) = Some p; |enc n p| = |p| + 16; authenticity as premise of the tamper theorem); snow/ChaChaPoly trusted",
        "the model is of the dev profile (debug assertions on); the nonce is the per-direction frame counter as in snow's CipherState",
    ]


PARTIAL = ("Proved in Coq for every operation list, transport script, write/read size and every tampering function: "
           "no panic and no fuel exhaustion, buffer sizes, poll_write result, frame bounds and in-order whole frames "
           "(nonce = frame index), delivered = prefix of accepted under the authenticity premise, and without tampering "
           "(correct AEAD only) prefix + equality after flush and drain. Not proved in Coq: that byte-level tamperings "
           "(bit flips, junk, truncation inside a frame) satisfy the authenticity premise - that is the integrity half of "
           "H-AEAD, a cryptographic assumption (C13_nonce_binding covers moved genuine frames abstractly); progress of the "
           "reader (that it eventually drains; that a full frame buffer is never mistaken for end of stream), stickiness of "
           "the decrypt error and end-of-stream on truncation inside a frame are checked by the correspondence and the "
           "predicates only; the release profile (debug assertions off) is not modelled; splice-from-another-session "
           "tampering is represented by junk-frame insertion only.")


def replay(path):
    d = json.load(open(path))
    fi = d.get("failing_input") or d.get("first_disagreement")
    if not fi:
        print("no concrete input in replay file:", d.get("broken"))
        return 1
    c = fi["case"]
    common.cargo_build(["noise"], "dev")
    o = common.run_impl("noise", [c], "dev")[0]
    print("impl:", json.dumps(strip(o)))
    if c["kind"] == "buf":
        print("predicate:", predicate_buf(c, o))
    else:
        print("predicate:", predicate_stream(c, o)[0])
    mm, samp = common.run_model_cases("C13", "From EC Require Import Model.Noise.", "Model.Noise.run_case",
                                      [(0, coq_case(c), common.to_obsv(impl_obs(c, o)))], sample_ids=[0])
    print("model:", samp.get(0))
    print("agree" if not mm else "DISAGREE")
    return 0
