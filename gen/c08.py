"""C08 — block store: theorems (Properties/C08.v) + correspondence (vh blockstore vs
Model.BlockStore.run_case) + predicates evaluated on the implementation's behaviour alone."""
import json
import os
import re
import common
from common import Rng

PROP_FILES = ["theories/Properties/C08.v", "theories/Properties/C08Epochs.v"]
CAP = 100
CORRUPT_FINAL = ["hash", "sig", "few", "genesis", "committee", "signers_len"]

PREAMBLE = """From EC Require Import Lib.Outcome Model.BlockStore.
Import ListNotations.
Open Scope Z_scope.
Definition Bk (n i k e s g : Z) : block :=
  {| bnum := n; bidx := i; bkd := if k =? 0 then KPre else KFinal; bepoch := e; bsched := s; bgood := (g =? 1) |}.
Definition St (f l : Z) : bss := {| bfirst := f; blast := if l <? 0 then None else Some l |}.
Definition Cf (cp fb : Z) : cfg := {| cap := Z.to_nat cp; first_block := fb; epochs := [(0, 0)] |}.
Definition Q := HQueue.
Definition Pl := HPoll.
"""


# ---------------------------------------------------------------------------
# labels: what the generator intends a block spec to be (independent of the model)

def spec_valid(spec, first_block):
    """Is this block one that the property allows into the store?"""
    if spec["kind"] == "pre":
        return spec["corrupt"] == "none" and spec["number"] < first_block
    return spec["corrupt"] == "none" and spec["epoch"] == 0


def signer_of(spec):
    return spec["signer"] if "signer" in spec else (1 if spec["corrupt"] == "committee" else 0)


def spec_coq(i, spec):
    k = 0 if spec["kind"] == "pre" else 1
    sched = signer_of(spec)
    good = 1 if spec["corrupt"] in ("none", "committee") else 0
    return "(Bk %d %d %d %d %d %d)" % (spec["number"], i, k, spec["epoch"], sched, good)


def st_coq(p):
    return "(St %d %s)" % (p[0], "(-1)" if p[1] is None else str(p[1]))


def case_coq(c):
    ops = []
    for o in c["ops"]:
        k = o["op"]
        if k == "queue":
            ops.append("Q %d %s" % (o["id"], spec_coq(o["b"], c["blocks"][o["b"]])))
        elif k == "poll":
            ops.append("Pl %d" % o["id"])
        elif k == "cancel":
            ops.append("HCancel %d" % o["id"])
        elif k == "persist":
            ops.append("HPersist [%s]" % "; ".join(st_coq(p) for p in o["ps"]))
        elif k == "gate":
            ops.append("HGate %s" % common.coq_z(o["k"]))
        elif k == "restart":
            ops.append("HRestart")
        elif k == "read":
            ops.append("HRead [%s]" % "; ".join(str(n) for n in o["ns"]))
    return "(Cf %d %d, %s, ([%s] : list hop))" % (c["cap"], c["first_block"], st_coq(c["init"]), "; ".join(ops))


def impl_obs(o):
    """Canonical observation (nested int lists) from one harness output line."""
    if not o.get("init"):
        return [0]
    res = [1]
    for op in o["ops"]:
        def st(s):
            return [int(s[0]), [] if s[1] is None else [int(s[1])]]
        reads = []
        for r in op["reads"]:
            n = int(r["n"])
            if r["code"] == 0:
                reads.append([n, 0])
            elif r["code"] == 1:
                reads.append([n, 1, r["idx"]])
            elif r["code"] == 2:
                reads.append([n, 2, int(r["num"])])
            else:
                reads.append([n, 3])
        res.append([op["res"], st(op["queued"]), st(op["persisted"]), int(op["head"]),
                    1 if op["alive"] else 0, [s["idx"] for s in op["submits"]], reads])
    return res


# ---------------------------------------------------------------------------
# predicates on the implementation's behaviour (never consult the model)

def predicate(c, o, valid=None):
    """Evaluates the statement of C08 on one run of the real code. Returns a list of failures.
    `valid` (dynamic-schedule cases): which block specs passed a legitimate verification."""
    bad = []
    if "panic" in o:
        return [{"failed": "the engine manager panicked: " + str(o["panic"])[:300]}]
    if "crash" in o:
        what = "hangs (no progress for 40 s)" if o.get("rc") == 3 else f"kills the process (rc {o.get('rc')})"
        return [{"failed": "the engine manager " + what + " on this input", "stderr": o.get("stderr", "")[-500:]}]
    if not o.get("init"):
        return bad
    fb = c["first_block"]
    if valid is None:
        valid = [spec_valid(s, fb) for s in c["blocks"]]
    acc = {}            # this incarnation: number -> block idx accepted under it
    prev_sub = None     # number of the previously submitted block (all incarnations)
    prev = None         # previous (qf, ql, qn, pf, pn)
    gate = -1           # permits of queue_next_block as scripted (-1 = unlimited)
    sub_hi = None       # highest number submitted in this incarnation
    for k, (op, out) in enumerate(zip(c["ops"], o["ops"])):
        if len(bad) > 8:
            break

        def fail(msg):
            bad.append({"failed": msg, "op_index": k, "op": op})
        restarted = op["op"] == "restart" and out["res"] == [1]
        if restarted:
            acc = {}
            prev = None
            sub_hi = None
        if op["op"] == "gate":
            gate = op["k"]
        qf = int(out["queued"][0]); ql = None if out["queued"][1] is None else int(out["queued"][1])
        pf = int(out["persisted"][0]); pl = None if out["persisted"][1] is None else int(out["persisted"][1])
        qn = qf if ql is None else ql + 1
        pn = pf if pl is None else pl + 1
        # range sanity
        if pn > qn:
            fail(f"persisted.next {pn} ahead of queued.next {qn}")
        if pf > qf:
            fail(f"queued.first {qf} below persisted.first {pf}")
        if prev is not None:
            (qf0, ql0, qn0, pf0, pn0) = prev
            if qn < qn0:
                fail(f"queued.next went back from {qn0} to {qn}: accepted blocks dropped")
            if qf > qf0 and qf > pf:
                fail(f"queued.first raised to {qf} above the durable first {pf}: blocks dropped without pruning")
        # submissions
        for s in out["submits"]:
            n = int(s["num"])
            if s["idx"] < 0 or not valid[s["idx"]]:
                fail(f"block handed to persistence is not a verified block: number {n} idx {s['idx']}")
            elif c["blocks"][s["idx"]]["number"] != n:
                fail(f"submitted block idx {s['idx']} under number {n}")
            if not (prev_sub is not None and n == prev_sub + 1) and n != int(s["env_next"]):
                fail(f"submitted block {n} follows neither the previous submission {prev_sub} nor the durable head+1 {s['env_next']}")
            if n in acc and acc[n] != s["idx"]:
                fail(f"block submitted for number {n} (idx {s['idx']}) differs from the one accepted (idx {acc[n]})")
            acc.setdefault(n, s["idx"])
            prev_sub = n
            sub_hi = n if sub_hi is None else max(sub_hi, n)
        # hand-over progress: with persistence accepting calls and the runner alive, every
        # accepted block that is not persisted has been handed over once the runtime is idle
        if gate == -1 and out["alive"] and ql is not None and qn > pn and sub_hi != ql:
            fail(f"accepted blocks up to {ql} are not handed to persistence (durable next {pn}, highest submitted {sub_hi})")
        # reads
        for r in out["reads"]:
            n = int(r["n"])
            inq = ql is not None and qf <= n <= ql
            if not inq:
                if r["code"] != 0:
                    fail(f"get_block({n}) answered outside the queued range [{qf},{ql}]")
                continue
            if r["code"] == 0:
                fail(f"get_block({n}) = None inside the queued range [{qf},{ql}]")
            elif r["code"] == 3:
                if out["alive"]:
                    fail(f"get_block({n}) failed inside the queued range [{qf},{ql}] (persisted [{pf},{pl}])")
            else:
                if int(r["num"]) != n:
                    fail(f"get_block({n}) returned block number {r['num']}")
                if r["code"] == 1:
                    if r["idx"] < 0 or not valid[r["idx"]]:
                        fail(f"store serves a block that was not verified: number {n} idx {r['idx']}")
                    if n in acc and acc[n] != r["idx"]:
                        fail(f"block stored under number {n} changed from idx {acc[n]} to idx {r['idx']}")
                    acc.setdefault(n, r["idx"])
                elif n >= pn and out["alive"]:
                    fail(f"get_block({n}) fell through to durable storage although {n} is not persisted (next {pn})")
        prev = (qf, ql, qn, pf, pn)
    return bad


# ---------------------------------------------------------------------------
# dynamic validator schedules: epoch map + updater task (Model/EpochSchedule.v)

PREAMBLE_DYN = PREAMBLE + """From EC Require Import Model.EpochSchedule.
Definition Dc (cp fb g : Z) : dcfg :=
  {| dcap := Z.to_nat cp; dfirst_block := fb; dgenesis_sched := if g <? 0 then None else Some g |}.
Definition Op (a b : Z) : option (Z * Z) := if a <? 0 then None else Some (a, b).
"""


def ste_coq(p):
    return "(%s, %d)" % (st_coq(p), p[2] if len(p) > 2 else 0)


def opt_pair_coq(p):
    return "(Op (-1) 0)" if p is None else "(Op %d %d)" % (p[0], p[1])


def dcase_coq(c):
    ops = []
    for o in c["ops"]:
        k = o["op"]
        if k == "queue":
            ops.append("DH (Q %d %s)" % (o["id"], spec_coq(o["b"], c["blocks"][o["b"]])))
        elif k == "poll":
            ops.append("DH (Pl %d)" % o["id"])
        elif k == "cancel":
            ops.append("DH (HCancel %d)" % o["id"])
        elif k == "persist":
            ops.append("DHPersist [%s]" % "; ".join(ste_coq(p) for p in o["ps"]))
        elif k == "gate":
            ops.append("DH (HGate %s)" % common.coq_z(o["k"]))
        elif k == "restart":
            ops.append("DH HRestart")
        elif k == "read":
            ops.append("DH (HRead [%s])" % "; ".join(str(n) for n in o["ns"]))
        elif k == "tick":
            ops.append("DHTick")
        elif k == "pending":
            ops.append("DHPending %s" % opt_pair_coq(o["p"]))
        elif k == "vs":
            ops.append("DHVs %d %d" % (o["p"][0], o["p"][1]))
        elif k == "vpayload":
            ops.append("DHVPayload %d %d" % (o["n"], o["e"]))
    dyn = c.get("dynamic", False)
    vs = c.get("vs") or [0, c["first_block"]]
    return "(Dc %d %d %s, %s, (%d, %d), %s, ([%s] : list dhop))" % (
        c["cap"], c["first_block"], "(-1)" if dyn else "0", ste_coq(c["init"]), vs[0], vs[1],
        opt_pair_coq(c.get("pending")), "; ".join(ops))


def nxt_of(p):
    return p[0] if p[1] is None else p[1] + 1


def dimpl_obs(c, o):
    """Observation of a run in the shape of Model.EpochSchedule.drun_case."""
    base = impl_obs(o)
    if base == [0]:
        return base
    dyn = c.get("dynamic", False)
    fb = c["first_block"]
    env = c["init"]
    waited = dyn and fb > 0 and nxt_of(env) < fb

    def calls(cs):
        return [[k, (-1 if (k == 1 and waited) else int(n))] for (k, n) in cs]

    def mp(m):
        return [[e, cid, int(a), [] if x is None else [int(x)]] for (e, cid, a, x) in m]
    res = [1, [calls(o["start"]["calls"]), mp(o["start"]["map"])]]
    for op, out, b in zip(c["ops"], o["ops"], base[1:]):
        if op["op"] == "persist":
            env = op["ps"][-1]
        if op["op"] == "restart" and out["res"] == [1]:
            waited = dyn and fb > 0 and nxt_of(env) < fb
        res.append([b, calls(out["calls"]), mp(out["map"]), out["vres"]])
    return res


def dyn_valid(c, o):
    """Which block specs passed a legitimate verification: checked against the schedule the real
    manager reported (validator_schedule(e)) just before the queue_block call. Returns (valid, failures,
    cross) where cross counts accepted blocks whose number lies outside the [activation, expiration]
    range of their certificate's epoch (queue_block does not check this; reported, not judged here)."""
    fb = c["first_block"]
    valid = [False] * len(c["blocks"])
    bad, cross = [], []
    if not o.get("init"):
        return valid, bad, cross
    cur = o["start"]["map"]
    for k, (op, out) in enumerate(zip(c["ops"], o["ops"])):
        if op["op"] == "queue":
            spec = c["blocks"][op["b"]]
            if spec["kind"] == "pre":
                legit = spec["corrupt"] == "none" and spec["number"] < fb
            else:
                ent = [m for m in cur if m[0] == spec["epoch"]]
                legit = spec["corrupt"] == "none" and len(ent) == 1 and ent[0][1] == signer_of(spec)
                if legit and out["res"] in ([0], [1]):
                    a, x = int(ent[0][2]), (None if ent[0][3] is None else int(ent[0][3]))
                    if spec["number"] < a or (x is not None and spec["number"] > x):
                        cross.append({"op_index": k, "number": spec["number"], "cert_epoch": spec["epoch"],
                                      "epoch_range": [a, x], "map": cur})
            if legit:
                valid[op["b"]] = True
            elif out["res"] in ([0], [1]):
                bad.append({"failed": f"queue_block accepted block {spec} that does not verify against the stored schedule of its epoch (map {cur})",
                            "op_index": k, "op": op})
        cur = out["map"]
    return valid, bad, cross


def map_predicate(c, o):
    """Epoch map: consecutive epochs, contiguous disjoint ranges, pruning only behind the durable head,
    verify_payload's epoch check agrees with the ranges. Engine answers of the generator are sane
    (pending activation above the head), so these must hold on every run."""
    bad = []
    if not o.get("init"):
        return bad

    def check(m, k, op):
        def fail(msg):
            bad.append({"failed": msg, "op_index": k, "op": op, "map": m})
        if len(m) > 3:
            fail("epoch map holds more than three schedules")
        for a, b in zip(m, m[1:]):
            if b[0] != a[0] + 1:
                fail(f"epochs {a[0]} and {b[0]} are not consecutive")
            if a[3] is None or int(a[3]) + 1 != int(b[2]):
                fail(f"epoch {a[0]} expires at {a[3]} but epoch {b[0]} activates at {b[2]}")
            if int(a[2]) >= int(b[2]):
                fail(f"activation of epoch {b[0]} not after that of epoch {a[0]}")
        if m and m[-1][3] is not None:
            fail(f"last epoch {m[-1][0]} has an expiration")
    check(o["start"]["map"], -1, None)
    cur = o["start"]["map"]
    for k, (op, out) in enumerate(zip(c["ops"], o["ops"])):
        if len(bad) > 6:
            break
        m = out["map"]
        check(m, k, op)
        if not (op["op"] == "restart" and out["res"] == [1]):
            for ent in cur:
                if all(x[0] != ent[0] for x in m):
                    head = int(out["head"])
                    if ent[3] is None or int(ent[3]) >= head:
                        bad.append({"failed": f"epoch {ent[0]} (range [{ent[2]},{ent[3]}]) pruned while the durable head is {head}",
                                    "op_index": k, "op": op})
        if op["op"] == "vpayload":
            n, e = op["n"], op["e"]
            holders = [x[0] for x in m if int(x[2]) <= n and (x[3] is None or n <= int(x[3]))]
            want = [0] if holders[:1] == [e] else [1]
            if out["vres"] != want:
                bad.append({"failed": f"verify_payload({n}, epoch {e}) answered {out['vres']} but the ranges say {want}",
                            "op_index": k, "op": op, "map": m})
        cur = m
    return bad


def gen_dyn_case(rng):
    """Dynamic schedule: genesis without validators_schedule; the engine's answers follow a 'true'
    epoch timeline chosen here; blocks are certified by the committee of their epoch, by a wrong
    committee, for an unknown epoch, or for a neighbouring epoch (number outside that epoch's range)."""
    base = rng.choice([0, 0, 0, 1 << 32])
    fb = base + rng.choice([0, 0, 3, 5])
    e0 = rng.choice([0, 0, 0, 1, 2, 5])
    # true timeline: epoch e0 + k activates at acts[k]; committee ids differ between neighbours
    acts = [fb]
    coms = [rng.below(3)]
    for _ in range(12):
        acts.append(acts[-1] + rng.range(2, 7))
        coms.append((coms[-1] + rng.range(1, 2)) % 3)

    def epoch_of(n):       # index into acts/coms
        k = 0
        while k + 1 < len(acts) and acts[k + 1] <= n:
            k += 1
        return k
    z = rng.below(10)
    wait = False
    if z < 5 or fb == base:
        init = [fb, None, 0] if z < 3 else None
        if init is None:
            h = fb + rng.below(6)
            init = [fb, h, e0 + epoch_of(h)]
    elif z < 8:
        a = base + rng.below(2)
        init = [a, None, 0] if rng.chance(1, 2) else [a, a + rng.below(max(1, fb - a - 1)), 0]
        if nxt_of(init) >= fb:
            init = [base, None, 0]
        wait = True
        e0 = 0
    else:
        h = fb + rng.range(3, 14)
        init = [fb + rng.below(3), h, e0 + epoch_of(h)]
    c = {"first_block": fb, "cap": CAP, "init": init, "blocks": [], "ops": [], "profile": "dynamic", "dynamic": True}
    index = {}

    def blk(kind, number, variant=0, epoch=0, corrupt="none", signer=0):
        key = (kind, number, variant, epoch, corrupt, signer)
        if key not in index:
            index[key] = len(c["blocks"])
            d = {"kind": kind, "number": number, "variant": variant, "epoch": epoch, "corrupt": corrupt}
            if kind == "final":
                d["signer"] = signer
            c["blocks"].append(d)
        return index[key]
    t = Tracker(init[:2])
    head0 = t.pn - 1 if init[1] is not None else fb
    k0 = 0 if wait else (epoch_of(init[1]) if init[1] is not None and init[1] >= fb else 0)
    if init[1] is None or init[1] < fb:
        e0 = 0 if True else e0
    # the generator's estimate of the updater: cur = index of the newest epoch in the map
    st = {"cur": k0, "running": not wait, "vs": None, "pending": None}
    c["vs"] = [coms[k0], acts[k0]]
    st["vs"] = list(c["vs"])
    c["pending"] = None
    st["pending"] = None
    ebase = (init[2] if (init[1] is not None and init[1] >= fb) else 0) - k0   # epoch number = ebase + index

    def est_tick():
        if not st["running"] or not t.alive:
            return
        head = t.pn - 1 if t.pn > 0 else 0
        if head > acts[st["cur"]] and st["pending"] is not None and st["cur"] + 2 < len(acts):
            st["cur"] += 1
    nid = [0]

    def queue(b):
        nid[0] += 1
        c["ops"].append({"op": "queue", "id": nid[0], "b": b})
        spec = c["blocks"][b]
        ok = spec["corrupt"] == "none" and (spec["kind"] == "pre" and spec["number"] < fb or spec["kind"] == "final")
        if ok:
            if spec["number"] <= t.qn:
                t.push(spec["number"])
            else:
                t.pending[nid[0]] = spec["number"]

    def good(n, variant=0):
        if n < fb:
            return blk("pre", n, variant)
        k = epoch_of(n)
        return blk("final", n, variant, ebase + k, "none", coms[k])

    def env_head():
        return t.env[1] if t.env[1] is not None else max(t.env[0] - 1, 0)

    def sane_pending(cur):
        # the engine's pending schedule activates after the head it is asked about
        k = cur + 1
        return [coms[k], acts[k]] if k < len(acts) and acts[k] > env_head() else None

    def set_pending():
        want = sane_pending(st["cur"])
        if want != st["pending"]:
            st["pending"] = want
            c["ops"].append({"op": "pending", "p": want})
    c["pending"] = sane_pending(k0) if rng.chance(5, 6) else None
    st["pending"] = c["pending"]
    if st["running"]:
        est_tick()
    nops = rng.range(15, 80)
    while len(c["ops"]) < nops:
        z = rng.below(100)
        if z < 34:
            queue(good(t.qn))
        elif z < 38:
            queue(good(t.qn + rng.range(1, 3)))
        elif z < 46:
            # certificate of a neighbouring epoch for this number (committee of that epoch signs)
            n = t.qn + rng.below(2)
            if n >= fb:
                k = epoch_of(n)
                k2 = max(0, k + rng.choice([-1, -1, 1, -2]))
                if k2 != k and k2 < len(acts):
                    queue(blk("final", n, 0, ebase + k2, "none", coms[k2]))
        elif z < 52:
            n = t.qn + rng.below(2)
            if n >= fb:
                k = epoch_of(n)
                y = rng.below(4)
                if y == 0:      # right epoch, wrong committee
                    queue(blk("final", n, 0, ebase + k, "none", (coms[k] + 1) % 3))
                elif y == 1:    # far future / far past epoch: not in the map
                    queue(blk("final", n, 0, ebase + k + rng.choice([3, 4, 9]), "none", coms[k]))
                elif y == 2:
                    queue(blk("final", n, 0, ebase + k, rng.choice(CORRUPT_FINAL[:4] + ["signers_len"]), coms[k]))
                else:
                    queue(blk("pre", n, 0, 0, "none"))
            else:
                queue(blk("pre", n, 0, 0, "bad"))
        elif z < 58:
            if t.pending:
                i = rng.choice(sorted(t.pending))
                c["ops"].append({"op": "poll", "id": i})
                if t.pending[i] <= t.qn:
                    t.push(t.pending[i])
                    del t.pending[i]
        elif z < 70:
            # durable range moves; the head's certificate carries the epoch of its number
            n = t.nxt(t.env)
            hi = max(n, t.qn)
            y = rng.below(10)
            if wait and not st["running"]:
                new_next = fb if rng.chance(2, 3) else rng.range(n, fb - 1) if fb - 1 >= n else fb
            elif y < 6:
                new_next = rng.range(n, hi)
            elif y < 8:
                new_next = hi + rng.range(1, 4)
            else:
                new_next = hi
            first = t.env[0]
            if rng.chance(1, 5):
                first = min(first + rng.range(1, 3), new_next)
            if new_next <= first:
                p = [max(first, new_next), None, 0]
            else:
                last = new_next - 1
                p = [first, last, (ebase + epoch_of(last)) if last >= fb else 0]
            t.persist(p[:2])
            c["ops"].append({"op": "persist", "ps": [p]})
            if st["pending"] is not None and st["pending"][1] <= env_head():
                st["pending"] = None      # no longer pending at this head
                c["ops"].append({"op": "pending", "p": None})
            if wait and not st["running"] and t.nxt(p) >= fb and t.alive:
                st["running"] = True
                est_tick()
            if p[1] is not None and p[1] >= fb:
                k = epoch_of(p[1])
                want = [coms[k], acts[k]]
                if want != st["vs"]:
                    st["vs"] = want
                    c["ops"].append({"op": "vs", "p": want})
        elif z < 86:
            set_pending()
            c["ops"].append({"op": "tick"})
            est_tick()
        elif z < 92:
            n = rng.choice([acts[st["cur"]], acts[st["cur"]] - 1, acts[min(st["cur"] + 1, len(acts) - 1)], t.qn, max(0, t.qn - 4)])
            k = epoch_of(max(n, fb))
            c["ops"].append({"op": "vpayload", "n": max(0, n), "e": max(0, ebase + k + rng.choice([0, 0, 0, -1, 1]))})
        elif z < 94:
            c["ops"].append({"op": "gate", "k": rng.choice([0, 1, -1, -1])})
        elif z < 97:
            if not (t.env[1] is not None and t.env[0] > t.env[1]):
                h = t.env[1]
                ncur = epoch_of(h) if h is not None and h >= fb else 0
                want = [coms[ncur], acts[ncur]]
                if want != st["vs"]:
                    st["vs"] = want
                    c["ops"].append({"op": "vs", "p": want})
                want = sane_pending(ncur)
                if want != st["pending"]:
                    st["pending"] = want
                    c["ops"].append({"op": "pending", "p": want})
                c["ops"].append({"op": "restart"})
                t.restart()
                if t.nxt(t.env) >= fb or fb == 0:
                    st["cur"] = ncur
                    st["running"] = True
                    wait = False
                    est_tick()
                else:
                    st["running"] = False
                    wait = True
                    st["cur"] = 0
        else:
            c["ops"].append({"op": "read", "ns": [max(0, t.qn - rng.range(0, 6)) for _ in range(2)]})
    return c


# ---------------------------------------------------------------------------
# generator (a light python tracker guides it towards enabled operations; it is not an oracle)

class Tracker:
    def __init__(self, init):
        self.env = list(init)
        self.pf, self.pn = init[0], self.nxt(init)
        self.qn = self.pn
        self.pending = {}
        self.alive = True
        self.gate = -1

    @staticmethod
    def nxt(p):
        return p[0] if p[1] is None else p[1] + 1

    def push(self, num):
        if num == self.qn:
            self.qn += 1

    def persist(self, p):
        self.env = list(p)
        if not self.alive:
            return
        if self.nxt(p) < self.pn:
            self.alive = False
            return
        self.pn, self.pf = self.nxt(p), p[0]
        if self.qn < self.pn:
            self.qn = self.pn

    def restart(self):
        if self.env[1] is not None and self.env[0] > self.env[1]:
            return
        self.pf, self.pn = self.env[0], self.nxt(self.env)
        self.qn = self.pn
        self.pending = {}
        self.alive = True


def gen_case(rng, profile):
    base = rng.choice([0, 0, 0, 0, 0, 0, 1 << 32, (1 << 63) - 500])
    fb = base + rng.choice([0, 0, 3, 3, 10, 40])
    z = rng.below(12)
    if profile == "backlog" and rng.chance(2, 3):
        # the boundary states of the durable range: nothing stored yet (at 0 / at first_block), one block stored
        base = rng.choice([0, 0, 0, 1 << 32])
        fb = base + rng.choice([0, 0, 0, 3])
        z = rng.choice([0, 0, 4, 6])
    if z < 4:
        init = [fb, None]
    elif z < 6:
        init = [base, None]
    elif z < 8:
        a = base + rng.below(8)
        init = [a, a + rng.below(12)]
    elif z < 9:
        init = [fb + rng.below(5), None]
    elif z < 10:
        a = base + rng.below(4)
        init = [a, a + 120 + rng.below(60)]
    elif z < 11:
        a = fb + rng.below(30)
        init = [a, a + rng.below(3)]
    else:
        a = base + 5 + rng.below(5)
        init = [a, a - 1 - rng.below(3)] if rng.chance(1, 2) else [a, a]
    c = {"first_block": fb, "cap": CAP, "init": init, "blocks": [], "ops": [], "profile": profile}
    index = {}

    def blk(kind, number, variant=0, epoch=0, corrupt="none"):
        key = (kind, number, variant, epoch, corrupt)
        if key not in index:
            index[key] = len(c["blocks"])
            c["blocks"].append({"kind": kind, "number": number, "variant": variant, "epoch": epoch, "corrupt": corrupt})
        return index[key]

    def good(number, variant=0):
        return blk("pre" if number < fb else "final", number, variant)

    t = Tracker(init)
    if init[1] is not None and init[0] > init[1]:
        # EngineManager::new rejects this durable state; a few ops are still sent (ignored)
        c["ops"] = []
        return c
    nid = [0]

    def queue(b):
        nid[0] += 1
        c["ops"].append({"op": "queue", "id": nid[0], "b": b})
        spec = c["blocks"][b]
        if spec_valid(spec, fb):
            if spec["number"] <= t.qn:
                t.push(spec["number"])
            else:
                t.pending[nid[0]] = spec["number"]

    def persist_choice():
        n = t.nxt(t.env)
        z = rng.below(20)
        first = t.env[0]
        if z < 8:      # completion: somewhere between durable next and queued next
            hi = max(n, t.qn)
            new_next = rng.range(n, hi) if rng.chance(3, 4) else hi
        elif z < 11:   # overtaking side-channel jump
            new_next = max(n, t.qn) + rng.range(1, 6)
        elif z < 12:   # far jump
            new_next = max(n, t.qn) + rng.range(90, 260)
        elif z < 13:   # regress (bail)
            new_next = max(first, n - rng.range(1, 3)) if rng.chance(1, 3) else n
        else:
            new_next = n
        if z >= 13 or rng.chance(1, 4):   # pruning
            y = rng.below(6)
            if y < 3:
                first = min(first + rng.range(1, 6), new_next)
            elif y < 4:
                first = new_next
            elif y < 5:
                first = max(first, new_next - rng.range(0, 3))
            else:
                first = max(0, first - rng.range(0, 2))   # backfill
        if new_next <= first:
            if rng.chance(1, 12) and first > 0:
                return [first, first - 1]      # malformed: empty range written with Some
            return [max(first, new_next), None]
        return [first, new_next - 1]

    if profile == "long":
        nops = rng.range(130, 260)
    elif profile == "backlog":
        # directed: more than CACHE_CAPACITY accepted blocks while the durable range does not move, then
        # every queued number (oldest first) is read back; then persistence catches up and they are read again
        if rng.chance(1, 3):
            c["ops"].append({"op": "gate", "k": rng.choice([0, 0, 1, 5])})
        start = t.qn
        for _ in range(CAP + rng.range(1, 40)):
            queue(good(t.qn))
            if rng.chance(1, 25):
                queue(good(t.qn + 1))            # parked, resumed by the next in-order block
        picks = [start, start + 1, start + rng.below(CAP), t.qn - CAP - 1, t.qn - CAP, t.qn - CAP + 1, t.qn - 1]
        c["ops"].append({"op": "read", "ns": [max(0, n) for n in picks]})
        if rng.chance(2, 3):
            c["ops"].append({"op": "gate", "k": -1})
            ps = [[t.env[0], rng.range(start, t.qn - 1)]]
            t.persist(ps[0])
            c["ops"].append({"op": "persist", "ps": ps})
            c["ops"].append({"op": "read", "ns": [max(0, n) for n in picks]})
        nops = len(c["ops"]) + rng.range(4, 30)
    else:
        nops = rng.range(8, 70)
    lag_mode = rng.below(4)   # 0: persistence follows closely, 1: lags, 2: gate closed a lot, 3: mixed
    quiet_until = rng.range(105, 125) if profile == "long" and rng.chance(2, 3) else 0
    while len(c["ops"]) < nops:
        z = rng.below(100)
        if profile == "long" and z < 55:
            z = 0
        if len(c["ops"]) < quiet_until and 81 <= z < 98 and not rng.chance(1, 40):
            z = 0     # let a backlog of more than CACHE_CAPACITY unpersisted blocks build up
        if z < 42:
            queue(good(t.qn))
        elif z < 50:
            queue(good(t.qn + rng.range(1, 4)))
        elif z < 54:
            back = rng.range(1, 6)
            if t.qn - back >= 0:
                queue(good(t.qn - back, rng.below(2)))
        elif z < 58:
            queue(good(t.qn + rng.below(2), 1 + rng.below(2)))
        elif z < 68:
            n = t.qn + rng.below(2)
            y = rng.below(10)
            if y < 5 and n >= fb:
                queue(blk("final", n, 0, 0, rng.choice(CORRUPT_FINAL)))
            elif y < 6:
                queue(blk("final", n, 0, rng.range(1, 2), "none"))
            elif y < 7 and n < fb:
                queue(blk("pre", n, 0, 0, "bad"))
            elif y < 8:
                queue(blk("pre", max(n, fb), 0, 0, "none"))     # external justification at/after genesis
            elif y < 9 and n < fb:
                queue(blk("final", n, 0, 0, "none"))            # certified block below first_block
            else:
                queue(blk("final", n, 0, 0, rng.choice(CORRUPT_FINAL)))
        elif z < 79:
            if t.pending:
                ready = [i for i, n in t.pending.items() if n <= t.qn]
                i = rng.choice(ready) if ready and rng.chance(4, 5) else rng.choice(sorted(t.pending))
                c["ops"].append({"op": "poll", "id": i})
                if t.pending[i] <= t.qn:
                    t.push(t.pending[i])
                    del t.pending[i]
            elif rng.chance(1, 6):
                c["ops"].append({"op": "poll", "id": rng.range(1, max(1, nid[0]))})
        elif z < 81:
            if t.pending:
                i = rng.choice(sorted(t.pending))
                del t.pending[i]
                c["ops"].append({"op": "cancel", "id": i})
        elif z < 81 + [14, 5, 8, 10][lag_mode]:
            ps = [persist_choice()]
            t.persist(ps[0])
            if rng.chance(1, 8):
                ps.append(persist_choice())
                # coalesced: only the last value is observed
                t.persist(ps[-1])
            c["ops"].append({"op": "persist", "ps": ps})
        elif z < 96:
            if lag_mode >= 2 or rng.chance(1, 3):
                k = rng.choice([0, 0, 1, 2, 5, -1, -1])
                c["ops"].append({"op": "gate", "k": k})
        elif z < 98:
            c["ops"].append({"op": "restart"})
            t.restart()
        else:
            c["ops"].append({"op": "read", "ns": [max(0, t.qn - rng.range(0, 130)) for _ in range(3)]})
    return c


OBSERVATIONS = (
    "Epoch range not checked by queue_block (observation, not a violation of C08): queue_block verifies a FinalV2 block's "
    "certificate against the schedule stored under the CERTIFICATE's epoch (b.epoch()) and never compares b.number() with "
    "that epoch's [activation, expiration] range. So while epoch e is still in epoch_schedule (until two later epochs have "
    "been inserted and the loop prunes it, i.e. activation(e+2) < durable head), a block whose number belongs to epoch e+1 "
    "(or later) is accepted through queue_block - from a peer or any caller - if it carries a valid certificate of epoch e's "
    "committee with view.epoch = e; symmetrically a number of epoch e's range is accepted with a certificate of the already "
    "inserted epoch e+1. The competing block of the right committee arriving later is silently dropped (number taken). "
    "verify_payload on the proposal path does check epoch_for_block(number) == epoch (theorem C08_verify_payload_epoch), so "
    "honest replicas do not vote for such a block. The safety of the epoch hand-over therefore rests on the engine contract "
    "rather than on the store: honest validators of epoch e must learn the pending schedule before block activation(e+1) is "
    "proposed (fetch_schedule_interval much smaller than the announcement lead time), and former committees must stay honest "
    "until their epoch is pruned. Witness on the model: theorem C08_epoch_range_not_checked; replay on the real code: "
    "corpus/C08-epoch-cross.json (run first on every check); the run counts such accepts in epoch_range_unchecked_accepts.")


def run_impl_all(cases):
    """run_impl, re-running the cases a dying harness process left behind."""
    outs = common.run_impl("blockstore", cases, "dev", timeout=1200)
    for _ in range(6):
        todo = [i for i, o in enumerate(outs) if "skipped" in o]
        if not todo:
            break
        for i, o in zip(todo, common.run_impl("blockstore", [cases[i] for i in todo], "dev", timeout=1200)):
            outs[i] = o
    return outs


def corpus_cases():
    out = []
    d = common.CORPUS
    if os.path.isdir(d):
        for f in sorted(os.listdir(d)):
            if f.startswith("C08") and f.endswith(".json"):
                j = json.load(open(os.path.join(d, f)))
                for c in (j if isinstance(j, list) else [j]):
                    c = dict(c)
                    c["profile"] = "corpus"
                    out.append(c)
    return out


# ---------------------------------------------------------------------------
# glue pins (runner.rs / bft block.rs): textual check of the two call sites

def glue_pins():
    problems = []
    src = open(os.path.join(common.REPO, "node/components/network/src/gossip/runner.rs")).read()
    m = re.search(r"let block = resp\.0\.context\(\"empty response\"\)\?;\s*"
                  r"anyhow::ensure!\(block\.number\(\) == req\.0, \"received wrong block\"\);"
                  r"(?:\s*//[^\n]*)*\s*self\.engine_manager\s*\.queue_block\(ctx, block\)", src)
    if not m:
        problems.append("gossip/runner.rs: fetched block is no longer checked against the requested number before queue_block")
    if len(re.findall(r"\.queue_block\(", src)) != 1:
        problems.append("gossip/runner.rs: number of queue_block call sites changed")
    src = open(os.path.join(common.REPO, "node/components/bft/src/v2_chonky_bft/block.rs")).read()
    m = re.search(r"block_proposal_cache\.get\(&commit_qc\.header\(\)\.number\).*?"
                  r"cache\.get\(&commit_qc\.header\(\)\.payload\).*?"
                  r"FinalBlock\s*\{\s*payload: payload\.clone\(\),\s*justification: commit_qc\.clone\(\),\s*\}.*?"
                  r"\.queue_block\(ctx, block\.clone\(\)\.into\(\)\)", src, re.S)
    if not m:
        problems.append("bft block.rs: save_block no longer builds the block from the payload cached under the certificate's hash")
    return problems


# ---------------------------------------------------------------------------

def features(c, o):
    """What a run exercised (measured on the implementation's output)."""
    f = set()
    if "crash" in o or "panic" in o:
        return {"died"}
    if not o.get("init"):
        return {"init_rejected"}
    pushed = 0
    for op, out in zip(c["ops"], o["ops"]):
        k = op["op"]
        if k in ("queue", "poll") and out["res"] == [1]:
            pushed += 1
        if k == "poll" and out["res"] == [1]:
            f.add("resumed_call")
        if k == "queue" and out["res"] == [0]:
            f.add("parked_call")
        if k == "queue" and out["res"][:1] == [2]:
            f.add("rejected_%d" % out["res"][1])
        if k == "restart" and out["res"] == [1]:
            f.add("restart")
        if not out["alive"]:
            f.add("runner_bailed")
        if out["submits"]:
            f.add("submitted")
        if any(r["code"] == 2 for r in out["reads"]):
            f.add("durable_read")
        ql, pl = out["queued"][1], out["persisted"][1]
        if ql is not None and pl is not None and int(ql) - int(pl) > CAP:
            f.add("backlog_over_cap")
    if pushed >= 3:
        f.add("pushed>=3")
    return f


def run(rep):
    tier, rng = rep.tier, Rng(rep.seed)
    cov = rep.cov
    broken = []
    # translator: BlockStoreState::{contains,head,next}, truncate_cache's loop condition and try_push's decision are
    # regenerated from block_store.rs; Properties/C08Gen.v proves them equal to Model/BlockStore.v
    import rust2coq
    translator, gen_files = rust2coq.step(["numbers", "block_store"], ["theories/Properties/C08Gen.v"], broken)
    po = common.proof_obligations(PROP_FILES + gen_files)
    if not po["ok"]:
        broken.append("Coq obligations of Properties/C08.v, C08Epochs.v" + (", C08Gen.v" if gen_files else "") + ": " + (po["log_tail"] or str(po["hygiene_problems"] or po["bad_axioms"])))
    pins = glue_pins()
    if pins:
        broken.append("glue: " + "; ".join(pins))
    ok, out = common.cargo_build(["blockstore"], "dev")
    if not ok:
        raise common.MachineryError("cargo build failed: " + out[-2000:])
    nshort, nlong = (150, 18) if tier == "quick" else (7000, 600)
    cases = corpus_cases()
    for i in range(10 if tier == "quick" else 300):
        cases.append(gen_case(rng.fork(), "backlog"))
    for i in range(nshort + nlong):
        cases.append(gen_case(rng.fork(), "long" if i % ((nshort + nlong) // nlong) == 0 else "short"))
    # dynamic validator schedules: epoch map + updater task driven by scripted engine answers and clock ticks
    for i in range(45 if tier == "quick" else 1800):
        cases.append(gen_dyn_case(rng.fork()))
    outs = run_impl_all(cases)
    coq_cases, dyn_cases, pred_fail, kinds, feats = [], [], [], {}, {}
    nontrivial = set()
    nops = 0
    npred_cases = 0
    cross_accepts, cross_sample = 0, None
    nstatic_via_dyn = 0
    for i, (c, o) in enumerate(zip(cases, outs)):
        if "skipped" in o:
            raise common.MachineryError(f"harness did not run case {i}")
        if c.get("dynamic"):
            if "panic" in o or "crash" in o:
                pf = predicate(c, o)
            else:
                valid, bad, cross = dyn_valid(c, o)
                pf = bad + predicate(c, o, valid) + map_predicate(c, o)
                cross_accepts += len(cross)
                if cross and cross_sample is None:
                    cross_sample = {"case_index": i, **cross[0]}
        else:
            pf = predicate(c, o)
        for b in pf[:3]:
            if len(pred_fail) < 40:
                pred_fail.append({"case": c, **b})
        if "panic" in o or pf:
            # already a violation with a concrete input; the model is not consulted for it
            npred_cases += 1
            continue
        if c.get("dynamic"):
            dyn_cases.append((i, dcase_coq(c), common.to_obsv(dimpl_obs(c, o))))
        else:
            coq_cases.append((i, case_coq(c), common.to_obsv(impl_obs(o))))
            if nstatic_via_dyn < (20 if tier == "quick" else 400) and len(c["ops"]) <= 80:
                # the static-schedule manager is also the dynamic model with a genesis schedule
                nstatic_via_dyn += 1
                dyn_cases.append((i, dcase_coq(c), common.to_obsv(dimpl_obs(c, o))))
        fs = features(c, o)
        for f in fs:
            feats[f] = feats.get(f, 0) + 1
        for op in c["ops"]:
            kinds[op["op"]] = kinds.get(op["op"], 0) + 1
        nops += len(c["ops"])
        if "pushed>=3" in fs and "submitted" in fs and len(fs) >= 4:
            nontrivial.add(json.dumps([c["first_block"], c["init"], c["ops"]], sort_keys=True))
    sample_ids = [i for i in range(len(cases)) if len(cases[i]["ops"]) <= 14][:3]
    mm, samp = {}, {}
    try:
        if coq_cases:
            mm, samp = common.run_model_cases("C08", PREAMBLE, "Model.BlockStore.run_case", coq_cases,
                                              shard_size=max(4, len(coq_cases) // 16 + 1) if tier == "quick" else 40,
                                              sample_ids=sample_ids, timeout=1500)
    except RuntimeError as e:
        if not pred_fail:
            raise common.MachineryError("model evaluation failed: " + str(e)[-1500:])
        broken.append("model evaluation failed: " + str(e)[-300:])
    if mm:
        broken.append(f"correspondence vh blockstore vs Model.BlockStore.run_case: {len(mm)} disagreeing cases")
    dmm = {}
    try:
        if dyn_cases:
            dmm, _ = common.run_model_cases("C08d", PREAMBLE_DYN, "Model.EpochSchedule.drun_case", dyn_cases,
                                            shard_size=max(4, len(dyn_cases) // 16 + 1) if tier == "quick" else 40,
                                            timeout=1500)
    except RuntimeError as e:
        if not pred_fail:
            raise common.MachineryError("model evaluation failed: " + str(e)[-1500:])
        broken.append("model evaluation failed: " + str(e)[-300:])
    if dmm:
        broken.append(f"correspondence vh blockstore vs Model.EpochSchedule.drun_case: {len(dmm)} disagreeing cases")
        if not mm:
            mm = dmm
    searched = 0
    if broken and not pred_fail:
        # violation search: a bigger run of the predicates on the implementation alone
        extra = [gen_dyn_case(rng.fork()) if i % 3 == 0 else gen_case(rng.fork(), "long" if i % 5 == 0 else "short")
                 for i in range(600 if tier == "quick" else 6000)]
        for c, o in zip(extra, run_impl_all(extra)):
            searched += 1
            if "skipped" in o:
                continue
            if c.get("dynamic") and "panic" not in o and "crash" not in o:
                valid, bad, _ = dyn_valid(c, o)
                pf = bad + predicate(c, o, valid) + map_predicate(c, o)
            else:
                pf = predicate(c, o)
            for b in pf:
                pred_fail.append({"case": c, **b})
            if pred_fail:
                break
    if pred_fail:
        rep.violation("block store violates C08 on the implementation: " + pred_fail[0]["failed"],
                      {"failing_input": pred_fail[0], "more": [{k: v for k, v in p.items() if k != "case"} for p in pred_fail[1:4]],
                       "broken": broken})
    elif broken:
        first = None
        if mm:
            i = sorted(mm)[0]
            first = {"case": cases[i], "impl": outs[i], "model_obs": mm[i]}
        rep.violation("C08 no longer shown to hold: " + "; ".join(broken)[:600],
                      {"broken": broken, "first_disagreement": first, "searched_cases": searched}, found_input=False)
    cov.update({
        "obligations": po["obligations"] + 3,
        "discharged": po["discharged"] + (0 if (mm and mm is not dmm) else 1) + (0 if dmm else 1) + (0 if pins else 1),
        "checker_cmd": "make -C coq theories/Properties/{C08,C08Epochs,C08Gen}.vo + coqc on generated cases_*.v (vm_compute of Model.BlockStore.run_case and Model.EpochSchedule.drun_case) + textual pin of the two queue_block call sites",
        "trusted_base": common.standard_trusted_base([
            "block verification is abstract in the model: the verdict of FinalBlock::verify / verify_pregenesis_block on the real signed object is compared with the label the generator gave the block (valid / kind of corruption)",
            "H-ATOM: closures of watch::Sender::send_if_modified run atomically; the harness polls queue_block futures in scripted order on a current_thread runtime, so the finer Wake/Push split of multi-threaded callers is covered by the theorems only",
            "H-ENG: the scripted EngineInterface of the harness (durable range watch, queue_next_block log with permits, scripted get_validator_schedule / get_pending_validator_schedule answers, ManualClock ticks of fetch_schedule_interval) stands for the execution layer; theorems assume published ranges are ranges and a pending schedule activates after the positive block it was asked about",
            "glue in gossip/runner.rs and bft block.rs is pinned textually, not executed",
        ] + translator["trusted"]),
        "theorems": po["theorems"], "axioms": po["axioms"],
        "translator": translator,
        "evaluations": len(coq_cases) + len(dyn_cases),
        "dynamic_schedule_cases": len(dyn_cases) - nstatic_via_dyn,
        "static_cases_also_run_through_dynamic_model": nstatic_via_dyn,
        "epoch_range_unchecked_accepts": cross_accepts,
        "epoch_range_unchecked_sample": cross_sample,
        "observations": OBSERVATIONS,
        "operations": nops,
        "distinct_nontrivial": len(nontrivial),
        "rule": "dynamic-schedule runs (genesis without validators_schedule; 15-80 ops): a true epoch timeline (epochs of 2-6 blocks, three committees) drives the scripted engine answers; ops additionally tick the updater's clock, change the pending / current schedule answers, publish durable heads carrying their epoch, call verify_payload around epoch boundaries, and queue blocks certified by the committee of their epoch, by a wrong committee, for an epoch not in the map, or by a neighbouring epoch's committee (number outside that epoch's range); restarts rebuild the map; a third of these start below first_block (pre-genesis wait). Static-schedule runs: operation lists (8-70 ops, every ~8th 130-260 ops to cross CACHE_CAPACITY) over the real EngineManager+runner: in-order / ahead (parked) / old / duplicate-variant / invalid queue_block calls (6 certificate corruptions, unknown epoch, bad or out-of-range external justification), explicit polls and cancels of parked calls, durable-range updates (completion, lagging, overtaking jumps, far jumps, pruning, backfill, regress, coalesced pairs, malformed), gated queue_next_block, restarts, reads; block numbers offset by 0 / 2^32 / 2^63-500. non-trivial = distinct op list in which >=3 blocks were accepted, >=1 submitted and >=2 further features (parked/resumed call, rejection, restart, durable read, backlog over capacity, runner bail) occurred, measured on the implementation's output",
        "input_distribution": {"op_kinds": kinds, "features_cases": feats, "cases": len(cases)},
        "samples": [{"case": cases[i], "impl": outs[i], "model_obs": samp.get(i)} for i in sample_ids],
        "correspondence_mismatches": len(mm) + (len(dmm) if dmm is not mm else 0), "predicate_failures": len(pred_fail), "cases_failing_predicates": npred_cases,
        "partial": "block-number / epoch-number overflow at 2^64-1 is out of scope; multi-threaded interleavings finer than one poll rely on H-ATOM; peer_block_number_checked is a textual pin; the updater task's read of block_store.persisted right after its pre-genesis wait races with the watcher task (stale or fresh head): the model takes the fresh value, the generator keeps the two readings equal in epoch and the head argument of that one get_validator_schedule call is not compared; execution-layer answers violating the engine contract (pending activation not after the head, activation 0 which makes the task panic on prev().unwrap()) are modelled but not generated",
    })
    rep.assumptions += ["H-ATOM", "H-ENG", "H-SIG (verdict of certificate verification taken from the real code, abstract in the model)"]


def replay(path):
    d = json.load(open(path))
    fi = d.get("failing_input") or d.get("first_disagreement")
    if not fi:
        print("no concrete input in replay file:", d.get("broken"))
        return 1
    c = fi["case"]
    common.cargo_build(["blockstore"], "dev")
    o = common.run_impl("blockstore", [c], "dev")[0]
    print(json.dumps({"case": c, "impl": o, "predicate": predicate(c, o)}, indent=1)[:20000])
    return 0
