"""C10 translator: inventory of potential panic sites in the anchored Rust files.

Extracts every `unwrap` / `expect` / `unreachable!` / `panic!` / `assert!` (incl. debug_assert!,
which is live in the dev profile) / `unimplemented!` / `todo!` / slice or vector indexing / integer
arithmetic site inside function bodies of the given files, keyed by
(file, enclosing impl::fn, kind, normalised source line).  The committed inventory
corpus/C10_inventory.json classifies each key; `compare` reports keys that are new (or changed)
and keys that disappeared.

This is a lexical extractor (comments and string literals are blanked first, `#[cfg(test)]`
items are skipped); it is deliberately over-approximate: a line that merely looks like
arithmetic is listed and has to be classified.
"""
import json
import os
import re

REPO_NODE = "/repo/node"

KINDS = [
    ("unwrap", re.compile(r"\.unwrap\(\)")),
    ("expect", re.compile(r"\.expect\(")),
    ("unreachable", re.compile(r"\bunreachable!")),
    ("panic", re.compile(r"\bpanic!")),
    ("assert", re.compile(r"\b(?:debug_)?assert(?:_eq|_ne)?!")),
    ("todo", re.compile(r"\b(?:todo|unimplemented)!")),
    # expr[...] : preceded by an identifier character, `)` or `]`
    ("index", re.compile(r"(?<![#!])(?<=[\w\)\]])\[")),
    # binary / compound integer operators as rustfmt prints them (spaces on both sides)
    ("arith", re.compile(r"(?<=\s)(?:\+|-|\*|/|%|<<|>>)=?(?=\s)")),
]


def blank_comments_and_strings(src):
    """Replaces comments and the contents of string / char literals by spaces (newlines kept)."""
    out = []
    i, n = 0, len(src)
    while i < n:
        c = src[i]
        if src.startswith("//", i):
            j = src.find("\n", i)
            j = n if j < 0 else j
            out.append(" " * (j - i))
            i = j
        elif src.startswith("/*", i):
            depth, j = 1, i + 2
            while j < n and depth:
                if src.startswith("/*", j):
                    depth += 1
                    j += 2
                elif src.startswith("*/", j):
                    depth -= 1
                    j += 2
                else:
                    j += 1
            out.append("".join(ch if ch == "\n" else " " for ch in src[i:j]))
            i = j
        elif c == '"' or (c == "r" and re.match(r'r#*"', src[i:])):
            if c == "r":
                m = re.match(r'r(#*)"', src[i:])
                hashes = m.group(1)
                start = i + len(m.group(0))
                end = src.find('"' + hashes, start)
                end = n if end < 0 else end
                out.append(src[i:start] + "".join(ch if ch == "\n" else " " for ch in src[start:end]) + '"' + hashes)
                i = end + 1 + len(hashes)
            else:
                j = i + 1
                while j < n and src[j] != '"':
                    j += 2 if src[j] == "\\" else 1
                out.append('"' + "".join(ch if ch == "\n" else " " for ch in src[i + 1:j]) + '"')
                i = j + 1
        elif c == "'":
            # char literal or lifetime
            m = re.match(r"'(?:\\.[^']*|[^'\\])'", src[i:])
            if m:
                out.append("' '" + " " * (len(m.group(0)) - 3))
                i += len(m.group(0))
            else:
                out.append(c)
                i += 1
        else:
            out.append(c)
            i += 1
    return "".join(out)


ITEM = re.compile(r"\b(fn)\s+(\w+)|\b(impl)\b|\b(mod)\s+(\w+)\s*\{|\b(trait)\s+(\w+)")


def strip_generics(hdr):
    """Drops a leading <...> parameter list (with nesting) and any where clause."""
    hdr = hdr.strip()
    if hdr.startswith("<"):
        d = 0
        for i, ch in enumerate(hdr):
            if ch == "<":
                d += 1
            elif ch == ">" and (i == 0 or hdr[i - 1] != "-"):
                d -= 1
                if d == 0:
                    hdr = hdr[i + 1:]
                    break
    hdr = re.split(r"\bwhere\b", hdr)[0]
    return re.sub(r"\s+", " ", hdr).strip()


def extract_file(path, rel):
    """Returns list of dicts {file, fn, kind, snippet} for one Rust file."""
    raw = open(path).read()
    raw_lines = raw.split("\n")
    src = blank_comments_and_strings(raw)
    lines = src.split("\n")
    sites = []
    stack = []             # (kind, name, depth_at_open, skip)
    depth = 0
    pending = None         # ("fn", name) | ("impl", header text so far): waiting for the body `{`
    pending_cfg_test = False
    paren = 0
    for ln, line in enumerate(lines, 1):
        stripped = line.strip()
        if re.match(r"#\[cfg\((?:all\()?test", stripped):
            pending_cfg_test = True
        in_fn_at_start = [s for s in stack if s[0] == "fn"]
        skip_at_start = any(s[3] for s in stack)
        col_body_start = 0 if (in_fn_at_start and not skip_at_start) else None
        qual_at_start = None
        if col_body_start is not None:
            impl_name = next((s[1] for s in reversed(stack) if s[0] == "impl"), "")
            qual_at_start = (impl_name + "::" if impl_name else "") + in_fn_at_start[0][1]
        i = 0
        while i < len(line):
            ch = line[i]
            if pending and pending[0] == "impl" and ch not in "{;":
                pending = ("impl", pending[1] + ch)
            word_start = ch in "fimt" and (i == 0 or not (line[i - 1].isalnum() or line[i - 1] == "_"))
            m = ITEM.match(line, i) if word_start else None
            if m and m.group(1) and not (pending and pending[0] == "impl"):
                pending = ("fn", m.group(2))
                i = m.end()
                continue
            if m and m.group(3) and paren == 0 and pending is None and not [s for s in stack if s[0] == "fn"]:
                pending = ("impl", "")
                i = m.end()
                continue
            if m and m.group(4):
                stack.append(("mod", m.group(5), depth, pending_cfg_test))
                pending_cfg_test = False
                depth += 1
                i = m.end()
                continue
            if m and m.group(6) and pending is None:
                pending = ("impl", "trait " + m.group(7) + " ")
                i = m.end()
                # skip the rest of the header up to `{`
                continue
            if ch == "(":
                paren += 1
            elif ch == ")":
                paren = max(0, paren - 1)
            elif ch == ";" and pending is not None and paren == 0:
                pending = None      # declaration without body
            elif ch == "{":
                if pending is not None and paren == 0:
                    if pending[0] == "fn":
                        stack.append(("fn", pending[1], depth, pending_cfg_test))
                        if col_body_start is None and not any(s[3] for s in stack):
                            col_body_start = i + 1
                            impl_name = next((s[1] for s in reversed(stack) if s[0] == "impl"), "")
                            outer = [s for s in stack if s[0] == "fn"][0][1]
                            qual_at_start = (impl_name + "::" if impl_name else "") + outer
                    else:
                        hdr = pending[1]
                        if hdr.startswith("trait "):
                            hdr = "trait " + re.split(r"[:<\s]", hdr[6:].strip())[0]
                        else:
                            hdr = strip_generics(hdr)
                        stack.append(("impl", hdr, depth, pending_cfg_test))
                    pending_cfg_test = False
                    pending = None
                depth += 1
            elif ch == "}":
                depth -= 1
                while stack and stack[-1][2] >= depth:
                    stack.pop()
            i += 1
        if col_body_start is None:
            continue
        text = line[col_body_start:]
        if not text.strip():
            continue
        snippet = re.sub(r"\s+", " ", raw_lines[ln - 1].strip())
        for kind, rx in KINDS:
            for _ in range(len(rx.findall(text))):
                sites.append({"file": rel, "fn": qual_at_start, "kind": kind, "snippet": snippet})
    return sites


def extract(files):
    sites = []
    for rel in files:
        if not rel.endswith(".rs"):
            continue
        p = rel if os.path.isabs(rel) else os.path.join("/repo", rel)
        if not os.path.exists(p):
            sites.append({"file": rel, "fn": "?", "kind": "missing-file", "snippet": ""})
            continue
        sites += extract_file(p, rel)
    return sites


def key(s):
    return (s["file"], s["fn"], s["kind"], s["snippet"])


def count_keys(sites):
    d = {}
    for s in sites:
        d[key(s)] = d.get(key(s), 0) + 1
    return d


def compare(sites, inventory):
    """inventory: list of entries with file, fn, kind, snippet, n, class, by.
    Returns (new, changed_count, stale, unclassified)."""
    cur = count_keys(sites)
    inv = {}
    for e in inventory:
        inv[key(e)] = e
    new = [dict(zip(("file", "fn", "kind", "snippet"), k), n=n) for k, n in sorted(cur.items()) if k not in inv]
    changed = [dict(zip(("file", "fn", "kind", "snippet"), k), n=n, inventory_n=inv[k].get("n", 1))
               for k, n in sorted(cur.items()) if k in inv and inv[k].get("n", 1) != n]
    stale = [e for k, e in sorted(inv.items()) if k not in cur]
    unclassified = [e for e in inventory if e.get("class") not in ("theorem", "unreachable", "out_of_model", "fuzzed")
                    or not e.get("by")]
    return new, changed, stale, unclassified


def anchored_files(prop="C10"):
    for line in open(os.path.join(os.path.dirname(os.path.dirname(os.path.abspath(__file__))), "properties.jsonl")):
        line = line.strip()
        if not line:
            continue
        d = json.loads(line)
        if d.get("id") == prop or d.get("property_id") == prop:
            a = d.get("anchors", {})
            return list(a.get("files", []))
    return []


if __name__ == "__main__":
    import sys
    files = anchored_files("C10")
    sites = extract(files)
    if len(sys.argv) > 1 and sys.argv[1] == "--dump":
        for k, n in sorted(count_keys(sites).items()):
            print(json.dumps({"file": k[0], "fn": k[1], "kind": k[2], "snippet": k[3], "n": n}))
    else:
        byk = {}
        for s in sites:
            byk[s["kind"]] = byk.get(s["kind"], 0) + 1
        print(len(sites), "sites", byk)
