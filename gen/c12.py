"""C12 — connections only for authenticated, expected, unique peers.

Theorems (Properties/C12.v) + correspondence of the real handshake functions (real noise sessions over
loopback TCP, the harness as adversary) and of the real PoolWatch with Model/Handshake.v and Model/Pool.v
+ predicates that evaluate the property statement on the implementation's behaviour alone + a source
check of the connection glue (which pool, which limits, handshake -> insert? -> run -> remove)."""
import json
import os
import re
import common
from common import Rng, coq_z, coq_list, coq_bool, coq_opt

PROP_FILES = ["theories/Properties/C12.v"]
BIN = "handshake"
P = 8          # keys per pool in the harness
GENS = 4
USIZE_MAX = (1 << 64) - 1
NETSRC = os.path.join(common.REPO, "node/components/network/src")

ERRS = {"GenesisMismatch": 1, "SessionIdMismatch": 2, "PeerMismatch": 3, "Signature": 4, "Stream": 5}


# ---------------------------------------------------------------------------
# generators

def gen_victim(rng, net, force_role=None):
    role = force_role or rng.choice(["in", "out"])
    v = {"role": role, "key": rng.below(P), "gen": 0 if rng.chance(4, 5) else rng.below(GENS)}
    if role == "out":
        v["peer"] = rng.below(P)
        if rng.chance(1, 12):
            v["peer"] = v["key"]          # a node dialling itself (loopback connection)
    if net == "g":
        v["statics"] = [k for k in range(P) if rng.chance(1, 4)]
    return v


def other(rng, x, n):
    if n <= 1:
        return x
    y = rng.below(n - 1)
    return y if y < x else y + 1


def weird_sid(rng, i, n):
    return rng.choice([1000 + rng.below(8), 2000 + i, 3000, 4000 + i, other(rng, i, n) if n > 1 else 1001])


def valid_spec(v, i, rng):
    k = v["peer"] if v["role"] == "out" else rng.below(P)
    return {"base": None, "sid": i, "key": k, "sig": {"k": k, "sid": i}, "gen": v["gen"], "static": rng.chance(1, 2)}


def gen_spec(rng, sess, i, emitted):
    """Returns (kind, spec) for the adversary's message to session i. `emitted` = sessions whose
    victim has (probably) emitted a message the adversary recorded."""
    n = len(sess)
    v = sess[i]
    others = [j for j in emitted if j != i]
    z = rng.below(100)
    if z < 14:
        return "valid", valid_spec(v, i, rng)
    if z < 26 and others:
        return "replay", {"base": rng.choice(others)}
    if z < 36 and others:
        # recorded elsewhere, session id field rewritten to this session's id
        s = {"base": rng.choice(others), "sid": i}
        if rng.chance(1, 2):
            s["gen"] = v["gen"]
        return "replay_sid_rewritten", s
    if z < 42 and others:
        # recorded elsewhere, re-signed by another key for this session
        k = rng.below(P)
        return "resigned", {"base": rng.choice(others), "sid": i, "key": k, "sig": {"k": k, "sid": i}}
    if z < 46 and i in emitted:
        return "reflect", {"base": i}
    if z < 54:
        s = valid_spec(v, i, rng)
        s["sig"] = {"k": other(rng, s["key"], P), "sid": i}
        return "signed_by_other_key", s
    if z < 62:
        s = valid_spec(v, i, rng)
        s["sig"] = {"k": s["key"], "sid": weird_sid(rng, i, n)}
        return "signature_for_other_session", s
    if z < 66:
        s = valid_spec(v, i, rng)
        s["sig"] = "bad"
        return "bad_signature", s
    if z < 72:
        s = valid_spec(v, i, rng)
        w = weird_sid(rng, i, n)
        s["sid"] = w
        if rng.chance(1, 2):
            s["sig"] = {"k": s["key"], "sid": w}
        return "other_session_id", s
    if z < 79:
        s = valid_spec(v, i, rng)
        s["gen"] = other(rng, v["gen"], GENS)
        return "other_chain", s
    if z < 85 and v["role"] == "out":
        s = valid_spec(v, i, rng)
        k = other(rng, v["peer"], P)
        s["key"] = k
        if rng.chance(2, 3):
            s["sig"] = {"k": k, "sid": i}
        return "unexpected_peer", s
    if z < 92:
        return "malformed", {"mal": rng.choice(["drop", "junk", "othernet", "oversize"])}
    # free mix of everything
    s = {"base": rng.choice(others) if others and rng.chance(1, 2) else None}
    full = s["base"] is None
    if full or rng.chance(1, 2):
        s["sid"] = i if rng.chance(2, 3) else weird_sid(rng, i, n)
    if full or rng.chance(1, 2):
        s["key"] = rng.below(P)
    if full or rng.chance(1, 2):
        s["sig"] = "bad" if rng.chance(1, 6) else {"k": rng.below(P), "sid": i if rng.chance(2, 3) else weird_sid(rng, i, n)}
    if full or rng.chance(1, 2):
        s["gen"] = rng.below(GENS) if rng.chance(1, 3) else v["gen"]
    if full or rng.chance(1, 2):
        s["static"] = rng.chance(1, 2)
    return "mixed", s


def gen_script(rng):
    net = rng.choice(["g", "c"])
    n = rng.range(1, 5)
    sess = [gen_victim(rng, net) for _ in range(n)]
    if n >= 2 and rng.chance(1, 3):
        # man-in-the-middle shape: 0 dials the key of 1, the adversary sits between
        sess[0] = gen_victim(rng, net, "out")
        sess[1] = gen_victim(rng, net, "in")
        sess[0]["peer"] = sess[1]["key"]
        sess[1]["gen"] = sess[0]["gen"]
    order = rng.shuffle(list(range(n)))
    emitted = [j for j in range(n) if sess[j]["role"] == "out"]
    sends, kinds = [], []
    for i in order:
        kind, spec = gen_spec(rng, sess, i, emitted)
        sends.append([i, spec])
        kinds.append(kind)
        if sess[i]["role"] == "in" and kind in ("valid", "resigned"):
            emitted.append(i)
    return {"t": "script", "net": net, "sessions": sess, "sends": sends, "kinds": kinds}


def corpus_cases():
    """Hand-written scenarios run first: relay through a man in the middle, replay, reflection."""
    cs = []
    for net in ("g", "c"):
        st = {"statics": []} if net == "g" else {}
        # A(1) dials B(2); adversary relays A's message into its own session with B, and B's answer back
        cs.append({"t": "script", "net": net, "kinds": ["relay", "relay_back"],
                   "sessions": [dict(role="out", key=1, gen=0, peer=2, **st), dict(role="in", key=2, gen=0, **st)],
                   "sends": [[1, {"base": 0}], [0, {"base": 1}]]})
        # relay with the id field rewritten, and B answering a legitimate adversary handshake first
        cs.append({"t": "script", "net": net, "kinds": ["valid", "replay_sid_rewritten", "replay"],
                   "sessions": [dict(role="out", key=1, gen=0, peer=2, **st), dict(role="in", key=2, gen=0, **st),
                                dict(role="in", key=3, gen=0, **st)],
                   "sends": [[1, {"base": None, "sid": 1, "key": 5, "sig": {"k": 5, "sid": 1}, "gen": 0, "static": False}],
                             [2, {"base": 0, "sid": 2}], [0, {"base": 1}]]})
        # reflection of a self-dial
        cs.append({"t": "script", "net": net, "kinds": ["reflect", "reflect"],
                   "sessions": [dict(role="out", key=4, gen=0, peer=4, **st), dict(role="out", key=4, gen=0, peer=5, **st)],
                   "sends": [[0, {"base": 0}], [1, {"base": 1}]]})
    return cs


def gen_pair(rng):
    net = rng.choice(["g", "c"])
    o = gen_victim(rng, net, "out")
    i = gen_victim(rng, net, "in")
    z = rng.below(10)
    if z < 6:
        o["peer"] = i["key"]
        i["gen"] = o["gen"]
        kind = "matching"
    elif z < 8:
        i["gen"] = o["gen"]
        kind = "peer?"
    else:
        o["peer"] = i["key"]
        kind = "genesis?"
    return {"t": "pair", "net": net, "out": o, "in": i, "kinds": [kind]}


def gen_pool(rng, glue):
    n = rng.range(1, P)
    shape = rng.choice(["validator", "gossip_out", "gossip_in", "free"])
    allowed = [k for k in range(n) if rng.chance(1, 2)]
    if shape == "validator":
        limit = glue["limits"].get("consensus_inbound", 0)
    elif shape == "gossip_out":
        limit = glue["limits"].get("gossip_outbound", 0)
    elif shape == "gossip_in":
        limit = rng.choice([0, 1, 2, 3, USIZE_MAX])
    else:
        limit = rng.choice([0, 1, 2, 5, 1 << 32, USIZE_MAX])
    if limit is None:
        limit = 0
    ops = []
    for _ in range(rng.range(1, 40)):
        k = rng.below(n)
        ops.append(["i" if rng.chance(3, 5) else "r", k])
    return {"t": "pool", "n": n, "allowed": allowed, "limit": str(limit), "ops": ops, "kinds": [shape]}


def gen_poolc(rng, glue):
    n = P
    shape = rng.choice(["validator", "gossip_in", "gossip_in", "gossip_out"])
    allowed = [k for k in range(n) if rng.chance(1, 2)]
    if shape == "validator":
        limit = glue["limits"].get("consensus_inbound", 0) or 0
    elif shape == "gossip_out":
        limit = glue["limits"].get("gossip_outbound", 0) or 0
    else:
        limit = rng.choice([0, 1, 2, 3])
    conns = []
    for _ in range(rng.range(4, 16)):
        conns.append({"key": rng.below(n), "pre": rng.below(4), "hold": rng.below(5), "rounds": rng.range(5, 40)})
    return {"t": "poolc", "n": n, "allowed": allowed, "limit": str(limit), "conns": conns, "workers": rng.range(2, 6),
            "kinds": [shape]}



def gen_glue(rng):
    """A real node (both directions of one network) driven by the adversary.  Inbound: peers connect
    (configured / non-configured / duplicate identity / over quota / replayed / forged / malformed).
    Outbound: the node's own run_outbound_stream dials the harness expecting a key and the other end
    (a) presents it, (b) presents another valid key, (c) replays a recorded handshake (the node's own
    message reflected, a message of another session), (d) drops mid-handshake or before the preface
    ends, (e) is dialled twice concurrently, (f) is connected inbound at the same time; the validator
    reconnect loop (maintain_connection) is run for several rounds.  Disconnects interleaved."""
    net = rng.choice(["g", "c"])
    key = rng.below(P)
    allowed = [k for k in range(P) if rng.chance(2, 5)]
    if net == "c" and not allowed:
        allowed = [rng.below(P)]
    limit = rng.choice([0, 1, 1, 2, 3]) if net == "g" else 0
    out_allowed = [k for k in range(P) if rng.chance(2, 5)] if net == "g" else list(allowed)
    events, kinds = [], []
    conns = []               # per connection: key it was (validly) answered/offered as, else None
    live_in, live_out = {}, {}
    nconn = [0]

    def good_spec(c, k):
        return {"base": None, "sid": c, "key": k, "sig": {"k": k, "sid": c}, "gen": 0, "static": rng.chance(1, 2)}

    def bad_spec(c, k, outbound):
        """returns (kind, spec)"""
        y = rng.below(8)
        recorded = [j for j in range(c) if conns[j] is not None]
        if y == 0 and recorded:
            return "replay_recorded", {"base": rng.choice(recorded)}
        if y == 1 and outbound:
            return "reflect_own_message", {"base": c}
        if y == 2 and c > 0:
            sp = good_spec(c, k); sp["sig"] = {"k": k, "sid": rng.below(c)}
            return "signature_for_other_connection", sp
        if y == 3:
            sp = good_spec(c, k); sp["gen"] = rng.range(1, GENS - 1)
            return "other_chain", sp
        if y == 4:
            sp = good_spec(c, k); sp["sig"] = "bad" if rng.chance(1, 2) else {"k": other(rng, k, P), "sid": c}
            return "bad_signature", sp
        if y == 5:
            return "drop_or_garbage", {"mal": rng.choice(["drop", "drop", "junk", "othernet", "oversize"])}
        if y == 6:
            sp = good_spec(c, k); sp["sid"] = rng.choice([1000 + rng.below(4), 2000 + c, 3000, 4000 + c])
            return "other_session_id", sp
        if recorded:
            return "replay_id_rewritten", {"base": rng.choice(recorded), "sid": c}
        return "drop_or_garbage", {"mal": "drop"}

    def in_ok(k):
        return k not in live_in.values() and (k in allowed or (net == "g" and len([x for x in live_in.values() if x not in allowed]) < limit))

    def pick_peer():
        z = rng.below(10)
        if z < 6 and out_allowed:
            return rng.choice(out_allowed)
        if z < 7:
            return key
        if z < 8 and live_in:
            return rng.choice(sorted(live_in.values()))          # (f) also connected inbound
        return rng.below(P)

    did_maintain = False
    for _ in range(rng.range(3, 14)):
        c = len(conns)
        z = rng.below(100)
        livec = sorted(set(live_in) | set(live_out))
        if z < 16 and livec:
            d = rng.choice(livec)
            events.append(["disc", d]); kinds.append("disconnect")
            live_in.pop(d, None); live_out.pop(d, None)
        elif z < 20 and conns:
            d = rng.below(len(conns))
            events.append(["disc", d]); kinds.append("disconnect_any")
            live_in.pop(d, None); live_out.pop(d, None)
        elif z < 48:
            # inbound
            y = rng.below(10)
            k = rng.below(P)
            kind = "in_connect"
            if y < 4 and allowed:
                k = rng.choice(allowed); kind = "in_configured"
            elif y < 6:
                non = [x for x in range(P) if x not in allowed]
                if non:
                    k = rng.choice(non); kind = "in_non_configured"
            elif y < 8 and live_in:
                k = rng.choice(sorted(live_in.values())); kind = "in_duplicate_identity"
            elif y < 9 and live_out:
                k = rng.choice(sorted(live_out.values())); kind = "in_while_connected_outbound"
            if rng.chance(3, 4):
                spec, good = good_spec(c, k), True
            else:
                (bk, spec), good = bad_spec(c, k, False), False
                kind = "in_" + bk
            events.append(["conn", spec]); kinds.append(kind)
            if good and in_ok(k):
                live_in[c] = k
            conns.append(k if good else None)
        elif z < 54:
            events.append(["dialdead", pick_peer()]); kinds.append("out_dial_nobody_answers")
            conns.append(None)
        elif z < 62:
            # (e) two concurrent dials of one peer
            p = pick_peer()
            sa = good_spec(c, p) if rng.chance(3, 4) else bad_spec(c, p, True)[1]
            if sa.get("base") == c + 1:
                sa = good_spec(c, p)
            conns.append(p)
            sb = good_spec(c + 1, p) if rng.chance(3, 4) else bad_spec(c + 1, p, True)[1]
            conns.append(p)
            events.append(["dial2", p, sa, sb]); kinds.append("out_dial_twice_concurrently")
            for (cc, sp) in ((c, sa), (c + 1, sb)):
                if sp.get("key") == p and sp.get("sig") == {"k": p, "sid": cc} and sp.get("gen") == 0 and sp.get("sid") == cc \
                        and p in out_allowed and p not in live_out.values():
                    live_out[cc] = p
        elif z < 70 and net == "c" and not did_maintain:
            # the reconnect loop of the validator network for one peer that has no outbound connection
            cand = [x for x in out_allowed if x != key and x not in live_out.values()]
            if not cand:
                continue
            p = rng.choice(cand)
            specs = []
            for r in range(rng.range(1, 4)):
                cc = len(conns)
                specs.append(good_spec(cc, p) if rng.chance(1, 2) else
                             (good_spec(cc, other(rng, p, P)) if rng.chance(1, 3) else bad_spec(cc, p, True)[1]))
                conns.append(p)
            events.append(["maintain", p, specs]); kinds.append("out_reconnect_loop")
            did_maintain = True
        else:
            # outbound dial
            p = pick_peer()
            y = rng.below(10)
            if y < 5:
                spec, kind = good_spec(c, p), "out_expected_key"
            elif y < 7:
                k2 = other(rng, p, P)
                spec, kind = good_spec(c, k2), "out_different_valid_key"
            else:
                bk, spec = bad_spec(c, p, True)
                kind = "out_" + bk
            if p in live_out.values():
                kind += "+already_connected"
            if p in live_in.values():
                kind += "+connected_inbound"
            if p not in out_allowed:
                kind += "+non_configured"
            events.append(["dial", p, spec]); kinds.append(kind)
            if kind.startswith("out_expected_key") and p in out_allowed and p not in live_out.values():
                live_out[c] = p
            conns.append(p)
    return {"t": "glue", "net": net, "key": key, "allowed": allowed, "limit": str(limit), "out_allowed": out_allowed,
            "events": events, "kinds": kinds}


def coq_gcase(c):
    net = c["net"]
    nc = ("{| nc_net := %s; nc_key := %d; nc_gen := 0; nc_in_allowed := %s; nc_in_limit := %s; nc_out_allowed := %s |}"
          % ("Gossip" if net == "g" else "Validator", c["key"], coq_list([str(k) for k in c["allowed"]]), c["limit"],
             coq_list([str(k) for k in c["out_allowed"]])))
    evs = []
    for e in c["events"]:
        if e[0] == "conn":
            evs.append(f"NConn {coq_spec(e[1])}")
        elif e[0] == "dial":
            evs.append(f"NDial {e[1]} {coq_spec(e[2])}")
        elif e[0] == "dial2":
            evs += [f"NDial {e[1]} {coq_spec(e[2])}", f"NDial {e[1]} {coq_spec(e[3])}"]
        elif e[0] == "dialdead":
            evs.append(f"NDialDead {e[1]}")
        elif e[0] == "maintain":
            n0 = model_conn_index(c, e)
            for r, sp in enumerate(e[2]):
                evs += [f"NDial {e[1]} {coq_spec(sp)}", f"NDisc {n0 + r}%nat"]
        else:
            evs.append(f"NDisc {e[1]}%nat")
    return f"({P}%nat, {nc}, {coq_list(evs)})"


def model_conn_index(c, ev):
    """index of the first connection opened by event `ev` of case c"""
    n = 0
    for e in c["events"]:
        if e is ev:
            return n
        n += {"conn": 1, "dial": 1, "dialdead": 1, "dial2": 2, "disc": 0}.get(e[0], 0)
        if e[0] == "maintain":
            n += len(e[2])
    raise ValueError("event not in case")


def _em(e):
    em = e.get("em")
    return [] if em is None else [[em[0], em[1], 1 if em[2] else 0, em[3], 1 if em[4] else 0]]


def glue_obs(c, o):
    net = c["net"]
    out = []
    for e in o["events"]:
        pin, pout = e["pools"][net], e["pools"]["go" if net == "g" else "co"]
        if e["ev"] == "conn":
            out.append([1 if e["responded"] else 0, 1 if e["live"] else 0, pin, pout])
        elif e["ev"] == "dial":
            out.append([_em(e), 1 if e["live"] else 0, pin, pout])
        elif e["ev"] == "dialdead":
            out.append([[], 0, pin, pout])
        else:
            out.append([0, 0, pin, pout])
    return out


def pred_glue(c, o):
    """The property on the executed glue alone.  Per direction the pool is exactly the identities of
    the live connections, each at most once; a connection is registered only after a handshake signed
    for its own session and chain — outbound additionally only under the key that was dialled and only
    for configured peers; quota / committee respected; the node signs only its own session ids; the
    other network's pools are untouched."""
    bad = []
    net, allowed, limit = c["net"], set(c["allowed"]), int(c["limit"])
    out_allowed = set(c["out_allowed"])
    live_in, live_out = {}, {}
    for t, e in enumerate(o["events"]):
        pin, pout = e["pools"][net], e["pools"]["go" if net == "g" else "co"]
        if e["ev"] in ("conn", "dial") and e["live"]:
            d = e.get("delivered")
            if d is None or d[0] != e["c"] or not d[2] or d[3] != 0:
                bad.append({"failed": f"connection {e['c']} was registered without a handshake signed for its own session and chain: {d}", "event": t})
            elif e["ev"] == "conn":
                live_in[e["c"]] = d[1]
            elif d[1] != e["peer"]:
                bad.append({"failed": f"outbound connection to {e['peer']} registered although the other end authenticated as {d[1]}", "event": t})
            else:
                live_out[e["c"]] = d[1]
        if e["ev"] == "dial":
            em = e.get("em")
            if e.get("no_dial"):
                bad.append({"failed": f"the reconnect loop did not dial the newly published address of {e['peer']}", "event": t})
            elif em is not None and (em[0] != e["c"] or em[1] != c["key"] or not em[2] or em[3] != 0):
                bad.append({"failed": f"the node's outbound handshake is not its own signature over its own session id and chain: {em}", "event": t})
            if e.get("endpoint_ok") is False:
                bad.append({"failed": "the node announced the wrong network in the preface", "event": t})
        if e["ev"] == "disc":
            live_in.pop(e["c"], None)
            live_out.pop(e["c"], None)
        for (name, live, pool) in (("inbound", live_in, pin), ("outbound", live_out, pout)):
            ids = sorted(live.values())
            if len(set(ids)) != len(ids):
                bad.append({"failed": f"an identity holds two live {name} connections at once: {ids}", "event": t})
            elif ids != pool:
                bad.append({"failed": f"{name} pool {pool} differs from the identities of the live {name} connections {ids}", "event": t})
        extra = [k for k in pin if k not in allowed]
        if net == "c" and extra:
            bad.append({"failed": f"validator inbound pool holds non-member {extra[0]} (committee {sorted(allowed)})", "event": t})
        if net == "g" and len(extra) > limit:
            bad.append({"failed": f"{len(extra)} non-configured gossip peers connected inbound, quota {limit}", "event": t})
        oextra = [k for k in pout if k not in out_allowed]
        if oextra:
            bad.append({"failed": f"outbound pool holds {oextra[0]}, which is not a configured peer {sorted(out_allowed)}", "event": t})
        others = [e["pools"][x] for x in (("c", "co") if net == "g" else ("g", "go"))]
        if others[0] or others[1]:
            bad.append({"failed": f"a connection was attributed to a pool of the other network: {e['pools']}", "event": t})
    return bad


# ---------------------------------------------------------------------------
# Coq terms

def coq_cfg(net, v):
    role = f"ROut {v['peer']}" if v["role"] == "out" else "RIn"
    return ("{| e_net := %s; e_key := %d; e_gen := %d; e_role := %s; e_statics := %s |}"
            % ("Gossip" if net == "g" else "Validator", v["key"], v["gen"], role,
               coq_list([str(k) for k in v.get("statics", [])])))


def coq_sig(s):
    if s is None:
        return "None"
    if isinstance(s, str):
        return "(Some SBad)"
    return f"(Some (SSig {s['k']} {s['sid']}))"


def coq_spec(spec):
    if "mal" in spec:
        return "AMalformed"
    b = spec.get("base")
    f = lambda name: coq_opt(None if spec.get(name) is None else str(spec[name]))
    st = spec.get("static")
    return ("(AMsg {| a_base := %s; a_sid := %s; a_key := %s; a_sig := %s; a_gen := %s; a_static := %s |})"
            % ("None" if b is None else f"(Some {b}%nat)", f("sid"), f("key"), coq_sig(spec.get("sig")), f("gen"),
               "None" if st is None else f"(Some {coq_bool(st)})"))


def coq_hcase(c):
    if c["t"] == "script":
        cfgs = coq_list([coq_cfg(c["net"], v) for v in c["sessions"]])
        sends = coq_list([f"({i}%nat, {coq_spec(s)})" for i, s in c["sends"]])
        return f"CScript ({cfgs}, {sends})"
    return f"CPair ({coq_cfg(c['net'], c['out'])}, {coq_cfg(c['net'], c['in'])})"


def coq_pcase(c):
    ops = coq_list([("PInsert %d" if o[0] == "i" else "PRemove %d") % o[1] for o in c["ops"]])
    return f"({c['n']}%nat, {coq_list([str(k) for k in c['allowed']])}, {c['limit']}, {ops})"


# ---------------------------------------------------------------------------
# observations of the implementation

def res_obs(r):
    if "ok" in r:
        return [0, r["ok"]]
    return [2, ERRS.get(r["err"], 99)]


def hs_obs(c, o):
    if c["t"] == "pair":
        return [res_obs(o["out"]), res_obs(o["in"])]
    out = []
    for s in o["sessions"]:
        r = [] if s["res"] is None else [res_obs(s["res"])]
        e = [] if s["em"] is None else [[s["em"][0], s["em"][1], 1 if s["em"][2] else 0, s["em"][3], 1 if s["em"][4] else 0]]
        out.append([r, e])
    return out


def pool_obs(o):
    out = []
    for s in o["steps"]:
        r = s["r"]
        if r == "ok":
            ro = [0]
        elif "err" in r:
            ro = [2, 1 if "already exists" in r["err"] else 2 if "limit exceeded" in r["err"] else 99]
        else:
            ro = [1, 1 if "overflow" in r["panic"] or "panic" in r["panic"] else 99]
        out.append([ro, s["cur"]])
    return out


# ---------------------------------------------------------------------------
# predicates: the property statement evaluated on the implementation's behaviour alone

def pred_script(c, o):
    bad = []
    if not o.get("sid_ok", True):
        bad.append({"failed": "session ids: the two ends of a session disagree, or two sessions share an id (H-SID fails on the real noise sessions)"})
    for i, (v, s) in enumerate(zip(c["sessions"], o["sessions"])):
        spec = next((sp for (j, sp) in c["sends"] if j == i), None)
        r, d, em = s["res"], s["delivered"], s["em"]
        if r and "ok" in r:
            K = r["ok"]
            what = None
            if d is None:
                what = f"connection attributed to key {K} although no handshake message was delivered"
            else:
                sid, key, sigok, gen, _ = d
                if sid != i:
                    what = f"accepted a handshake naming session {sid} on session {i} (transcript of another session)"
                elif not sigok:
                    what = f"accepted a handshake whose signature does not verify for key {key} over this session's id"
                elif key != K:
                    what = f"connection attributed to {K} but the signed identity is {key}"
                elif gen != v["gen"]:
                    what = f"accepted a peer of chain {gen}, own chain is {v['gen']}"
                elif v["role"] == "out" and K != v["peer"]:
                    what = f"outbound connection to {v['peer']} attributed to {K}"
            if what is None and spec is not None and spec.get("base") is not None and spec["base"] != i \
                    and spec.get("sig") is None:
                what = f"a transcript recorded on session {spec['base']} was accepted on session {i}"
            if what:
                bad.append({"failed": what, "session": i})
        # an honest end signs the id of its own session, under its own key, and an accepting end
        # answers only a peer it accepted
        if em is not None:
            if em[0] != i or em[1] != v["key"] or not em[2]:
                bad.append({"failed": f"victim of session {i} emitted a handshake not signed by itself over its own session id: {em}",
                            "session": i})
    return bad


def pred_pair(c, o):
    bad = []
    same = c["out"]["gen"] == c["in"]["gen"]
    exp = c["out"]["peer"] == c["in"]["key"]
    if "ok" in o["in"] and (o["in"]["ok"] != c["out"]["key"] or not same):
        bad.append({"failed": f"accepting end attributed the connection to {o['in']['ok']} (chains equal: {same})"})
    if "ok" in o["out"] and (o["out"]["ok"] != c["in"]["key"] or not same or not exp):
        bad.append({"failed": f"connecting end attributed the connection to {o['out']['ok']}, dialled {c['out']['peer']}"})
    if same and exp and not ("ok" in o["in"] and "ok" in o["out"]):
        bad.append({"failed": "two honest ends of one session, same chain, expected key: handshake did not complete"})
    return bad


def pred_pool(c, o):
    bad = []
    allowed, limit = set(c["allowed"]), int(c["limit"])
    cur = []
    for t, (op, s) in enumerate(zip(c["ops"], o["steps"])):
        new, r, k = s["cur"], s["r"], op[1]
        extras = len([x for x in new if x not in allowed])
        if len(set(new)) != len(new):
            bad.append({"failed": "duplicate identity in the pool", "step": t})
        if extras > limit:
            bad.append({"failed": f"{extras} non-configured peers in the pool, quota {limit}", "step": t})
        if isinstance(r, dict) and "panic" in r:
            bad.append({"failed": "pool operation panicked: " + r["panic"], "step": t})
        elif op[0] == "i":
            should_fail = k in cur or (k not in allowed and len([x for x in cur if x not in allowed]) >= limit)
            if r == "ok":
                if should_fail:
                    bad.append({"failed": f"insert of {k} succeeded although it is present or over quota", "step": t})
                if sorted(cur + [k]) != new:
                    bad.append({"failed": f"insert of {k} changed the pool to {new}", "step": t})
            else:
                if not should_fail:
                    bad.append({"failed": f"insert of {k} refused although absent and within quota", "step": t})
                if new != cur:
                    bad.append({"failed": f"failed insert changed the pool", "step": t})
        else:
            if new != [x for x in cur if x != k]:
                bad.append({"failed": f"remove of {k} gave {new} from {cur}", "step": t})
        cur = new
    return bad


# ---------------------------------------------------------------------------
# the connection glue, read from the source on every run

def _fn_body(src, name):
    m = re.search(r"fn\s+" + name + r"\b", src)
    if not m:
        return None
    i = src.index("{", m.end())
    depth, j = 0, i
    while j < len(src):
        if src[j] == "{":
            depth += 1
        elif src[j] == "}":
            depth -= 1
            if depth == 0:
                return src[i:j + 1]
        j += 1
    return None


def _norm(s):
    return re.sub(r"\s+", "", s)


def extract_glue():
    """Which pools exist with which allowed set / limit, and the order handshake -> insert? -> remove in
    the four run_*_stream functions. Returns {'problems': [...], 'limits': {...}, 'found': {...}}."""
    problems, limits, found = [], {}, {}
    try:
        cm = open(os.path.join(NETSRC, "consensus/mod.rs")).read()
        gm = open(os.path.join(NETSRC, "gossip/mod.rs")).read()
        gr = open(os.path.join(NETSRC, "gossip/runner.rs")).read()
    except OSError as e:
        return {"problems": [f"cannot read source: {e}"], "limits": {}, "found": {}}

    def pools(src, tag):
        for m in re.finditer(r"\b(inbound|outbound)\s*:\s*PoolWatch::new\s*\(", src):
            i, depth = m.end(), 1
            while depth:
                depth += {"(": 1, ")": -1}.get(src[i], 0)
                i += 1
            args = _norm(src[m.end():i - 1]).rstrip(",")
            # split at the last top-level comma
            d, cut = 0, None
            for p, ch in enumerate(args):
                d += {"(": 1, ")": -1}.get(ch, 0)
                if ch == "," and d == 0:
                    cut = p
            found[f"{tag}_{m.group(1)}"] = (args[:cut], args[cut + 1:]) if cut is not None else (args, "")

    pools(cm, "consensus")
    pools(gm, "gossip")
    expect = {
        "consensus_inbound": ("validators.clone()", "0"),
        "consensus_outbound": ("validators.clone()", "0"),
        "gossip_inbound": ("cfg.gossip.static_inbound.clone()", "cfg.gossip.dynamic_inbound_limit"),
        "gossip_outbound": ("cfg.gossip.static_outbound.keys().cloned().collect()", "0"),
    }
    for name, (ea, el) in expect.items():
        got = found.get(name)
        if got is None:
            problems.append(f"{name}: PoolWatch::new not found")
            continue
        if got[0] != ea:
            problems.append(f"{name}: allowed set is `{got[0]}`, model has `{ea}`")
        if got[1] != el:
            problems.append(f"{name}: extra_limit is `{got[1]}`, model has `{el}`")
        if re.fullmatch(r"\d+(usize)?", got[1]):
            limits[name] = int(re.match(r"\d+", got[1]).group(0))
        elif got[1] == "cfg.gossip.dynamic_inbound_limit":
            limits[name] = None
    if "validator_schedule()" not in _norm(cm) or not re.search(
            r"letvalidators:HashSet<_>=gossip\.validator_schedule\(\)\?.*?\.keys\(\)\.cloned\(\)\.collect\(\);", _norm(cm), re.S):
        problems.append("consensus::Network::new: `validators` is no longer the key set of the validator schedule")
    for (src, fn, direction, hs, keyexpr, tag) in [
            (cm, "run_inbound_stream", "inbound", "handshake::inbound(", "peer", "consensus"),
            (cm, "run_outbound_stream", "outbound", "handshake::outbound(", "peer", "consensus"),
            (gr, "run_inbound_stream", "inbound", "handshake::inbound(", "conn.key", "gossip"),
            (gr, "run_outbound_stream", "outbound", "handshake::outbound(", "peer", "gossip")]:
        body = _fn_body(src, fn)
        nm = f"{tag}::{fn}"
        if body is None:
            problems.append(f"{nm}: not found")
            continue
        b = _norm(body)
        ih = b.find(hs)
        mi = re.search(r"self\.(inbound|outbound)\.insert\((&?[\w.]+?)(\.clone\(\))?,.*?\)\.await(\?)?;", b)
        mr = re.search(r"self\.(inbound|outbound)\.remove\((&?[\w.]+?)\)\.await;", b)
        if ih < 0 or not mi or not mr:
            problems.append(f"{nm}: handshake / insert / remove not recognised")
            continue
        if not (ih < mi.start() < mr.start()):
            problems.append(f"{nm}: order is not handshake, insert, remove")
        if mi.group(1) != direction or mr.group(1) != direction:
            problems.append(f"{nm}: uses pool `{mi.group(1)}`/`{mr.group(1)}`, expected `{direction}`")
        if mi.group(4) != "?":
            problems.append(f"{nm}: a failed insert does not end the connection")
        if mi.group(2).lstrip("&") != keyexpr or mr.group(2).lstrip("&") != keyexpr:
            problems.append(f"{nm}: inserts `{mi.group(2)}` / removes `{mr.group(2)}`, expected `{keyexpr}`")
        hs_stmt = b[ih:b.find(";", ih)]
        if not hs_stmt.endswith(".await?"):
            problems.append(f"{nm}: a failed handshake does not end the connection")
    return {"problems": problems, "limits": limits, "found": {k: list(v) for k, v in found.items()}}


# ---------------------------------------------------------------------------

def members_only_search(rng, glue, n_cases):
    """Predicate search for the validator pools with the limit found in the source: only committee
    members may ever be in the pool."""
    lim = glue["limits"].get("consensus_inbound", 0) or 0
    lim = max(lim, glue["limits"].get("consensus_outbound", 0) or 0)
    cases = []
    for _ in range(n_cases):
        n = rng.range(2, P)
        committee = [k for k in range(n) if rng.chance(1, 2)]
        ops = [["i" if rng.chance(3, 4) else "r", rng.below(n)] for _ in range(rng.range(1, 12))]
        cases.append({"t": "pool", "n": n, "allowed": committee, "limit": str(lim), "ops": ops})
    outs = common.run_impl(BIN, cases, "dev")
    for c, o in zip(cases, outs):
        for t, s in enumerate(o.get("steps", [])):
            extra = [k for k in s["cur"] if k not in c["allowed"]]
            if extra:
                return {"case": c, "step": t, "pool": s["cur"],
                        "failed": f"validator pool (committee {c['allowed']}, extra_limit {lim} as in the source) holds non-member {extra[0]}"}
    return None


def _plain(x):
    """model observation as parsed from coqc output -> nested lists of ints"""
    if isinstance(x, (list, tuple)):
        return [_plain(y) for y in x]
    return x


def run(rep):
    tier, rng = rep.tier, Rng(rep.seed)
    cov = rep.cov
    broken = []
    # translator: PoolWatch insert/remove, the four handshake decisions and the admission glue are regenerated from the source; Properties/C12Gen.v proves them equal to Model/Pool.v, Model/Handshake.v
    import rust2coq
    translator, gen_files = rust2coq.step(["pool", "handshake_gossip", "handshake_consensus", "admission"], ["theories/Properties/C12Gen.v"], broken)
    po = common.proof_obligations(PROP_FILES + gen_files)
    if not po["ok"]:
        broken.append("Coq obligations of Properties/C12.v: " + (po["log_tail"] or str(po["hygiene_problems"] or po["bad_axioms"])))
    ok, out = common.cargo_build([BIN], "dev")
    if not ok:
        raise common.MachineryError("cargo build failed: " + out[-2000:])
    glue = extract_glue()

    n_script, n_pair, n_pool, n_poolc = (1000, 150, 400, 30) if tier == "quick" else (25000, 3000, 10000, 500)
    hs_cases = corpus_cases()
    g1, g2, g3, g4 = rng.fork(), rng.fork(), rng.fork(), rng.fork()
    hs_cases += [gen_script(g1) for _ in range(n_script)]
    hs_cases += [gen_pair(g2) for _ in range(n_pair)]
    pool_cases = [gen_pool(g3, glue) for _ in range(n_pool)]
    poolc_cases = [gen_poolc(g4, glue) for _ in range(n_poolc)]
    g5 = rng.fork()
    glue_cases = [gen_glue(g5) for _ in range(300 if tier == "quick" else 4000)]

    strip = lambda c: {k: v for k, v in c.items() if k != "kinds"}
    hs_outs = common.run_impl(BIN, [strip(c) for c in hs_cases], "dev")
    pool_outs = common.run_impl(BIN, [strip(c) for c in pool_cases], "dev")
    poolc_outs = common.run_impl(BIN, [strip(c) for c in poolc_cases], "dev", shards=4)
    glue_outs = common.run_impl(BIN, [strip(c) for c in glue_cases], "dev", timeout=600)
    # a connection task that did not end in time (watchdog) is retried alone before it counts
    for i in [i for i, o in enumerate(glue_outs) if o.get("stuck")][:4]:
        glue_outs[i] = common.run_impl(BIN, [strip(glue_cases[i])], "dev", timeout=120)[0]
    for name, cs, os_ in (("handshake", hs_cases, hs_outs), ("pool", pool_cases, pool_outs), ("poolc", poolc_cases, poolc_outs),
                          ("glue", glue_cases, glue_outs)):
        for i, o in enumerate(os_):
            if "crash" in o or "skipped" in o:
                raise common.MachineryError(f"harness crashed on {name} case {i}: {o} :: {json.dumps(strip(cs[i]))[:600]}")

    pred_fail, kinds, results = [], {}, {}
    dist_hs, dist_pool = set(), set()
    evals = 0
    coq_hs, coq_pool = [], []
    for i, (c, o) in enumerate(zip(hs_cases, hs_outs)):
        for k in c["kinds"]:
            kinds[k] = kinds.get(k, 0) + 1
        coq_hs.append((i, coq_hcase(c), common.to_obsv(hs_obs(c, o))))
        if c["t"] == "script":
            for (j, spec), kind in zip(c["sends"], c["kinds"]):
                evals += 1
                s = o["sessions"][j]
                r = s["res"]
                key = "Ok" if r and "ok" in r else (r or {}).get("err", "none")
                results[key] = results.get(key, 0) + 1
                if s["delivered"] is not None:
                    v = c["sessions"][j]
                    dist_hs.add((c["net"], v["role"], v["key"], v["gen"], v.get("peer"), json.dumps(s["delivered"]), j))
        else:
            evals += 2
            dist_hs.add((c["net"], json.dumps(c["out"]), json.dumps(c["in"])))
    for i, (c, o) in enumerate(zip(pool_cases, pool_outs)):
        kinds["pool:" + c["kinds"][0]] = kinds.get("pool:" + c["kinds"][0], 0) + 1
        coq_pool.append((i, coq_pcase(c), common.to_obsv(pool_obs(o))))
        evals += len(c["ops"])
        cur = ()
        for op, s in zip(c["ops"], o["steps"]):
            dist_pool.add((tuple(c["allowed"]), c["limit"], cur, tuple(op)))
            cur = tuple(s["cur"])
        for b in pred_pool(c, o):
            pred_fail.append({"case": strip(c), **b})
    coq_glue, glue_events, dist_glue = [], 0, set()
    for i, (c, o) in enumerate(zip(glue_cases, glue_outs)):
        for k in c["kinds"]:
            kinds["glue:" + k] = kinds.get("glue:" + k, 0) + 1
        if o.get("stuck"):
            pred_fail.append({"case": strip(c), "impl": o,
                              "failed": "a connection task of the node did not end within 8 s after the peer closed the stream (twice)"})
            continue
        coq_glue.append((i, coq_gcase(c), common.to_obsv(glue_obs(c, o))))
        glue_events += len(o["events"])
        before = ()
        for e, ev in zip(o["events"], c["events"]):
            dist_glue.add((c["net"], tuple(c["allowed"]), c["limit"], tuple(c["out_allowed"]), before, e["ev"], e.get("peer"),
                           tuple(e["pools"]["go" if c["net"] == "g" else "co"]), json.dumps(e.get("delivered")),
                           e.get("live"), ev[1] if ev[0] == "disc" else None))
            before = tuple(e["pools"][c["net"]])
    conc_ops = 0
    for c, o in zip(poolc_cases, poolc_outs):
        kinds["poolc:" + c["kinds"][0]] = kinds.get("poolc:" + c["kinds"][0], 0) + 1
        conc_ops += o["inserted"] + o["rej_exists"] + o["rej_limit"]
        what = None
        if o["violations"]:
            what = o["violations"][0]
        elif o["panics"]:
            what = "pool operation panicked under concurrency: " + o["panics"][0]
        elif o["final"]:
            what = f"pool not empty after every connection ended: {o['final']}"
        elif o["rej_other"]:
            what = "insert failed for an unknown reason"
        if what:
            pred_fail.append({"case": strip(c), "impl": o, "failed": what})

    sample_ids = [0, 1, 4, len(corpus_cases()) + 2, len(hs_cases) - 1]
    mm_hs, samp = common.run_model_cases("C12", "From EC Require Import Model.Handshake.", "Model.Handshake.run_case",
                                         coq_hs, shard_size=120, sample_ids=sample_ids)
    mm_pool, samp_pool = common.run_model_cases("C12pool", "From EC Require Import Model.Handshake Model.Pool.",
                                                "Model.Pool.run_case", coq_pool, shard_size=60, sample_ids=[0])
    mm_glue, samp_glue = common.run_model_cases("C12glue", "From EC Require Import Model.Handshake Model.Pool.",
                                                "Model.Pool.run_node_case", coq_glue, shard_size=20, sample_ids=[0, 1])
    # The code under test has real-time limits (5 s handshake timeout): on a starved machine a session
    # can time out before the adversary speaks. A disagreeing case is therefore re-run alone; only a
    # disagreement that persists counts (a changed decision is deterministic and persists).
    retried = 0
    for (mm, cs, outs, obsf) in ((mm_hs, hs_cases, hs_outs, hs_obs), (mm_glue, glue_cases, glue_outs, glue_obs)):
        for i in sorted(mm):
            for _ in range(2):
                o2 = common.run_impl(BIN, [strip(cs[i])], "dev", timeout=120)[0]
                if "crash" in o2 or o2.get("stuck"):
                    continue
                if common.norm_obs(obsf(cs[i], o2)) == common.norm_obs(_plain(mm[i])):
                    outs[i] = o2
                    del mm[i]
                    retried += 1
                    break
    for c, o in zip(hs_cases, hs_outs):
        for b in (pred_script(c, o) if c["t"] == "script" else pred_pair(c, o)):
            pred_fail.append({"case": strip(c), "impl": o, **b})
    for c, o in zip(glue_cases, glue_outs):
        if not o.get("stuck"):
            for b in pred_glue(c, o):
                pred_fail.append({"case": strip(c), "impl": o, **b})
    if mm_glue:
        broken.append(f"correspondence executed admission glue (Network::new + run_inbound_stream / run_outbound_stream / maintain_connection) vs Model.Pool.run_node_case: {len(mm_glue)} disagreeing cases")
    if mm_hs:
        broken.append(f"correspondence handshake functions vs Model.Handshake.run_case: {len(mm_hs)} disagreeing cases")
    if mm_pool:
        broken.append(f"correspondence PoolWatch vs Model.Pool.run_case: {len(mm_pool)} disagreeing cases")
    # (the source-text check of the glue is informational only now: what it looked at is executed)
    if pred_fail:
        rep.violation("C12 violated on the implementation: " + pred_fail[0]["failed"],
                      {"failing_input": pred_fail[0], "more": pred_fail[1:4], "broken": broken})
    elif broken:
        first = None
        if mm_hs:
            i = sorted(mm_hs)[0]
            first = {"case": strip(hs_cases[i]), "impl": hs_outs[i], "model_obs": mm_hs[i]}
        elif mm_pool:
            i = sorted(mm_pool)[0]
            first = {"case": strip(pool_cases[i]), "impl": pool_outs[i], "model_obs": mm_pool[i]}
        elif mm_glue:
            i = sorted(mm_glue)[0]
            first = {"case": strip(glue_cases[i]), "impl": glue_outs[i], "model_obs": mm_glue[i]}
        # bigger predicate search before giving up on a concrete input
        hit = None
        if mm_glue:
            srng = rng.fork()
            extra = [gen_glue(srng) for _ in range(600)]
            eo = common.run_impl(BIN, [strip(c) for c in extra], "dev", timeout=600)
            for c, o in zip(extra, eo):
                f = pred_glue(c, o) if "events" in o and not o.get("stuck") else []
                if f:
                    hit = {"case": strip(c), "impl": o, **f[0]}
                    break
        if hit is None and (mm_hs or mm_pool):
            srng = rng.fork()
            extra = [gen_script(srng) for _ in range(4000)]
            eo = common.run_impl(BIN, [strip(c) for c in extra], "dev")
            for c, o in zip(extra, eo):
                f = pred_script(c, o) if "sessions" in o else []
                if f:
                    hit = {"case": strip(c), "impl": o, **f[0]}
                    break
            if hit is None:
                extra = [gen_pool(srng, glue) for _ in range(3000)]
                eo = common.run_impl(BIN, [strip(c) for c in extra], "dev")
                for c, o in zip(extra, eo):
                    f = pred_pool(c, o) if "steps" in o else []
                    if f:
                        hit = {"case": strip(c), **f[0]}
                        break
        if hit:
            rep.violation("C12 violated on the implementation: " + hit["failed"],
                          {"failing_input": hit, "broken": broken, "first_disagreement": first})
        else:
            rep.violation("C12 no longer shown to hold: " + "; ".join(broken)[:600],
                          {"broken": broken, "first_disagreement": first}, found_input=False)

    n_corr = 3
    cov.update({
        "obligations": po["obligations"] + n_corr,
        "discharged": po["discharged"] + (0 if mm_hs else 1) + (0 if mm_pool else 1) + (0 if mm_glue else 1),
        "checker_cmd": "make -C coq theories/Properties/C12.vo + coqc on generated cases_*.v (vm_compute of Model.Handshake.run_case, Model.Pool.run_case and Model.Pool.run_node_case)",
        "trusted_base": common.standard_trusted_base([
            "H-SIG: ed25519 / BLS signatures are symbolic terms; only the holder of a key produces sig(key, id); the Msg variant tag separates session-id signatures from every other signed message",
            "H-SID: the noise session id (handshake hash) is shared by exactly the two ends of one session and differs between sessions (snow / Noise NN trusted)",
            "H-ATOM: PoolWatch::insert / remove closures run atomically under the watch lock",
            "admission glue of both directions is EXECUTED (real Network::new; verif::Glue::{gossip,consensus}_run_{inbound,outbound}_stream and consensus_maintain_connection on real sessions, the harness being dialled through the real preface) and diffed with Model.Pool.run_node_case; not executed: the gossip reconnect loop inside Runner::run (a `loop { run_outbound_stream; sleep }`) and the listener's accept loop",
        ]),
        "theorems": po["theorems"], "axioms": po["axioms"], "translator": translator,
        "evaluations": evals + conc_ops + glue_events,
        "distinct_nontrivial": len(dist_hs) + len(dist_pool) + len(dist_glue),
        "rule": "handshake: scripts of 1-5 concurrent sessions on real noise-over-TCP, each with a victim running the real inbound/outbound function of the gossip or validator network and the harness as adversary delivering one message per session in a random order (valid / replayed verbatim from another session / replayed with the id field rewritten / re-signed / reflected / signed by another key / signature for another id / garbage signature / other, truncated, extended, empty session id / other chain / unexpected peer / malformed or closed / free mix), plus honest pairs; non-trivial+distinct = distinct (victim config, delivered message as decoded from the real objects, session) that reached the decision code, plus distinct honest pairs. pool: 1-40 inserts/removes on 1-8 keys, limits {0,1,2,3,5,2^32,usize::MAX}; distinct = (allowed, limit, contents before, op). poolc: 4-16 concurrent connection lifecycles on a 2-5 worker runtime, predicates only. glue: a real node (public Network::new, in-memory engine; gossip: key / static_inbound / dynamic_inbound_limit 0-3 / static_outbound; validator: committee of 1-8 keys) driven by 3-14 events in both directions: inbound connects through run_inbound_stream (configured / non-configured / duplicate identity / over quota / also connected outbound / replayed / forged / malformed), outbound dials through the node's own run_outbound_stream into the harness's listener with the other end (a) presenting the expected key, (b) another valid key, (c) a replayed or reflected handshake or a signature for another connection, (d) dropping mid-handshake or before the preface ends, (e) two concurrent dials of one peer, (f) the peer being connected inbound meanwhile, non-configured peers, the validator maintain_connection loop for 1-3 rounds, and disconnects; after every event: the node's own handshake as sent, live?, inbound and outbound pool compared with Model.Pool.run_node_case (handshake decision + gstep per direction); distinct = (net, config, both pools before, event, peer, delivered message, live)",
        "input_distribution": {"kinds": kinds, "handshake_results": results,
                               "handshake_cases": len(hs_cases), "pool_cases": len(pool_cases), "concurrent_pool_cases": len(poolc_cases), "glue_cases": len(glue_cases), "glue_events": glue_events,
                               "concurrent_pool_ops": conc_ops},
        "samples": [{"case": strip(hs_cases[i]), "impl": hs_outs[i], "model_obs": samp.get(i)} for i in sample_ids if i < len(hs_cases)]
                   + [{"case": strip(pool_cases[0]), "impl": pool_outs[0], "model_obs": samp_pool.get(0)}]
                   + [{"case": strip(glue_cases[i]), "impl": glue_outs[i], "model_obs": samp_glue.get(i)} for i in (0, 1)],
        "glue_source_note (informational, not an obligation)": glue, "timing_retries": retried,
        "correspondence_mismatches": len(mm_hs) + len(mm_pool) + len(mm_glue), "predicate_failures": len(pred_fail),
        "partial": "the theorems are about the Gallina model under H-SIG, H-SID, H-ADV, H-ATOM; unforgeability of ed25519/BLS and the binding of the noise handshake hash to one session are assumed, not proved; timeouts and frame limits are abstracted to `stream error`; the admission glue of both networks and both directions (and the validator reconnect loop) is executed against the model; not executed: the gossip reconnect loop and the accept loop inside Runner::run; the pool under real multi-thread concurrency is checked by predicates only",
    })
    rep.assumptions += [
        "H-SIG symbolic signatures with domain separation by Msg variant", "H-ADV Dolev-Yao adversary: signs with non-honest keys only, sees every emitted message",
        "H-SID session id unique per session, two endpoints per session", "H-ATOM pool closures atomic under the watch lock",
    ]


def replay(path):
    d = json.load(open(path))
    fi = d.get("failing_input") or d.get("first_disagreement")
    if not fi or "case" not in fi:
        print("no concrete input in replay file:", d.get("broken"))
        return 1
    common.cargo_build([BIN], "dev")
    c = fi["case"]
    print(json.dumps(c))
    print(json.dumps(common.run_impl(BIN, [c], "dev")[0], indent=1))
    return 0
