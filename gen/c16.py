"""C16 — pending consensus input bounded, freshest vote kept.

Two halves:
  * queue half (this file, `run_queue_half`): prunable_mpsc + bft's inbound filter / selection
    function.  Theorems in Properties/C16.v over Model/Chan.v, correspondence `vh chan` vs
    Model.Chan.run_case, predicates on the Rust behaviour alone.
  * replica-cache half (`run_cache_half`): commit_views_cache / commit_qcs_cache /
    timeout_views_cache / timeout_qcs_cache of the replica bounded by the committee size.
    Theorems in Properties/C16Caches.v over Model/Replica.v (proofs: Proofs/ReplicaCaches.v),
    correspondence `vh replica` vs Model.ReplicaRun.run_case on flood scenarios
    (gen/replica_gen.py, opts["flood"]) through c05.run_replica_cases, predicates on every
    snapshot of the implementation.  Its generated Coq case files go to build/cases/C16R<batch>
    (the queue half keeps build/cases/C16).
"""
import json
import sys
import common
from common import Rng, coq_z, coq_list, coq_bool

PROP_FILES = ["theories/Properties/C16.v"]
U64MAX = (1 << 64) - 1
POOL = 16
BIN = "chan"
KIND_NAMES = ["LeaderProposal", "ReplicaCommit", "ReplicaTimeout", "ReplicaNewView"]

PREAMBLE = (
    "From EC Require Import Model.Chan.\n"
    "Definition MM (s k r : Z) (g : bool) (i : Z) : imsg :=\n"
    "  {| imsender := s; imkind := k; imraw := r; imsig := g; imid := i |}.\n"
    "Definition SD (s k r : Z) (g : bool) (i : Z) : op imsg := Send (MM s k r g i).\n"
    "Definition RV : op imsg := Recv.\n"
    "Definition GS (v : Z) : op Z := Send v.\n"
    "Definition GR : op Z := Recv.")


# ---------------------------------------------------------------------------
# message descriptors: [sender, kind, "raw", sigmode, id]

def key_of(d):
    return (d[0], d[1])


def view_of(d):
    """ConsensusMsg::view_number() as documented: votes carry their view, proposals and
    new-views are for the view after the one of their certificate."""
    return int(d[2]) + (1 if d[1] in (0, 3) else 0)


def max_raw(kind):
    return U64MAX - 1 if kind in (0, 3) else U64MAX


BOUNDARY = [0, 1, 2, (1 << 32) - 1, 1 << 32, 1 << 63, U64MAX - 2, U64MAX - 1, U64MAX]


def gen_sigmode(rng, bad_num, bad_den):
    return rng.range(1, 3) if rng.chance(bad_num, bad_den) else 0


def gen_queue_case(rng, max_ops):
    """One script for the real inbound queue. Few senders / kinds so that collisions are the
    norm; the view pattern is chosen per script."""
    style = rng.choice(["asc", "desc", "equal", "mixed", "mixed", "boundary", "burst", "flood", "badsig", "wide"])
    nsend = rng.range(1, 4) if style != "wide" else rng.range(6, POOL)
    senders = rng.shuffle(list(range(POOL)))[:nsend]
    kinds = rng.shuffle([0, 1, 2, 3])[:rng.range(1, 4)] if style != "wide" else [0, 1, 2, 3]
    n = rng.range(6, max_ops)
    p_recv = {"burst": 0, "flood": 1, "wide": 1}.get(style, rng.choice([1, 2, 3, 5]))  # out of 10
    bad = (1, 2) if style == "badsig" else (1, 10)
    ops = []
    cur = {}  # per key current view for asc/desc
    base = rng.choice([0, 0, 5, 100, 1 << 40, U64MAX - 40])
    flooder = senders[0]
    i = 0
    while len(ops) < n:
        if style == "burst" and ops and rng.chance(1, 6):
            for _ in range(rng.range(1, 5)):
                ops.append(["r"])
            continue
        if rng.below(10) < p_recv:
            ops.append(["r"])
            continue
        s = rng.choice(senders)
        k = rng.choice(kinds)
        if style == "flood" and rng.chance(3, 4):
            s = flooder
            k = [1, 2][len(ops) % 2] if rng.chance(3, 4) else rng.choice(kinds)
        key = (s, k)
        if style == "asc":
            v = cur.get(key, base) + rng.range(0, 2)
            cur[key] = v
        elif style == "desc":
            v = cur.get(key, base + 30) - rng.range(0, 2)
            cur[key] = max(v, 0)
            v = cur[key]
        elif style == "equal":
            v = base + (1 if rng.chance(1, 8) else 0)
        elif style == "boundary":
            v = rng.choice(BOUNDARY)
        elif style == "flood":
            v = base + rng.below(1000) if s == flooder else base + rng.below(4)
        elif style == "wide":
            v = base + rng.below(3)
        else:
            v = base + rng.below(6)
        v = max(0, min(v, max_raw(k)))
        ops.append(["s", s, k, str(v), gen_sigmode(rng, *bad), len(ops)])
    # ids are the op positions
    for j, o in enumerate(ops):
        if o[0] == "s":
            o[5] = j
    return {"t": "queue", "pool": POOL, "ops": ops, "style": style}


def gen_msg(rng, senders, kinds, base, i):
    k = rng.choice(kinds)
    v = rng.choice(BOUNDARY) if rng.chance(1, 5) else base + rng.below(4)
    return [rng.choice(senders), k, str(max(0, min(v, max_raw(k)))), gen_sigmode(rng, 1, 6), i]


def gen_sel_case(rng, npairs):
    pairs = []
    for i in range(npairs):
        senders = rng.shuffle(list(range(POOL)))[:rng.range(1, 2)]
        kinds = rng.shuffle([0, 1, 2, 3])[:rng.range(1, 2)]
        base = rng.choice([0, 7, 1 << 32, U64MAX - 5])
        pairs.append([gen_msg(rng, senders, kinds, base, 2 * i), gen_msg(rng, senders, kinds, base, 2 * i + 1)])
    return {"t": "sel", "pool": POOL, "pairs": pairs, "style": "sel"}


def gen_generic_case(rng, max_ops):
    """The generic channel over integers 0..n-1 with arbitrary (also inconsistent) tables, so
    that the retain pass is exercised on buffers where one element answers DiscardOld and
    another DiscardNew."""
    n = rng.range(2, 5)
    pred = [rng.chance(5, 6) for _ in range(n)]
    dens = rng.choice([1, 2, 4])
    sel = [(rng.range(1, 2) if rng.chance(1, dens) else 0) for _ in range(n * n)]
    ops = []
    for _ in range(rng.range(5, max_ops)):
        ops.append(["r"] if rng.chance(1, 5) else ["s", rng.below(n)])
    return {"t": "generic", "n": n, "pred": pred, "sel": sel, "ops": ops, "style": "generic"}


def gen_conc_case(rng):
    nthreads = rng.range(2, 4)
    shared = rng.chance(1, 3)  # the same (sender, kind) sent from several threads
    senders = rng.shuffle(list(range(POOL)))[:nthreads + 1]
    kinds = rng.shuffle([0, 1, 2, 3])[:rng.range(1, 2)]
    base = rng.choice([0, 9, U64MAX - 9])
    threads, i = [], 0
    for t in range(nthreads):
        ms = []
        own = senders if shared else [senders[t]]
        for _ in range(rng.range(2, 7)):
            ms.append(gen_msg(rng, own, kinds, base, i))
            i += 1
        threads.append(ms)
    return {"t": "conc", "pool": POOL, "threads": threads, "recv_delay_us": rng.choice([0, 0, 200, 1500, 4000]),
            "style": "conc-shared" if shared else "conc"}


def corpus_cases():
    m = U64MAX
    return [
        # ascending, descending, equal views of one (sender, kind); other kinds untouched
        {"t": "queue", "pool": POOL, "style": "corpus", "ops": [
            ["s", 1, 1, "5", 0, 0], ["s", 1, 1, "7", 0, 1], ["s", 1, 1, "6", 0, 2], ["s", 1, 1, "7", 0, 3],
            ["s", 1, 2, "3", 0, 4], ["s", 2, 1, "1", 0, 5], ["r"], ["s", 1, 1, "2", 0, 7], ["r"], ["r"], ["r"], ["r"]]},
        # proposals / new views carry the view of their certificate + 1; boundary views
        {"t": "queue", "pool": POOL, "style": "corpus", "ops": [
            ["s", 3, 0, str(m - 1), 0, 0], ["s", 3, 0, str(m - 2), 0, 1], ["s", 3, 3, "0", 0, 2], ["s", 3, 3, "0", 0, 3],
            ["s", 3, 1, str(m), 0, 4], ["s", 3, 1, str(m), 0, 5], ["s", 3, 1, str(m - 1), 0, 6], ["r"], ["r"], ["r"], ["r"]]},
        # every kind of bad signature, interleaved with the valid message they try to displace
        {"t": "queue", "pool": POOL, "style": "corpus", "ops": [
            ["s", 4, 2, "10", 0, 0], ["s", 4, 2, "11", 1, 1], ["s", 4, 2, "12", 2, 2], ["s", 4, 2, "13", 3, 3],
            ["r"], ["s", 4, 2, "9", 1, 5], ["r"], ["s", 4, 2, "9", 0, 7], ["r"]]},
        {"t": "generic", "n": 3, "style": "corpus", "pred": [True, True, True],
         # sel(0,2)=DiscardOld, sel(1,2)=DiscardNew: sending 2 onto [0,1] loses both 0 and 2
         "sel": [0, 0, 1, 0, 0, 2, 0, 0, 0], "ops": [["s", 0], ["s", 1], ["s", 2], ["r"], ["r"], ["r"]]},
    ]


# ---------------------------------------------------------------------------
# model terms

def coq_msg_args(d):
    return "%d %d %s %s %s" % (d[0], d[1], coq_z(d[2]), coq_bool(d[3] == 0), coq_z(d[4]))


def coq_ops(ops):
    return coq_list(["SD " + coq_msg_args(o[1:]) if o[0] == "s" else "RV" for o in ops])


def coq_case(c):
    if c["t"] == "queue":
        return "CQueue " + coq_ops(c["ops"])
    if c["t"] == "sel":
        return "CSel " + coq_list(["(MM %s, MM %s)" % (coq_msg_args(a), coq_msg_args(b)) for a, b in c["pairs"]])
    if c["t"] == "generic":
        return "CGeneric %d %s %s %s" % (
            c["n"], coq_list([coq_bool(b) for b in c["pred"]]), coq_list([str(x) for x in c["sel"]]),
            coq_list(["GS %d" % o[1] if o[0] == "s" else "GR" for o in c["ops"]]))
    raise ValueError(c["t"])


def hist_expected(ops, out):
    """Expected `obs_hist` of a sequential script, computed from the Rust output only."""
    obs, fin = out["obs"]
    recvd = [o[1][0] for o in obs if o[0] == 1 and o[1]]
    rid = {int(d[3]) for d in recvd}
    fid = {int(d[3]) for d in fin if len(d) == 4}
    fates = []
    for o in ops:
        if o[0] == "s":
            i = int(o[5])
            fates.append(1 if i in rid else 2 if i in fid else 0)
    return [recvd, fin, fates]


# ---------------------------------------------------------------------------
# predicates: the property statement evaluated on the Rust behaviour alone

def desc_of(d):
    return [d[0], d[1], view_of(d), int(d[4])]


def predicate_queue(c, out):
    bad = []
    if "panic" in out:
        return ["the queue panicked: " + str(out["panic"])]
    obs, fin = out["obs"]
    ops = c["ops"]
    if len(obs) != len(ops):
        return ["a receive destroyed pending messages (or the harness lost an op)"]
    sent, pending, since, senders = {}, [], {}, set()

    def check_key(k):
        s = since.get(k, [])
        best = None
        for i in s:
            if best is None or view_of(sent[best]) < view_of(sent[i]):
                best = i
        pend = [p for p in pending if key_of(sent[p]) == k]
        if pend != ([] if best is None else [best]):
            bad.append(f"pending message of sender {k[0]} kind {KIND_NAMES[k[1]]} is {pend}, but the highest-view "
                       f"(earliest on ties) message sent since the last delivery of that sender and kind is {best}")

    for pos, (op, ob) in enumerate(zip(ops, obs)):
        if op[0] == "s":
            d = op[1:]
            i = int(d[4])
            if ob[0] != 0:
                return [f"op {pos}: harness/impl desynchronised"]
            sent[i] = d
            senders.add(d[0])
            dropped = [int(x) for x in ob[1]]
            pending.append(i)
            for x in dropped:
                if x not in pending:
                    bad.append(f"op {pos}: message {x} destroyed although it was not pending")
                else:
                    pending.remove(x)
            for x in dropped:
                dx = sent[x]
                if dx[3] != 0:
                    if x != i:
                        bad.append(f"op {pos}: message {x} with an invalid signature had been queued")
                    continue
                wit = [p for p in pending if key_of(sent[p]) == key_of(dx) and view_of(sent[p]) >= view_of(dx)]
                if not wit:
                    bad.append(f"op {pos}: validly signed message {x} (view {view_of(dx)}) was dropped although no message of the "
                               f"same sender and kind with an equal or higher view is pending")
                elif x != i and not (i in pending and key_of(d) == key_of(dx) and view_of(d) > view_of(dx)):
                    bad.append(f"op {pos}: pending message {x} (view {view_of(dx)}) was displaced by message {i} which is not "
                               f"a strictly newer message of the same sender and kind")
            if d[3] != 0 and i not in dropped:
                bad.append(f"op {pos}: message {i} with an invalid signature was accepted into the queue")
            ks = [key_of(sent[p]) for p in pending]
            if len(set(ks)) != len(ks):
                bad.append(f"op {pos}: two pending messages of one sender and kind: {sorted(ks)}")
            if len(pending) > 4 * len(senders):
                bad.append(f"op {pos}: {len(pending)} pending messages for {len(senders)} senders")
            if d[3] == 0:
                since.setdefault(key_of(d), []).append(i)
            check_key(key_of(d))
        else:
            if ob[0] != 1:
                return [f"op {pos}: harness/impl desynchronised"]
            if not ob[1]:
                if pending:
                    bad.append(f"op {pos}: recv found nothing although {pending} are pending")
                continue
            r = ob[1][0]
            i = int(r[3])
            if i not in sent:
                bad.append(f"op {pos}: received a message that was never sent: {r}")
                continue
            if [r[0], r[1], int(r[2]), i] != desc_of(sent[i]):
                bad.append(f"op {pos}: received message {r} differs from what was sent {desc_of(sent[i])}")
            if sent[i][3] != 0:
                bad.append(f"op {pos}: a message with an invalid signature was delivered")
            if not pending or pending[0] != i:
                bad.append(f"op {pos}: received {i} but the oldest retained message is {pending[:1]} (arrival order violated)")
            if i in pending:
                pending.remove(i)
            since[key_of(sent[i])] = []
    fids = [int(d[3]) for d in fin if len(d) == 4]
    if any(len(d) != 4 for d in fin):
        bad.append("messages were destroyed while the queue was only drained")
    if fids != pending:
        bad.append(f"final drain returned {fids}, retained messages in arrival order are {pending}")
    return bad


def predicate_conc(c, out):
    """Order-free consequences of the property for a concurrent run."""
    bad = []
    if "panic" in out:
        return ["the queue panicked: " + str(out["panic"])]
    msgs = {int(d[4]): d for t in c["threads"] for d in t}
    recvd = [int(r[2][3]) for r in out["recvs"]]
    dropped = [int(x) for x in out["dropped"]]
    if sorted(recvd + dropped) != sorted(msgs):
        bad.append(f"sent {sorted(msgs)} but received {recvd} and destroyed {dropped}")
    for r in out["recvs"]:
        d = r[2]
        i = int(d[3])
        if i in msgs and [d[0], d[1], int(d[2]), i] != desc_of(msgs[i]):
            bad.append(f"received {d}, sent {desc_of(msgs[i])}")
        if i in msgs and msgs[i][3] != 0:
            bad.append(f"message {i} with an invalid signature was delivered")
    # per thread and key: delivered in sending order
    pos = {i: n for n, i in enumerate(recvd)}
    for t in c["threads"]:
        got = [int(d[4]) for d in t if int(d[4]) in pos]
        if [pos[i] for i in got] != sorted(pos[i] for i in got):
            bad.append(f"messages of one sender thread delivered out of order: {got}")
    # the freshest validly signed message of every (sender, kind) is never lost
    best = {}
    for i, d in msgs.items():
        if d[3] == 0:
            best[key_of(d)] = max(best.get(key_of(d), -1), view_of(d))
    for k, v in best.items():
        if not any(key_of(msgs[i]) == k and view_of(msgs[i]) == v for i in recvd):
            bad.append(f"no message with the highest view {v} of sender {k[0]} kind {KIND_NAMES[k[1]]} was delivered")
    for x in dropped:
        d = msgs.get(x)
        if d is not None and d[3] == 0 and not any(
                j != x and key_of(e) == key_of(d) and e[3] == 0 and view_of(e) >= view_of(d) for j, e in msgs.items()):
            bad.append(f"validly signed message {x} destroyed although it is the only one of its sender and kind with view >= {view_of(d)}")
    return bad


# ---------------------------------------------------------------------------
# concurrent runs: find a linearisation (untrusted search), let the model accept it

def _py_send(buf, i, msgs):
    d = msgs[i]
    if d[3] != 0:
        return buf
    keep, nb = True, []
    for y in buf:
        e = msgs[y]
        if key_of(e) != key_of(d):
            nb.append(y)
        elif view_of(e) < view_of(d):
            pass
        else:
            keep = False
            nb.append(y)
    if keep:
        nb.append(i)
    return tuple(nb)


def linearise(c, out):
    """Returns a list of ops (["s", ...descriptor] / ["r"]) consistent with the real-time order of
    the logged operations and with the results of the receives, or None."""
    msgs = {int(d[4]): d for t in c["threads"] for d in t}
    ev = [("s", int(i), t0, t1) for (i, t0, t1) in out["sends"]]
    ev += [("r", int(r[2][3]), r[0], r[1]) for r in out["recvs"]]
    n = len(ev)
    before = [0] * n
    for a in range(n):
        for b in range(n):
            if a != b and ev[b][3] < ev[a][2]:
                before[a] |= 1 << b
    full = (1 << n) - 1
    dead = set()
    order = []
    sys.setrecursionlimit(10000)

    def go(done, buf):
        if done == full:
            return not buf
        if (done, buf) in dead:
            return False
        for a in range(n):
            if done >> a & 1 or before[a] & ~done:
                continue
            kind, i = ev[a][0], ev[a][1]
            if kind == "r":
                if not buf or buf[0] != i:
                    continue
                nb = buf[1:]
            else:
                nb = _py_send(buf, i, msgs)
            order.append(a)
            if go(done | 1 << a, nb):
                return True
            order.pop()
        dead.add((done, buf))
        return False

    if not go(0, ()):
        return None
    return [["s"] + msgs[ev[a][1]] if ev[a][0] == "s" else ["r"] for a in order]


def conc_expected(lin_ops, out):
    recvd = [r[2] for r in out["recvs"]]
    rid = {int(d[3]) for d in recvd}
    return [recvd, [], [1 if int(o[5]) in rid else 0 for o in lin_ops if o[0] == "s"]]


# ---------------------------------------------------------------------------

def branch_stats(c, out, st):
    """Histogram of what happened on the Rust side (which paths of send / recv were taken)."""
    if c["t"] != "queue" or "obs" not in out:
        return False
    nontrivial = [False, False, False]
    for op, ob in zip(c["ops"], out["obs"][0]):
        if op[0] == "s":
            dr = [int(x) for x in ob[1]]
            if op[4] != 0:
                st["send: invalid signature filtered"] += 1
            elif not dr:
                st["send: enqueued, nothing displaced"] += 1
            elif dr == [int(op[5])]:
                st["send: DiscardNew"] += 1
                nontrivial[0] = True
            else:
                st["send: DiscardOld"] += 1
                nontrivial[1] = True
        elif ob[1]:
            st["recv: message"] += 1
            nontrivial[2] = True
        else:
            st["recv: empty"] += 1
    return all(nontrivial)


def generic_double_discards(c):
    """How many sends of a generic script meet a buffer in which one element answers DiscardOld
    and another DiscardNew (statistics only: shows that the generator reaches the case)."""
    n, sel, pred, buf, hits = c["n"], c["sel"], c["pred"], [], 0
    for o in c["ops"]:
        if o[0] == "r":
            buf = buf[1:]
            continue
        x = o[1]
        if not pred[x]:
            continue
        rs = [sel[y * n + x] for y in buf]
        if 1 in rs and 2 in rs:
            hits += 1
        buf = [y for y, r in zip(buf, rs) if r != 1] + ([] if 2 in rs else [x])
    return hits


def generate(rng, tier, scale=1):
    nq, nsel, ngen, nconc, max_ops = (1500, 100, 400, 120, 36) if tier == "quick" else (12000, 600, 4000, 1000, 90)
    cases = corpus_cases()
    for _ in range(nq * scale):
        cases.append(gen_queue_case(rng, max_ops))
    for _ in range(nsel * scale):
        cases.append(gen_sel_case(rng, 12))
    for _ in range(ngen * scale):
        cases.append(gen_generic_case(rng, 30))
    for _ in range(nconc * scale):
        cases.append(gen_conc_case(rng))
    return cases


def evaluate_predicates(cases, outs):
    fails = []
    for i, (c, o) in enumerate(zip(cases, outs)):
        if "crash" in o or "skipped" in o:
            raise common.MachineryError(f"harness crashed on case {i}: {o}")
        if c["t"] == "queue":
            b = predicate_queue(c, o)
        elif c["t"] == "conc":
            b = predicate_conc(c, o)
        elif "panic" in o:
            b = ["panic: " + str(o["panic"])]
        else:
            b = []
        for x in b:
            fails.append({"case": c, "impl": o, "failed": x})
    return fails


def run_queue_half(rep, rng, cov, broken):
    """Returns (pred_fail, first_disagreement)."""
    tier = rep.tier
    po = common.proof_obligations(PROP_FILES)
    if not po["ok"]:
        broken.append("Coq obligations of Properties/C16.v: " + (po["log_tail"] or str(po["hygiene_problems"] or po["bad_axioms"])))
    ok, out = common.cargo_build([BIN], "dev")
    if not ok:
        raise common.MachineryError("cargo build failed: " + out[-2000:])
    cases = generate(rng, tier)
    outs = common.run_impl(BIN, cases, "dev")
    pred_fail = evaluate_predicates(cases, outs)
    # correspondence
    coq_cases, origin = [], {}
    stats = {k: 0 for k in ["send: invalid signature filtered", "send: enqueued, nothing displaced", "send: DiscardNew",
                            "send: DiscardOld", "recv: message", "recv: empty"]}
    styles, distinct, evaluations, lin_fail = {}, set(), 0, []

    def add(ci, term, exp):
        k = len(coq_cases)
        origin[k] = ci
        coq_cases.append((k, term, common.to_obsv(exp)))
        return k

    sample_ids = []
    for i, (c, o) in enumerate(zip(cases, outs)):
        styles[c["style"]] = styles.get(c["style"], 0) + 1
        if "panic" in o:
            continue  # reported by the predicates
        if c["t"] == "queue":
            k = add(i, coq_case(c), o["obs"])
            add(i, "CHist " + coq_ops(c["ops"]), hist_expected(c["ops"], o))
            evaluations += len(c["ops"])
            if branch_stats(c, o, stats):
                distinct.add(json.dumps(c["ops"]))
            if len(sample_ids) < 2 and i >= 4:
                sample_ids.append(k)
        elif c["t"] == "conc":
            lin = linearise(c, o)
            evaluations += sum(len(t) for t in c["threads"]) + len(o["recvs"])
            if lin is None:
                lin_fail.append({"case": c, "impl": o, "failed": "the concurrent run has no linearisation: no order of the logged "
                                 "sends and receives that respects real time explains what was received"})
                continue
            k = add(i, "CHist " + coq_ops(lin), conc_expected(lin, o))
            if o["dropped"]:
                distinct.add(json.dumps(lin))
            if not any(cases[origin[s]]["t"] == "conc" for s in sample_ids) and o["dropped"]:
                sample_ids.append(k)
        else:
            k = add(i, coq_case(c), o["obs"])
            evaluations += len(c.get("pairs", c.get("ops", [])))
            if c["t"] == "generic" and not any(cases[origin[s]]["t"] == "generic" for s in sample_ids):
                sample_ids.append(k)
    sample_ids = [0] + sample_ids
    dd = sum(generic_double_discards(c) for c in cases if c["t"] == "generic")
    conc_with_drops = sum(1 for c, o in zip(cases, outs) if c["t"] == "conc" and o.get("dropped"))
    stats["generic send: DiscardOld and DiscardNew in one pass"] = dd
    stats["concurrent runs in which something was destroyed"] = conc_with_drops
    never = [k for k, v in stats.items() if v == 0]
    if never and not pred_fail:
        raise common.MachineryError("generator never reached: " + ", ".join(never))
    mm, samp = common.run_model_cases("C16", PREAMBLE, "Model.Chan.run_case", coq_cases, shard_size=100, sample_ids=sample_ids)
    pred_fail += lin_fail
    first = None
    if mm:
        broken.append(f"correspondence vh chan vs Model.Chan.run_case: {len(mm)} disagreeing cases")
        k = sorted(mm)[0]
        first = {"case": cases[origin[k]], "model_input": coq_cases[k][1][:4000], "impl": outs[origin[k]], "model_obs": mm[k]}
    if broken and not pred_fail:
        # bigger search with the predicates only
        rng2 = rng.fork()
        more = generate(rng2, tier, scale=3 if tier == "quick" else 1)
        pred_fail += evaluate_predicates(more, common.run_impl(BIN, more, "dev"))
        cov["violation_search_cases"] = len(more)
    cov.update({
        "obligations": po["obligations"] + 1,
        "discharged": po["discharged"] + (0 if mm else 1),
        "checker_cmd": "./coqmake theories/Properties/C16.vo (make -C coq) + coqc on generated build/cases/C16/cases_*.v "
                       "(vm_compute of Model.Chan.run_case)",
        "trusted_base": common.standard_trusted_base([
            "H-ATOM: the closure passed to watch::Sender::send_modify runs atomically, so one send (retain pass + push_back) and "
            "one pop_front are single steps of the model; checked on real threads only by the linearisation runs",
            "H-SIG: Signed::verify().is_ok() is one bit of the abstract message (real BLS signatures on the Rust side)",
            "view_number() of proposals / new-views = certificate view + 1 without overflow (certificates claiming view u64::MAX "
            "are rejected by the decoder, finding F6 fixed)",
        ]),
        "theorems": po["theorems"], "axioms": po["axioms"],
        "evaluations": evaluations,
        "distinct_nontrivial": len(distinct),
        "rule": "queue scripts on create_input_channel(): 6..36 (quick) / 6..90 (thorough) ops, 1-4 (style wide: 6-16) senders of a "
                "16-key pool, 1-4 kinds, view patterns ascending / descending / equal / small random / boundary (0,1,2^32,2^63,u64::MAX"
                "-2..u64::MAX) / bursts between receives / one sender flooding 1000 future views alternating kinds; ~10% (style badsig "
                "50%) invalid signatures of three sorts (other key, other view, other content); selection-function pairs; generic "
                "channel over 2-5 integers with random predicate / selection tables (reaches the double-discard case); concurrent "
                "runs: 2-4 sender threads + blocked consumer, linearised by a search and accepted by the model. evaluations = "
                "operations executed on the Rust side. non-trivial = distinct sequential scripts in which a DiscardOld, a DiscardNew "
                "and a successful receive all occur, plus distinct linearised concurrent runs in which something was destroyed",
        "input_distribution": {"styles": styles, "impl_paths": stats},
        "cases": len(cases), "model_cases": len(coq_cases),
        "concurrent_runs": sum(1 for c in cases if c["t"] == "conc"),
        "samples": [{"case": cases[origin[k]], "model_input": coq_cases[k][1][:1500], "impl": outs[origin[k]], "model_obs": samp.get(k)}
                    for k in sample_ids],
        "correspondence_mismatches": len(mm), "predicate_failures": len(pred_fail),
        "partial": "queue half: nothing known to be missing (all four design theorems proved; interleavings are lists of atomic "
                   "send / recv steps under H-ATOM). replica-cache half (replica_caches_bounded): see run_cache_half",
    })
    rep.assumptions += ["H-ATOM (send_modify closures are atomic; one send / one pop is one step)",
                        "H-SIG (signature validity is a boolean attribute of the abstract message)"]
    return pred_fail, first


# ---------------------------------------------------------------------------
# replica-cache half

CACHE_PROP_FILES = ["theories/Properties/C16Caches.v"]
SNAP_COMMIT_VIEWS, SNAP_COMMIT_QCS, SNAP_TIMEOUT_VIEWS, SNAP_TIMEOUT_QCS = 6, 7, 8, 9


def snapshot_of(ob):
    """The snapshot inside one step observation of `vh replica` (None for a dead replica)."""
    if ob == [9] or len(ob) < 3:
        return None
    snap = ob[3] if ob[0] == [7] and len(ob) > 3 else ob[2]
    return snap if isinstance(snap, list) and len(snap) > SNAP_TIMEOUT_QCS else None


def predicate_caches(case, out, stats=None):
    """The property's second sentence evaluated on every snapshot of the IMPLEMENTATION: the
    caches are bounded by the committee size alone.  At most 3 failures of each sort are
    reported per scenario, size bounds first."""
    found = {}
    members = {int(k) for k, _ in case["committee"]}
    n = len(members)
    for i, ob in enumerate(out["obs"]):
        snap = snapshot_of(ob)
        if snap is None:
            continue
        cv, cq, tv, tq = (snap[SNAP_COMMIT_VIEWS], snap[SNAP_COMMIT_QCS], snap[SNAP_TIMEOUT_VIEWS], snap[SNAP_TIMEOUT_QCS])

        def fail(sort, text):
            l = found.setdefault(sort, [])
            if len(l) < 3:
                l.append({"step": i, "failed": f"step {i}, committee of {n}: {text}", "snapshot_caches": [cv, cq, tv, tq]})

        for name, views in (("commit_views_cache", cv), ("timeout_views_cache", tv)):
            keys = [int(e[0]) for e in views]
            if len(views) > n:
                fail(0, f"{name} has {len(views)} entries")
            if len(set(keys)) != len(keys) or not set(keys) <= members:
                fail(1, f"{name} keys {keys} are not distinct committee members")
        if len(cq) > n:
            fail(2, f"commit_qcs_cache holds certificates under construction for {len(cq)} views")
        for e in cq:
            if int(e[1]) > n:
                fail(3, f"commit_qcs_cache holds {e[1]} certificates under construction for view {e[0]}")
        if sum(int(e[1]) for e in cq) > n * n:
            fail(4, f"commit_qcs_cache holds {sum(int(e[1]) for e in cq)} certificates under construction")
        if len(tq) > n:
            fail(5, f"timeout_qcs_cache holds certificates under construction for {len(tq)} views")
        active_c = {int(e[1]) for e in cv}
        active_t = {int(e[1]) for e in tv}
        stray = [int(e[0]) for e in cq if int(e[0]) not in active_c]
        if stray:
            fail(6, f"commit_qcs_cache keeps views {stray[:5]} that are nobody's latest commit view")
        stray = [int(v) for v in tq if int(v) not in active_t]
        if stray:
            fail(7, f"timeout_qcs_cache keeps views {stray[:5]} that are nobody's latest timeout view")
        if stats is not None:
            stats["snapshots"] += 1
            stats["max_commit_views"] = max(stats["max_commit_views"], len(cv))
            stats["max_commit_qc_views"] = max(stats["max_commit_qc_views"], len(cq))
            stats["max_qcs_in_one_view"] = max([stats["max_qcs_in_one_view"]] + [int(e[1]) for e in cq])
            stats["max_timeout_views"] = max(stats["max_timeout_views"], len(tv))
            stats["max_timeout_qc_views"] = max(stats["max_timeout_qc_views"], len(tq))
            if len(cq) >= 2 or len(tq) >= 2:
                stats["snapshots_with_several_views_cached"] += 1
            stats["distinct_views_seen"].update(active_c | active_t)
    return [b for sort in sorted(found) for b in found[sort]]


def run_cache_half(rep, rng, cov, broken):
    """Returns (pred_fail, first_disagreement) in the shape of the queue half and merges its
    counts into `cov` (obligations / discharged / evaluations / distinct_nontrivial are added,
    everything else goes under cache_* keys)."""
    import c05
    import replica_gen as RG
    tier = rep.tier
    # translator: on_commit / on_timeout cache bookkeeping (views insert, retain, quorum test) regenerated from the
    # source and proved equal to Model/Replica.v (Properties/C05Gen3.v)
    import rust2coq
    translator, gen_files = rust2coq.step(rust2coq.REPLICA_STEP, rust2coq.REPLICA_PROPS, broken)
    cov["translator"] = translator
    po = common.proof_obligations(CACHE_PROP_FILES + gen_files)
    if not po["ok"]:
        broken.append("Coq obligations of Properties/C16Caches.v: " + (po["log_tail"] or str(po["hygiene_problems"] or po["bad_axioms"])))
    opts = {"rounds": 3 if tier == "quick" else 6, "crash": False, "extreme": False,
            "flood": {"votes": 200 if tier == "quick" else 900, "byz": 3}}
    # common.run_impl gives one harness process per 50 cases, and the Rust side (real BLS signatures,
    # dev profile) is the slow one; a few long scenarios would therefore run sequentially.  So the
    # scenarios are run as independent batches of c05.run_replica_cases, concurrently.
    nbatch, per_batch = (12, 2) if tier == "quick" else (16, 8)
    rngs = [rng.fork() for _ in range(nbatch)]

    def new_stats():
        return {"snapshots": 0, "max_commit_views": 0, "max_commit_qc_views": 0, "max_qcs_in_one_view": 0,
                "max_timeout_views": 0, "max_timeout_qc_views": 0, "snapshots_with_several_views_cached": 0,
                "distinct_views_seen": set()}

    def batch(k):
        st, mine = new_stats(), []
        r = c05.run_replica_cases(rep, "C16R%d" % k, opts, per_batch, rngs[k], mine,
                                  extra_pred=lambda c, o: predicate_caches(c, o, st))
        return r, st, mine

    from concurrent.futures import ThreadPoolExecutor
    for b, prof in (("qc", "dev"), ("replica", "dev")):  # build once, before the batches start
        ok, out = common.cargo_build([b], prof)
        if not ok:
            raise common.MachineryError("cargo build failed: " + out[-2000:])
    with ThreadPoolExecutor(max_workers=nbatch) as ex:
        results = list(ex.map(batch, range(nbatch)))
    stats = new_stats()
    R = {"cases": [], "outs": [], "mm": {}, "samp": {}, "pred_fail": [], "kinds": {}, "steps": 0, "dist": 0,
         "results": {}, "sample_ids": [0, 1]}
    for r, st, mine in results:
        base = len(R["cases"])
        broken += ["cache half, batch %d: %s" % (len(R["cases"]) // per_batch, m) for m in mine]
        R["cases"] += r["cases"]
        R["outs"] += r["outs"]
        R["mm"].update({base + i: v for i, v in r["mm"].items()})
        R["samp"].update({base + i: v for i, v in r["samp"].items()})
        for p_ in r["pred_fail"]:
            p_["case_index"] += base
        R["pred_fail"] += r["pred_fail"]
        for k_, v in r["kinds"].items():
            R["kinds"][k_] = R["kinds"].get(k_, 0) + v
        for k_, v in r["results"].items():
            R["results"][k_] = R["results"].get(k_, 0) + v
        R["steps"] += r["steps"]
        R["dist"] += r["dist"]
        for k_, v in st.items():
            if k_ == "distinct_views_seen":
                stats[k_] |= v
            elif k_.startswith("max_"):
                stats[k_] = max(stats[k_], v)
            else:
                stats[k_] += v
    cases, outs, mm = R["cases"], R["outs"], R["mm"]
    flood_msgs = sum(v for k, v in R["kinds"].items() if k in ("flood:commit", "flood:timeout"))
    per_case_views = []
    for c in cases:
        vs = set()
        for op in c["ops"]:
            m = op.get("m") or {}
            for kind in ("commit", "timeout"):
                if kind in m:
                    vs.add(int(m[kind]["v"]["n"]))
        per_case_views.append(len(vs))
    if not R["pred_fail"]:
        # the generator must actually stress the caches, otherwise the predicates are vacuous
        if flood_msgs < 50 * len(cases) or stats["max_commit_qc_views"] < 2 or stats["max_timeout_qc_views"] < 2 \
                or stats["max_qcs_in_one_view"] < 2:
            raise common.MachineryError(f"flood generator too weak: {flood_msgs} flood votes, stats {stats}")
    pred_fail = [{"case": p["case"], "impl": {"obs_at_step": outs[p["case_index"]]["obs"][p["step"]] if "step" in p else None},
                  "failed": p["failed"], "step": p.get("step"), "caches": p.get("snapshot_caches")} for p in R["pred_fail"]]
    first = None
    if mm:
        i = sorted(mm)[0]
        fd = c05.first_diff(mm[i], outs[i]["obs"])
        first = {"case": RG.strip(cases[i]), "first_differing_step": fd[0] if fd else None,
                 "model_step_obs": fd[1] if fd else None, "impl_step_obs": fd[2] if fd else None}
    stats["distinct_views_seen"] = len(stats["distinct_views_seen"])
    cov["obligations"] = cov.get("obligations", 0) + po["obligations"] + 1
    cov["discharged"] = cov.get("discharged", 0) + po["discharged"] + (0 if mm else 1)
    cov["theorems"] = cov.get("theorems", []) + po["theorems"]
    cov["axioms"] = sorted(set(cov.get("axioms", [])) | set(po["axioms"]))
    cov["evaluations"] = cov.get("evaluations", 0) + R["steps"]
    cov["distinct_nontrivial"] = cov.get("distinct_nontrivial", 0) + R["dist"]
    cov["checker_cmd"] = cov.get("checker_cmd", "") + "; ./coqmake theories/Properties/C16Caches.vo + coqc on generated " \
        "build/cases/C16R<batch>/cases_*.v (vm_compute of Model.ReplicaRun.run_case)"
    cov["trusted_base"] = cov.get("trusted_base", []) + [
        "cache half: bft hook feature verif_hooks (step-driven replica wrapper, snapshot of the four caches; add-only)",
        "cache half: harness execution engine of `vh replica` (blocks persisted as soon as queued; payload verdict by id)"]
    cov["partial"] = cov.get("partial", "").replace("see run_cache_half", "see cache_partial")
    cov.update({
        "cache_rule": "replica scenarios of gen/replica_gen.py with opts['flood']: one replica among 2-7 validators, a puppet network "
                      "walking 3 (quick) / 6 (thorough) views through commit and timeout rounds with the usual injected faults; 1-3 "
                      "Byzantine members whose joint weight is below the quorum send, in bursts before and after every round, about 200 "
                      "(quick) / 900 (thorough) validly signed commit and timeout votes per scenario (kinds alternating) for views "
                      "nobody is in: per member and kind a rising view counter (steps 1,1,1,1,2,5 so that members meet in one view "
                      "with equal or different votes) starting 2, 60, 10^6, 2^40 or u64::MAX-10^6 views ahead; 1/16 of the votes "
                      "repeat or undercut the member's last view, 1/16 carry a bad signature, 1/16 come from a non-member. Per step "
                      "the outcome, the ordered effects and the full snapshot (including the four caches: views maps, per-view "
                      "certificate counts) are compared with Model.ReplicaRun.run_case; the predicates are evaluated on every "
                      "snapshot of the implementation. evaluations += steps executed; distinct_nontrivial += distinct step "
                      "observations",
        "cache_scenarios": len(cases), "cache_steps": R["steps"], "cache_distinct_step_observations": R["dist"],
        "cache_flood_votes": flood_msgs,
        "cache_distinct_vote_views_per_scenario": {"min": min(per_case_views), "max": max(per_case_views)},
        "cache_input_distribution": R["kinds"], "cache_outcome_distribution": R["results"],
        "cache_impl_stats": stats,
        "cache_samples": [{"committee": cases[i]["committee"], "case_ops_head": RG.strip(cases[i])["ops"][:3],
                           "impl_obs_head": outs[i]["obs"][:2],
                           "model_obs_head": (R["samp"].get(i) or [])[:2] if isinstance(R["samp"].get(i), list) else None,
                           "impl_last_snapshot_caches": (snapshot_of(outs[i]["obs"][-1]) or [None] * 10)[6:10]}
                          for i in R["sample_ids"] if i < len(cases)],
        "cache_correspondence_mismatches": len(mm), "cache_predicate_failures": len(pred_fail),
        "cache_partial": "replica-cache half: nothing known to be missing for the statement over the model (every input, every "
                         "outcome, crash/restart runs included: C16_run_case_caches_bounded). The snapshot of `vh replica` reports "
                         "the number of certificates per view, not their bitmaps, so bitmap length and disjointness are proved "
                         "on the model and tied to the code only through the per-step correspondence of outcomes and counts",
    })
    rep.assumptions += ["H-SIG (Signed::verify is one bit of the abstract message; symbolic aggregate signatures)"]
    return pred_fail, first


def run(rep):
    rng = Rng(rep.seed)
    cov = rep.cov
    broken = []
    pred_fail, first = run_queue_half(rep, rng, cov, broken)

    # replica-cache half (commit_views_cache / commit_qcs_cache / timeout_views_cache /
    # timeout_qcs_cache bounded by the committee size)
    cache_fail, cache_first = run_cache_half(rep, rng.fork(), cov, broken)
    pred_fail += cache_fail
    first = first or cache_first

    if pred_fail:
        f = pred_fail[0]
        rep.violation("C16 violated on the implementation: " + f["failed"],
                      {"failing_input": f, "more": [x["failed"] for x in pred_fail[1:6]], "broken": broken})
    elif broken:
        rep.violation("C16 no longer shown to hold: " + "; ".join(broken)[:600],
                      {"broken": broken, "first_disagreement": first}, found_input=False)


def replay(path):
    d = json.load(open(path))
    fi = d.get("failing_input") or d.get("first_disagreement")
    if not fi:
        print("no concrete input in replay file:", d.get("broken"))
        return 1
    c = fi["case"]
    if "committee" in c:  # a replica scenario of the cache half
        common.cargo_build(["replica"], "dev")
        o = common.run_impl("replica", [c], "dev")[0]
        for i, ob in enumerate(o["obs"]):
            snap = snapshot_of(ob)
            print(i, json.dumps(ob[0]) if ob != [9] else "dead", "caches:", json.dumps(snap[6:10]) if snap else None)
        print("predicate:", [b["failed"] for b in predicate_caches(c, o)] or "holds")
        return 0
    common.cargo_build([BIN], "dev")
    o = common.run_impl(BIN, [c], "dev")[0]
    print("case:", json.dumps(c))
    print("impl:", json.dumps(o))
    if c["t"] == "queue":
        print("predicate:", predicate_queue(c, o) or "holds")
        term = coq_case(c)
    elif c["t"] == "conc":
        print("predicate:", predicate_conc(c, o) or "holds")
        lin = linearise(c, o)
        print("linearisation:", json.dumps(lin))
        term = "CHist " + coq_ops(lin) if lin is not None else None
    else:
        term = coq_case(c)
    if term is not None and "panic" not in o:
        try:  # needs coq/theories/Model/Chan.vo (built by any earlier ./check C16)
            _, samp = common.run_model_cases("C16replay", PREAMBLE, "Model.Chan.run_case", [(0, term, "(OL [])")], sample_ids=[0])
            print("model:", json.dumps(samp.get(0)))
        except RuntimeError as e:
            print("model: not evaluated (run ./check C16 once to build the model):", str(e)[:300])
    return 0
