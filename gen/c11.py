"""C11 — leader election: theorems + correspondence (vh leader vs Model.Leader) + predicates."""
import json
import os
import common
from common import Rng, coq_z, coq_list, coq_bool

PROP_FILES = ["theories/Properties/C11.v"]
U64 = 1 << 64
POOL = 16


def gen_weight(rng):
    k = rng.below(10)
    if k < 4:
        return rng.range(1, 5)
    if k < 6:
        return rng.range(1, 1000)
    if k < 7:
        return 1
    if k < 8:
        return (1 << rng.range(30, 60)) + rng.below(1000)
    if k < 9:
        return rng.next() >> rng.range(4, 40) or 1
    return rng.range(1, 3)


def gen_views(rng, freq, nviews):
    vs = list(range(0, min(nviews, 24)))
    vs += [U64 - 1, U64 - 2, 1 << 63, (1 << 32) - 1, 1 << 32]
    if freq > 0:
        for m in (1, 2, 3, 7):
            for d in (-1, 0, 1):
                v = freq * m + d
                if 0 <= v < U64:
                    vs.append(v)
    while len(vs) < nviews + 5:
        vs.append(rng.next() >> rng.range(0, 63))
    return vs


def gen_case(rng, nviews):
    n = rng.range(1, 12)
    ranks = rng.shuffle(list(range(POOL)))[:n]
    vals = []
    small_w = rng.chance(1, 3)
    for r in ranks:
        w = rng.range(1, 3) if small_w else gen_weight(rng)
        vals.append([r, str(w), rng.chance(2, 3)])
    if not any(v[2] for v in vals) and rng.chance(9, 10):
        vals[rng.below(n)][2] = True
    kind = "valid"
    z = rng.below(40)
    if z == 0:
        vals.append(list(vals[rng.below(len(vals))])); kind = "dup"
    elif z == 1:
        vals[rng.below(len(vals))][1] = "0"; kind = "zero"
    elif z == 2:
        vals[rng.below(len(vals))][1] = str(U64 - rng.range(1, 3)); kind = "overflow?"
    elif z == 3:
        vals = []; kind = "empty"
    elif z == 4:
        for v in vals:
            v[2] = False
        kind = "noleader"
    freq = rng.choice([0, 1, 1, 2, 3, 7, 10, 1 << 32, U64 - 1, rng.next() >> rng.range(0, 63)])
    mode = rng.choice(["rr", "w"])
    return {"vals": vals, "freq": str(freq), "mode": mode, "views": [str(v) for v in gen_views(rng, freq, nviews)],
            "pool": POOL, "kind": kind}


def corpus_cases():
    # regression corpus: the failing classes of findings F1 / F2, always run first
    return [
        {"vals": [[2, "1", True]], "freq": "1", "mode": "w", "views": ["0", "1", "7"], "pool": POOL, "kind": "F1 W=1"},
        {"vals": [[2, "1", True], [0, "5", False], [1, "3", True]], "freq": "0", "mode": "rr", "views": ["0", "7", str(U64 - 1)], "pool": POOL, "kind": "F2 freq=0"},
        {"vals": [[2, "1", True], [0, "1", True]], "freq": "0", "mode": "w", "views": [str(i) for i in range(8)], "pool": POOL, "kind": "F1+F2"},
        {"vals": [[3, "2", True], [0, "1", True], [5, "4", False]], "freq": "1", "mode": "w", "views": [str(i) for i in range(40)], "pool": POOL, "kind": "F1 W=3"},
    ]


def permute_case(rng, c):
    d = dict(c)
    d["vals"] = rng.shuffle(c["vals"])
    d["kind"] = c["kind"] + " permuted"
    return d


ERR = [("Duplicate key", 1), ("positive value", 2), ("overflows", 3), ("at least one validator", 4), ("at least one leader", 5)]


def panic_code(msg):
    if "divide by zero" in msg or "division by zero" in msg or "divide by zero" in msg.lower():
        return 2
    if "index out of bounds" in msg:
        return 3
    if "overflow" in msg:
        return 1
    if "unreachable" in msg:
        return 5
    if "unwrap" in msg or "expect" in msg:
        return 4
    return 99


def impl_obs(o):
    new = o["new"]
    if "err" in new:
        for (s, c) in ERR:
            if s in new["err"]:
                return [2, c]
        return [2, 99]
    ok = new["ok"]
    sched = [[[int(v[0]), int(v[1]), 1 if v[2] else 0] for v in ok["vec"]], int(ok["total"]),
             [int(i) for i in ok["leaders"]]]
    qs = []
    for q in o["qs"]:
        l = q["leader"]
        if isinstance(l, dict):
            qs.append([1, panic_code(l["panic"])])
        else:
            qs.append([0, int(l)])
    return [0, sched, qs]


def coq_case(c, o):
    vals = coq_list(["{| vkey := %d; vweight := %s; vleader := %s |}" % (v[0], coq_z(v[1]), coq_bool(v[2])) for v in c["vals"]])
    sel = "{| sfreq := %s; smode := %s |}" % (coq_z(c["freq"]), "RoundRobin" if c["mode"] == "rr" else "Weighted")
    if "ok" in o["new"]:
        qs = coq_list(["(%s, %s)" % (coq_z(q["view"]), coq_z(q["h"])) for q in o["qs"]])
    else:
        qs = "[]"
    return f"({vals}, {sel}, {qs})"


def predicate(c, o):
    """Property predicate on the implementation's behaviour alone. Returns list of failures."""
    bad = []
    if "ok" not in o["new"]:
        return bad
    ok = o["new"]["ok"]
    elig = [int(v[0]) for v in ok["vec"] if v[2]]
    eligw = [int(v[1]) for v in ok["vec"] if v[2]]
    freq = int(c["freq"])
    W = sum(eligw)
    for q in o["qs"]:
        l = q["leader"]
        view = int(q["view"])
        if isinstance(l, dict):
            bad.append({"view": q["view"], "failed": "leader selection panicked: " + l["panic"]})
            continue
        if l not in elig:
            bad.append({"view": q["view"], "failed": f"leader {l} is not leader-eligible"})
            continue
        turn = 0 if freq == 0 else view // freq
        if c["mode"] == "rr":
            if l != elig[turn % len(elig)]:
                bad.append({"view": q["view"], "failed": f"round robin picked {l}, expected rotation position {turn % len(elig)}"})
        else:
            e = int(q["h"]) % W
            off = 0
            exp = None
            for k, w in zip(elig, eligw):
                off += w
                if e < off:
                    exp = k
                    break
            if l != exp:
                bad.append({"view": q["view"], "failed": f"weighted picked {l}, residue {e} lies in the weight interval of {exp}"})
    return bad


def run(rep):
    tier, rng = rep.tier, Rng(rep.seed)
    cov = rep.cov
    broken = []
    # translator: view_leader / leader_weighted_eligibility / Schedule::get regenerated from schedule.rs;
    # Properties/C11Gen.v proves them equal to Model/Leader.v
    import rust2coq
    translator, gen_files = rust2coq.step(["leader"], ["theories/Properties/C11Gen.v"], broken)
    po = common.proof_obligations(PROP_FILES + gen_files)
    if not po["ok"]:
        broken.append("Coq obligations of Properties/C11.v: " + (po["log_tail"] or str(po["hygiene_problems"] or po["bad_axioms"])))
    ok, out = common.cargo_build(["leader"], "dev")
    if not ok:
        raise common.MachineryError("cargo build failed: " + out[-2000:])
    ncases = 500 if tier == "quick" else 8000
    nviews = 30 if tier == "quick" else 60
    cases = corpus_cases()
    for _ in range(ncases):
        c = gen_case(rng, nviews)
        cases.append(c)
        if rng.chance(1, 2):
            cases.append(permute_case(rng, c))
    outs = common.run_impl("leader", cases, "dev")
    coq_cases, pred_fail, kinds, dist = [], [], {}, set()
    queries = 0
    for i, (c, o) in enumerate(zip(cases, outs)):
        if "crash" in o or "skipped" in o:
            raise common.MachineryError(f"harness crashed on case {i}: {o}")
        kinds[c["kind"].split(" ")[0]] = kinds.get(c["kind"].split(" ")[0], 0) + 1
        ob = impl_obs(o)
        coq_cases.append((i, coq_case(c, o), common.to_obsv(ob)))
        for b in predicate(c, o):
            pred_fail.append({"case": {k: c[k] for k in ("vals", "freq", "mode", "pool")}, **b})
        if ob[0] == 0:
            queries += len(ob[2])
            for q, r in zip(o["qs"], ob[2]):
                dist.add((json.dumps(c["vals"]), c["freq"], c["mode"], q["view"]))
    # order independence: a permuted case must give identical results
    for i in range(1, len(cases)):
        if cases[i]["kind"].endswith("permuted"):
            a, b = outs[i - 1], outs[i]
            if ("ok" in a["new"]) != ("ok" in b["new"]) or ("ok" in a["new"] and (a["new"]["ok"] != b["new"]["ok"] or a["qs"] != b["qs"])):
                pred_fail.append({"case": {k: cases[i - 1][k] for k in ("vals", "freq", "mode", "pool")},
                                  "permuted_vals": cases[i]["vals"], "failed": "result depends on listing order"})
    sample_ids = [0, 1, 5, 9]
    mm, samp = common.run_model_cases("C11", "From EC Require Import Model.Leader.", "Model.Leader.run_case true",
                                      coq_cases, shard_size=80, sample_ids=sample_ids)
    if mm:
        broken.append(f"correspondence vh leader vs Model.Leader.run_case: {len(mm)} disagreeing cases")
    known = common.load_known_findings()
    # verdict
    if pred_fail:
        rep.violation("leader election violates C11 on the implementation: " + pred_fail[0]["failed"],
                      {"failing_input": pred_fail[0], "more": pred_fail[1:4], "broken": broken})
    elif broken:
        first = None
        if mm:
            i = sorted(mm)[0]
            first = {"case": cases[i], "impl": outs[i], "model_obs": mm[i]}
        rep.violation("C11 no longer shown to hold: " + "; ".join(broken)[:500],
                      {"broken": broken, "first_disagreement": first}, found_input=False)
    cov.update({
        "obligations": po["obligations"] + 1,
        "discharged": po["discharged"] + (0 if mm else 1),
        "checker_cmd": "make -C coq theories/Properties/C11.vo + coqc on generated cases_*.v (vm_compute of Model.Leader.run_case)",
        "trusted_base": common.standard_trusted_base(["keccak256 is uninterpreted in the theorems (they hold for every digest); in the correspondence the digest computed by the Rust side is passed to the model"] + translator["trusted"]),
        "theorems": po["theorems"], "axioms": po["axioms"], "translator": translator,
        "evaluations": queries,
        "distinct_nontrivial": len(dist),
        "rule": "schedules of 1-12 pool keys (shuffled, with permuted twin), random eligibility subsets, weights 1..2^60, both modes, frequencies {0,1,2,3,7,10,2^32,u64::MAX,random}, views 0..23 + boundaries + random u64; invalid schedules (duplicate, zero weight, overflow, empty, no leader) ~12%; non-trivial = distinct (schedule, frequency, mode, view) leader queries on accepted schedules",
        "input_distribution": kinds,
        "schedules": len(cases),
        "samples": [{"case": cases[i], "impl": outs[i], "model_obs": samp.get(i)} for i in sample_ids if i < len(cases)],
        "correspondence_mismatches": len(mm), "predicate_failures": len(pred_fail),
    })
    rep.assumptions += ["H-HASH not needed: theorems quantify over every digest value"]


def replay(path):
    d = json.load(open(path))
    fi = d.get("failing_input")
    if not fi:
        print("no concrete input in replay file:", d.get("broken"))
        return 1
    c = dict(fi["case"])
    c["views"] = [fi["view"]] if "view" in fi else ["0"]
    common.cargo_build(["leader"], "dev")
    print(json.dumps(common.run_impl("leader", [c], "dev")[0], indent=1))
    return 0
