"""Translator for C09: the .proto files of /repo -> Gallina schema (Gen/Schema.v) + JSON view.

Supports the proto3 subset the repository uses: syntax, package, import, message (nested),
enum, oneof, reserved, optional / repeated / bare fields, map<,> (recorded as LMap so that the
canonical check rejects it), field options (ignored).  Anything else raises ParseError and the
check degrades to correspondence against the last committed schema shape (reported).
"""
import glob
import os
import re

REPO_NODE = "/repo/node"
HERE = os.path.dirname(os.path.abspath(__file__))

PROD_GLOBS = [
    "libs/protobuf/src/proto/**/*.proto",
    "libs/roles/src/proto/**/*.proto",
    "components/network/src/proto/**/*.proto",
]
TEST_FILES = [
    os.path.join(REPO_NODE, "libs/protobuf/src/tests/proto/tests.proto"),
    os.path.join(HERE, "c09_extra.proto"),
]

SCALARS = {
    "int32": "KInt32", "int64": "KInt64", "uint32": "KUint32", "uint64": "KUint64",
    "sint32": "KSint32", "sint64": "KSint64", "bool": "KBool",
    "fixed64": "KFixed64", "sfixed64": "KSfixed64", "double": "KDouble",
    "fixed32": "KFixed32", "sfixed32": "KSfixed32", "float": "KFloat",
    "string": "KString", "bytes": "KBytes",
}


class ParseError(Exception):
    pass


def tokenize(src):
    src = re.sub(r"//[^\n]*", " ", src)
    src = re.sub(r"/\*.*?\*/", " ", src, flags=re.S)
    return re.findall(r'"[^"]*"|[A-Za-z_][\w.]*|\d+|[{}\[\]<>=;,()]|\S', src)


class Msg:
    def __init__(self, full, syntax):
        self.full = full
        self.syntax = syntax
        self.fields = []    # dicts: name, number, type (raw), label, oneof (index or None)
        self.oneofs = []    # names
        self.reserved = []


class File:
    def __init__(self, path):
        self.path = path
        self.syntax = "proto2"
        self.package = ""
        self.messages = []   # flattened, declaration order (parent before nested)
        self.enums = []      # (full name, [(name, number)])


class Parser:
    def __init__(self, path):
        self.f = File(path)
        self.t = tokenize(open(path).read())
        self.i = 0

    def peek(self):
        return self.t[self.i] if self.i < len(self.t) else None

    def eat(self, x=None):
        t = self.peek()
        if t is None or (x is not None and t != x):
            raise ParseError(f"{self.f.path}: expected {x!r}, got {t!r} at token {self.i}")
        self.i += 1
        return t

    def skip_to_semicolon(self):
        while self.eat() != ";":
            pass

    def parse(self):
        while self.peek() is not None:
            t = self.eat()
            if t == "syntax":
                self.eat("=")
                self.f.syntax = self.eat().strip('"')
                self.eat(";")
            elif t == "package":
                self.f.package = self.eat()
                self.eat(";")
            elif t in ("import", "option"):
                self.skip_to_semicolon()
            elif t == "message":
                self.message(self.f.package)
            elif t == "enum":
                self.enum(self.f.package)
            elif t == ";":
                pass
            else:
                raise ParseError(f"{self.f.path}: unsupported top-level construct {t!r}")
        return self.f

    def enum(self, scope):
        name = self.eat()
        full = f"{scope}.{name}" if scope else name
        self.eat("{")
        vals = []
        while self.peek() != "}":
            t = self.eat()
            if t in ("reserved", "option"):
                self.skip_to_semicolon()
                continue
            self.eat("=")
            neg = False
            if self.peek() == "-":
                self.eat()
                neg = True
            n = int(self.eat())
            if self.peek() == "[":
                while self.eat() != "]":
                    pass
            self.eat(";")
            vals.append((t, -n if neg else n))
        self.eat("}")
        self.f.enums.append((full, vals))

    def field_options(self):
        if self.peek() == "[":
            while self.eat() != "]":
                pass

    def field(self, m, label, oneof):
        ty = self.eat()
        if ty == "map":
            self.eat("<")
            self.eat()
            self.eat(",")
            self.eat()
            self.eat(">")
            label = "map"
            ty = "bytes"
        if ty in ("group", "required", "extensions", "extend"):
            raise ParseError(f"{self.f.path}: unsupported construct {ty!r} in {m.full}")
        name = self.eat()
        self.eat("=")
        num = int(self.eat())
        self.field_options()
        self.eat(";")
        m.fields.append({"name": name, "number": num, "type": ty, "label": label, "oneof": oneof})

    def message(self, scope):
        name = self.eat()
        full = f"{scope}.{name}" if scope else name
        m = Msg(full, self.f.syntax)
        self.f.messages.append(m)
        self.eat("{")
        while self.peek() != "}":
            t = self.peek()
            if t == "message":
                self.eat()
                self.message(full)
            elif t == "enum":
                self.eat()
                self.enum(full)
            elif t == "oneof":
                self.eat()
                oname = self.eat()
                idx = len(m.oneofs)
                m.oneofs.append(oname)
                self.eat("{")
                while self.peek() != "}":
                    if self.peek() == "option":
                        self.skip_to_semicolon()
                        continue
                    self.field(m, "oneof", idx)
                self.eat("}")
            elif t == "reserved":
                self.eat()
                while self.peek() != ";":
                    m.reserved.append(self.eat())
                self.eat(";")
            elif t == "option":
                self.skip_to_semicolon()
            elif t == ";":
                self.eat()
            elif t == "optional":
                self.eat()
                self.field(m, "optional", None)
            elif t == "repeated":
                self.eat()
                self.field(m, "repeated", None)
            else:
                self.field(m, "bare", None)
        self.eat("}")


def load(paths):
    return [Parser(p).parse() for p in paths]


def prod_paths():
    ps = []
    for g in PROD_GLOBS:
        ps += glob.glob(os.path.join(REPO_NODE, g), recursive=True)
    return sorted(set(ps))


def resolve(files):
    """Flattens to a schema: list of dicts {name, proto3, fields:[{name, number, kind, msg, label, oneof}]}.
    Type names are resolved with protobuf scoping rules against the messages/enums of `files`."""
    msgs = [m for f in files for m in f.messages]
    index = {m.full: i for i, m in enumerate(msgs)}
    if len(index) != len(msgs):
        raise ParseError("duplicate message name")
    enums = {e[0] for f in files for e in f.enums}

    def lookup(scope, ty):
        if ty.startswith("."):
            cands = [ty[1:]]
        else:
            parts = scope.split(".") if scope else []
            cands = [".".join(parts[:k] + [ty]) for k in range(len(parts), -1, -1)]
        for c in cands:
            if c in index:
                return ("KMessage", c)
            if c in enums:
                return ("KEnum", c)
        raise ParseError(f"unresolved type {ty} in {scope}")

    out = []
    for m in msgs:
        fs = []
        for fd in m.fields:
            if fd["type"] in SCALARS:
                kind, ref = SCALARS[fd["type"]], None
            else:
                kind, ref = lookup(m.full, fd["type"])
            lab = fd["label"]
            if lab == "bare":
                # proto3 singular field without `optional`: messages have presence, scalars do not.
                if m.syntax == "proto3":
                    lab = "optional" if kind == "KMessage" else "implicit"
                else:
                    lab = "optional"
            fs.append({"name": fd["name"], "number": fd["number"], "kind": kind,
                       "msg": ref if kind == "KMessage" else None,
                       "enum": ref if kind == "KEnum" else None,
                       "label": lab, "oneof": fd["oneof"], "type": fd["type"],
                       "keyword": fd["label"] != "bare"})
        out.append({"name": m.full, "proto3": m.syntax == "proto3", "fields": fs,
                    "oneofs": list(m.oneofs), "reserved": list(m.reserved)})
    return out, index


def coq_ident(name):
    return "idx_" + re.sub(r"\W", "_", name)


def coq_schema(defname, schema, index):
    lines = [f"Definition {defname} : ProtoSchema.schema := ["]
    ms = []
    for m in schema:
        fs = []
        for fd in m["fields"]:
            kind = fd["kind"]
            if kind == "KMessage":
                kind = f"(KMessage {index[fd['msg']]})"
            lab = {"optional": "LOptional", "repeated": "LRepeated", "implicit": "LImplicit",
                   "map": "LMap"}.get(fd["label"])
            if fd["label"] == "oneof":
                lab = f"(LOneof {fd['oneof']})"
            fs.append(f'    {{| fname := "{fd["name"]}"; fnum := {fd["number"]}; fkind := {kind}; flabel := {lab} |}}')
        body = ";\n".join(fs)
        ms.append(f'  {{| mname := "{m["name"]}"; mproto3 := {"true" if m["proto3"] else "false"}; mfields := [\n{body}] |}}')
    lines.append(";\n".join(ms))
    lines.append("].")
    return "\n".join(lines)


def translate():
    """Returns (coq_text, info) where info = {prod: schema, prod_index, test: schema, test_index, files}."""
    pfiles = load(prod_paths())
    prod, pindex = resolve(pfiles)
    tfiles = load(TEST_FILES)
    test, tindex = resolve(tfiles)
    out = ["(* GENERATED by gen/proto2coq.py from the .proto files of /repo on every run; do not edit. *)",
           "From Coq Require Import String ZArith List.",
           "From EC Require Import Model.ProtoSchema.",
           "Import ListNotations.",
           "Open Scope Z_scope.",
           "Open Scope string_scope.",
           "",
           "(* " + ", ".join(os.path.relpath(f.path, REPO_NODE) for f in pfiles) + " *)",
           coq_schema("schema", prod, pindex), ""]
    for name, i in pindex.items():
        out.append(f"Definition {coq_ident(name)} : nat := {i}.")
    out += ["", "(* test schema: libs/protobuf/src/tests/proto/tests.proto + /verif/gen/c09_extra.proto *)",
            coq_schema("test_schema", test, tindex), ""]
    info = {
        "prod": prod, "prod_index": pindex, "test": test, "test_index": tindex,
        "files": [os.path.relpath(f.path, REPO_NODE) for f in pfiles],
        "test_files": [{"path": f.path, "package": f.package, "syntax": f.syntax,
                        "messages": [m.full for m in f.messages],
                        "enums": [{"name": e[0], "values": e[1]} for e in f.enums]} for f in tfiles],
        "messages": len(prod), "fields": sum(len(m["fields"]) for m in prod),
    }
    return "\n".join(out) + "\n", info


if __name__ == "__main__":
    text, info = translate()
    print(text)
