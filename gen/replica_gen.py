"""Scenario generator for the replica correspondence (harness bin `replica` vs Model/ReplicaRun.v).

The generator plays every other validator and the network around one replica: it walks through
views (commit rounds and timeout rounds), builds the certificates those rounds produce, and mixes
in stale / future / malformed / Byzantine inputs, timers, block sync, crashes and restarts.
It does not model the replica: whatever the replica does with an input, implementation and model
must agree on it."""
import copy
import json

import common
import msgs as M
from common import Rng, coq_z, coq_list, coq_bool, coq_opt

G, E = 0, 0
U64MAX = (1 << 64) - 1


class Puppet:
    def __init__(self, rng, c, me, first_block, opts):
        self.rng, self.c, self.me, self.F = rng, c, me, first_block
        self.n = len(c)
        self.members = [r for r, _ in c]
        self.non = [r for r in range(16) if r not in self.members]
        self.ops = []
        self.V = 0
        self.J = None            # justification for view self.V (None for view 0)
        self.last_cqc = None
        self.my_vote = None
        self.next_pid = 1
        self.opts = opts
        self.blocks = {}         # number -> (payload id, cqc)
        self.kinds = {}

    # ---- helpers ----
    def note(self, k):
        self.kinds[k] = self.kinds.get(k, 0) + 1

    def leader(self, v):
        return self.c[v % self.n][0]

    def msg(self, key, m, sig_ok=True):
        self.ops.append({"t": "msg", "key": key, "sig_ok": sig_ok, "m": m})

    def quorum_subset(self, order=None):
        idx, w = [], 0
        for i in (order or self.rng.shuffle(list(range(self.n)))):
            if w >= M.quorum(self.c):
                break
            idx.append(i)
            w += self.c[i][1]
        return idx

    def implied(self, j):
        if j is None:
            return None
        if "commit" in j:
            return (int(j["commit"]["msg"]["h"]["n"]) + 1, None)
        t = j["timeout"]
        cnt = {}
        for (tm, s) in t["map"]:
            if tm["hv"] is not None:
                k = (int(tm["hv"]["h"]["n"]), tm["hv"]["h"]["p"])
                cnt[k] = cnt.get(k, 0) + M.weight(self.c, [i for i, b in enumerate(s) if b])
        hv = [k for k, w in cnt.items() if w >= M.subquorum(self.c)]
        hv = hv[0] if len(hv) == 1 else None
        hq = None
        for (tm, s) in t["map"]:
            if tm["hq"] is not None and (hq is None or int(tm["hq"]["msg"]["v"]["n"]) >= int(hq["msg"]["v"]["n"])):
                hq = tm["hq"]
        if hv is not None and (hq is None or hv[0] > int(hq["msg"]["h"]["n"])):
            return (hv[0], hv[1])
        if hq is not None:
            return (int(hq["msg"]["h"]["n"]) + 1, None)
        return (self.F, None)

    def fresh_pid(self):
        self.next_pid += 1
        return self.next_pid

    # ---- rounds ----
    def commit_round(self):
        rng, V = self.rng, self.V
        imp = self.implied(self.J)
        if imp is None:
            return self.timeout_round()
        nblk, oh = imp
        pid = oh if oh is not None else self.fresh_pid()
        L = self.leader(V)
        prop = {"proposal": {"payload": None if oh is not None else pid, "j": self.J}}
        z = rng.below(20)
        if z == 0:
            self.note("proposal:wrong_leader")
            self.msg(self.members[(self.members.index(L) + 1) % self.n], prop)
        elif z == 1:
            self.note("proposal:bad_sig")
            self.msg(L, prop, sig_ok=False)
        elif z == 2:
            self.note("proposal:payload_mismatch")
            p2 = copy.deepcopy(prop)
            p2["proposal"]["payload"] = None if p2["proposal"]["payload"] is not None else 77
            self.msg(L, p2)
        elif z == 3 and oh is None:
            self.note("proposal:oversized")
            p2 = copy.deepcopy(prop); p2["proposal"]["payload"] = 500 + rng.below(100)
            self.msg(L, p2)
        elif z == 4 and oh is None:
            self.note("proposal:invalid_payload")
            p2 = copy.deepcopy(prop); p2["proposal"]["payload"] = 1000 + rng.below(100)
            self.msg(L, p2)
        send_prop = not rng.chance(1, 8)
        if send_prop:
            self.note("proposal:valid?")
            ct = self.opts.get("crash_targets")
            if ct and rng.chance(ct[0], ct[1]):
                # C03: crash at the k-th persist of the proposal step (write applied or not); after
                # the restart the equivocating leader sends a second proposal for the same view,
                # then the first one again
                k, applied = rng.choice([0, 0, 0, 1, 2]), rng.chance(1, 2)
                self.note("crash:proposal k=%d %s" % (k, "applied" if applied else "lost"))
                self.ops.append({"t": "crash", "k": k, "applied": applied,
                                 "op": {"t": "msg", "key": L, "sig_ok": True, "m": prop}})
                p2 = copy.deepcopy(prop)
                if oh is None:
                    p2["proposal"]["payload"] = self.fresh_pid()
                self.note("proposal:equivocation_after_crash")
                self.msg(L, p2)
                if rng.chance(1, 2):
                    self.msg(L, prop)
            else:
                self.msg(L, prop)
            if rng.chance(1, 6):
                self.note("proposal:repeat")
                self.msg(L, prop)
            if rng.chance(1, 10) and oh is None:
                # equivocating leader: a second proposal for the same view
                self.note("proposal:equivocation")
                p2 = copy.deepcopy(prop); p2["proposal"]["payload"] = self.fresh_pid()
                self.msg(L, p2)
        vote = M.commit(M.view(G, E, V), M.header(nblk, pid))
        if send_prop:
            self.my_vote = vote
        order = rng.shuffle(list(range(self.n)))
        sent, w = [], 0
        for i in order:
            r = self.c[i][0]
            z = rng.below(25)
            if z == 0 and self.non:
                self.note("commit:non_member")
                self.msg(rng.choice(self.non), {"commit": vote})
            elif z == 1:
                self.note("commit:bad_sig")
                self.msg(r, {"commit": vote}, sig_ok=False)
            elif z == 2:
                self.note("commit:other_block")
                v2 = copy.deepcopy(vote); v2["h"]["p"] = 900 + rng.below(50)
                self.msg(self.c[rng.below(self.n)][0], {"commit": v2})
            elif z == 3:
                self.note("commit:wrong_epoch")
                v2 = copy.deepcopy(vote); v2["v"]["e"] = "3"
                self.msg(r, {"commit": v2})
            elif z == 4:
                self.note("commit:future_view")
                v2 = copy.deepcopy(vote); v2["v"]["n"] = str(V + rng.range(1, 50))
                self.msg(self.c[rng.below(self.n)][0], {"commit": v2})
            elif z == 5 and V > 0:
                self.note("commit:stale")
                v2 = copy.deepcopy(vote); v2["v"]["n"] = str(rng.below(V))
                self.msg(r, {"commit": v2})
            self.note("commit:valid?")
            ct = self.opts.get("crash_targets")
            if ct and w < M.quorum(self.c) <= w + self.c[i][1] and rng.chance(ct[0], ct[1]):
                # C03: crash at the persist of start_new_view when this vote completes the quorum
                k, applied = rng.choice([0, 0, 0, 1, 2]), rng.chance(1, 2)
                self.note("crash:commit_quorum k=%d %s" % (k, "applied" if applied else "lost"))
                self.ops.append({"t": "crash", "k": k, "applied": applied,
                                 "op": {"t": "msg", "key": r, "sig_ok": True, "m": {"commit": vote}}})
            else:
                self.msg(r, {"commit": vote})
            sent.append(i)
            w += self.c[i][1]
            if rng.chance(1, 10):
                self.note("commit:duplicate")
                self.msg(r, {"commit": vote})
            if w >= M.quorum(self.c) and not rng.chance(1, 6):
                break
        qc = M.valid_cqc(self.c, vote, self.quorum_subset(sent))
        self.last_cqc = qc
        self.blocks[nblk] = (pid, qc)
        self.V = V + 1
        self.J = {"commit": qc}

    def timeout_round(self):
        rng, V = self.rng, self.V
        imp = self.implied(self.J)
        saw_prop = False
        prop_vote = None
        if imp is not None and rng.chance(1, 2):
            nblk, oh = imp
            pid = oh if oh is not None else self.fresh_pid()
            self.note("proposal:before_timeout")
            self.msg(self.leader(V), {"proposal": {"payload": None if oh is not None else pid, "j": self.J}})
            prop_vote = M.commit(M.view(G, E, V), M.header(nblk, pid))
            self.my_vote = prop_vote
            saw_prop = True
        if rng.chance(3, 4):
            self.note("timer")
            ct = self.opts.get("crash_targets")
            if ct and rng.chance(ct[0], ct[1]):
                # C03: crash at the persist of start_timeout, then the proposal of this view again
                k, applied = rng.choice([0, 0, 0, 1, 2]), rng.chance(1, 2)
                self.note("crash:timer k=%d %s" % (k, "applied" if applied else "lost"))
                self.ops.append({"t": "crash", "k": k, "applied": applied, "op": {"t": "timer"}})
                if imp is not None and self.J is not None:
                    nblk2, oh2 = imp
                    self.note("proposal:after_timeout_crash")
                    self.msg(self.leader(V), {"proposal": {"payload": None if oh2 is not None else self.fresh_pid(), "j": self.J}})
            else:
                self.ops.append({"t": "timer"})
        if rng.chance(1, 5):
            self.note("timer:repeat")
            self.ops.append({"t": "timer"})
        # how many of the others saw the proposal (their high vote)
        frac = rng.choice([0, 1, 2, 3])
        msgs_by_member = {}
        for i in range(self.n):
            hv = prop_vote if (saw_prop and rng.below(4) < frac) else self.my_vote_old(i)
            msgs_by_member[i] = M.timeout(M.view(G, E, V), hv, self.last_cqc if rng.chance(5, 6) else None)
        order = rng.shuffle(list(range(self.n)))
        sent, w = [], 0
        for i in order:
            r = self.c[i][0]
            t = msgs_by_member[i]
            z = rng.below(25)
            if z == 0 and self.non:
                self.note("timeout:non_member")
                self.msg(rng.choice(self.non), {"timeout": t})
            elif z == 1:
                self.note("timeout:bad_sig")
                self.msg(r, {"timeout": t}, sig_ok=False)
            elif z == 2 and t["hq"] is not None:
                self.note("timeout:bad_high_qc")
                t2 = copy.deepcopy(t); t2["hq"]["signers"][0] ^= 1
                self.msg(r, {"timeout": t2})
            elif z == 3:
                self.note("timeout:future_view")
                t2 = copy.deepcopy(t); t2["v"]["n"] = str(V + rng.range(1, 50))
                self.msg(self.c[rng.below(self.n)][0], {"timeout": t2})
            elif z == 4:
                self.note("timeout:wrong_genesis")
                t2 = copy.deepcopy(t); t2["v"]["g"] = 5
                self.msg(r, {"timeout": t2})
            self.note("timeout:valid?")
            ct = self.opts.get("crash_targets")
            if ct and w < M.quorum(self.c) <= w + self.c[i][1] and rng.chance(ct[0], ct[1]):
                # C03: crash at the persist of start_new_view when this vote completes the quorum
                k, applied = rng.choice([0, 0, 0, 1, 2]), rng.chance(1, 2)
                self.note("crash:timeout_quorum k=%d %s" % (k, "applied" if applied else "lost"))
                self.ops.append({"t": "crash", "k": k, "applied": applied,
                                 "op": {"t": "msg", "key": r, "sig_ok": True, "m": {"timeout": t}}})
            else:
                self.msg(r, {"timeout": t})
            sent.append(i)
            w += self.c[i][1]
            if rng.chance(1, 10):
                self.note("timeout:duplicate")
                self.msg(r, {"timeout": t})
            if w >= M.quorum(self.c) and not rng.chance(1, 6):
                break
        # the certificate of this round: the first quorum of senders, grouped by message
        idx = self.quorum_subset(sent)
        groups = {}
        for i in idx:
            groups.setdefault(json.dumps(msgs_by_member[i], sort_keys=True), []).append(i)
        entries, agg = [], []
        for k, gr in groups.items():
            t = json.loads(k)
            entries.append((t, [i in gr for i in range(self.n)]))
            agg += [M.sig_timeout(self.c[i][0], t) for i in gr]
        self.V = V + 1
        self.J = {"timeout": M.tqc(M.view(G, E, V), entries, agg)}
        if imp is not None and rng.chance(1, 3):
            # A second TimeoutQC for the SAME view, assembled elsewhere: one of its signers (x) holds a commit
            # certificate for this view's block that formed at x only and that this replica has never been shown.
            # It arrives in the new-view message of the next leader, possibly after the replica has already
            # assembled its own TimeoutQC for the view. (process_timeout_qc must still process the high_qc.)
            nblk, oh = imp
            pidx = prop_vote["h"]["p"] if prop_vote is not None else (oh if oh is not None else self.fresh_pid())
            votex = M.commit(M.view(G, E, V), M.header(nblk, pidx))
            cq = M.valid_cqc(self.c, votex, self.quorum_subset())
            idx2 = self.quorum_subset()
            x = rng.choice(idx2)
            by2 = dict(msgs_by_member)
            by2[x] = M.timeout(M.view(G, E, V), votex, cq)
            groups2 = {}
            for i in idx2:
                groups2.setdefault(json.dumps(by2[i], sort_keys=True), []).append(i)
            entries2, agg2 = [], []
            for k, gr in groups2.items():
                t = json.loads(k)
                entries2.append((t, [i in gr for i in range(self.n)]))
                agg2 += [M.sig_timeout(self.c[i][0], t) for i in gr]
            j2 = {"timeout": M.tqc(M.view(G, E, V), entries2, agg2)}
            self.note("new_view:second_tqc_same_view_higher_commit_qc")
            self.msg(self.leader(V + 1) if rng.chance(3, 4) else rng.choice(self.members), {"new_view": {"j": j2}})
            self.last_cqc = cq
            self.blocks[nblk] = (pidx, cq)
            self.J = j2

    def future_proposal(self):
        """A proposal for a view AHEAD of the current one, justified by a valid TimeoutQC of the view before it:
        signed by the leader of THAT view it must be accepted (the replica jumps there), signed by the leader of the
        replica's current view (when different) it must be refused as InvalidLeader."""
        rng, V = self.rng, self.V
        k = rng.range(1, 3)
        W = V + k                      # the proposal's view; its justification is for W - 1
        t = M.timeout(M.view(G, E, W - 1), self.my_vote if rng.chance(1, 2) else None, self.last_cqc)
        idx = self.quorum_subset()
        tq = M.tqc(M.view(G, E, W - 1), [(t, [i in idx for i in range(self.n)])], [M.sig_timeout(self.c[i][0], t) for i in idx])
        j = {"timeout": tq}
        imp = self.implied(j)
        nblk, oh = imp
        pid = oh if oh is not None else self.fresh_pid()
        prop = {"proposal": {"payload": None if oh is not None else pid, "j": j}}
        wrong = self.leader(V)
        if wrong != self.leader(W) and rng.chance(1, 2):
            self.note("proposal:future_view_signed_by_current_leader")
            self.msg(wrong, prop)
        if rng.chance(2, 3):
            self.note("proposal:future_view")
            self.msg(self.leader(W), prop)
            # the puppet follows: the replica is now in view W having voted
            self.my_vote = M.commit(M.view(G, E, W), M.header(nblk, pid))
            self.V, self.J = W, j
            # everybody else times out in W so that the scenario continues from a consistent state
            self.timeout_round()

    def my_vote_old(self, i):
        return self.my_vote if self.rng.chance(2, 3) else None

    def noise(self):
        rng = self.rng
        z = rng.below(14)
        if z == 0 and self.J is not None:
            self.note("new_view:current")
            self.msg(rng.choice(self.members), {"new_view": {"j": self.J}})
        elif z == 1 and self.J is not None:
            self.note("new_view:bad_sig")
            self.msg(rng.choice(self.members), {"new_view": {"j": self.J}}, sig_ok=False)
        elif z == 2 and self.J is not None and "commit" in self.J:
            self.note("new_view:corrupt_qc")
            j = copy.deepcopy(self.J); j["commit"]["signers"][rng.below(self.n)] ^= 1
            self.msg(rng.choice(self.members), {"new_view": {"j": j}})
        elif z == 3:
            self.note("timer:noise")
            self.ops.append({"t": "timer"})
        elif z == 4 and self.opts.get("crash"):
            # crash at a persist point of the next real operation: applied below by wrapping
            self.pending_crash = (rng.below(3), rng.chance(1, 2))
        elif z == 5 and (self.opts.get("crash") or self.opts.get("restarts")):
            self.note("restart")
            self.ops.append({"t": "restart"})
        elif z == 6 and self.blocks:
            nb = rng.choice(sorted(self.blocks))
            pid, qc = self.blocks[nb]
            self.note("sync")
            self.ops.append({"t": "sync", "n": str(nb), "payload": pid, "qc": qc})
        elif z == 7 and self.J is not None and self.non:
            self.note("new_view:non_member")
            self.msg(rng.choice(self.non), {"new_view": {"j": self.J}})
        elif z == 8 and self.last_cqc is not None and self.opts.get("extreme"):
            self.note("extreme:view_max")
            q = copy.deepcopy(self.last_cqc); q["msg"]["v"]["n"] = str(U64MAX - rng.below(2))
            q["agg"] = [M.sig_commit(s["k"], q["msg"]) for s in q["agg"]]
            kind = rng.choice(["new_view", "proposal"])
            if kind == "new_view":
                self.msg(rng.choice(self.members), {"new_view": {"j": {"commit": q}}})
            else:
                self.msg(rng.choice(self.members), {"proposal": {"payload": 3, "j": {"commit": q}}})
        elif z == 9 and self.opts.get("extreme"):
            self.note("extreme:commit_view_max")
            v = M.commit(M.view(G, E, U64MAX), M.header(U64MAX, 1))
            self.msg(rng.choice(self.members), {"commit": v})

    # ---- flood (C16; only with opts["flood"], draws no randomness otherwise) ----
    def flood_setup(self, rounds):
        """Byzantine members: a random subset (1..opts["flood"]["byz"] members) whose weight stays
        below the quorum (so that they never complete a certificate on their own), each with its
        own rising view counter per message kind; about opts["flood"]["votes"] flood votes per
        scenario, shared between them."""
        f, rng = self.opts["flood"], self.rng
        want = rng.range(1, f.get("byz", 3))
        byz, w = [], 0
        for i in rng.shuffle(list(range(self.n))):
            if len(byz) < want and w + self.c[i][1] < M.quorum(self.c):
                byz.append(i)
                w += self.c[i][1]
        self.byz = byz
        base = rng.choice([2, 2, 60, 10 ** 6, 1 << 40, U64MAX - 10 ** 6])
        self.fl_off = {(i, k): base + rng.below(3) for i in byz for k in (0, 1)}
        self.fl_turn = 0
        self.fl_turns = max(1, (2 * f.get("votes", 200)) // (3 * rounds * max(1, len(byz))))

    def flood_burst(self, turns):
        """Every Byzantine member sends one validly signed vote per turn for a view nobody is in,
        commit and timeout votes alternating, views rising (mostly by 1, so that members meet in
        the same view and share or split certificates); now and then a vote for a view at or below
        the member's last one (must be refused), a badly signed one, or one from a non-member."""
        rng = self.rng
        for _ in range(turns):
            self.fl_turn += 1
            for i in self.byz:
                r = self.c[i][0]
                kind = (self.fl_turn + i) % 2
                z = rng.below(16)
                if z == 0:
                    self.note("flood:not_newer")
                    off = max(0, self.fl_off[(i, kind)] - rng.below(3))
                else:
                    self.fl_off[(i, kind)] += rng.choice([1, 1, 1, 1, 2, 5])
                    off = self.fl_off[(i, kind)]
                v = min(self.V + off, U64MAX - 1)
                if kind == 0:
                    pid = 7000 + (r if rng.chance(1, 2) else 0)
                    m = {"commit": M.commit(M.view(G, E, v), M.header(v % 1000, pid))}
                    self.note("flood:commit")
                else:
                    m = {"timeout": M.timeout(M.view(G, E, v), None, self.last_cqc if rng.chance(1, 8) else None)}
                    self.note("flood:timeout")
                if z == 1:
                    self.note("flood:bad_sig")
                    self.msg(r, m, sig_ok=False)
                elif z == 2 and self.non:
                    self.note("flood:non_member")
                    self.msg(rng.choice(self.non), m)
                self.msg(r, m)

    def run(self, rounds):
        self.pending_crash = None
        flood = self.opts.get("flood")
        if flood:
            self.flood_setup(rounds)
        for _ in range(rounds):
            start = len(self.ops)
            if flood and self.rng.chance(1, 2):
                self.flood_burst(self.fl_turns)
            if self.J is not None and not flood and self.rng.chance(1, 9):
                self.future_proposal()
            elif self.rng.chance(7, 10) and self.J is not None:
                self.commit_round()
            else:
                self.timeout_round()
            if flood:
                self.flood_burst(self.fl_turns)
            for _ in range(self.rng.below(3)):
                self.noise()
            cm = self.opts.get("crash_more")
            if cm and self.pending_crash is None and self.rng.chance(cm[0], cm[1]):
                # C03: more crashes at a persist point of a random operation of this round
                self.pending_crash = (self.rng.choice([0, 0, 0, 1, 2]), self.rng.chance(1, 2))
            # occasionally a lagging replica is brought up to date only by a new-view message
            if self.rng.chance(1, 8) and self.J is not None:
                self.note("new_view:catch_up")
                self.msg(self.rng.choice(self.members), {"new_view": {"j": self.J}})
            if self.pending_crash is not None and len(self.ops) > start:
                k, applied = self.pending_crash
                i = start + self.rng.below(len(self.ops) - start)
                if self.ops[i]["t"] in ("msg", "timer"):
                    self.note("crash")
                    self.ops[i] = {"t": "crash", "k": k, "applied": applied, "op": self.ops[i]}
                self.pending_crash = None
        return self.ops


def gen_case(rng, opts):
    n = rng.choice([1, 2, 3, 4, 4, 5, 6, 6, 7] if not opts.get("flood") else [2, 4, 4, 5, 6, 6, 7, 7])
    ranks = sorted(rng.shuffle(list(range(16)))[:n])
    style = rng.below(3)
    c = [(r, 1 if style == 0 else (rng.range(1, 4) if style == 1 else rng.range(1, 30))) for r in ranks]
    me = rng.choice(ranks)
    F = rng.choice([0, 0, 1, 7])
    store_first = F if not rng.chance(1, 10) else F + rng.range(1, 3)
    p = Puppet(rng, c, me, F, opts)
    ops = p.run(opts.get("rounds", 6))
    return {"committee": M.committee_json(c), "me": me, "first_block": str(F), "store_first": str(store_first),
            "max_payload": 100, "durable": None, "ops": ops, "_c": c, "_kinds": p.kinds}


# ---------- normalisation of TimeoutQC entry order (BTreeMap iteration order) ----------
def find_tqcs(x, out):
    if isinstance(x, dict):
        if "map" in x and "agg" in x and "v" in x:
            out.append(x)
        for v in x.values():
            find_tqcs(v, out)
    elif isinstance(x, list):
        for v in x:
            find_tqcs(v, out)


def normalize_orders(cases):
    tq = []
    for c in cases:
        find_tqcs(c["ops"], tq)
        if c.get("durable"):
            find_tqcs(c["durable"], tq)
    uniq = {}
    for t in tq:
        uniq.setdefault(json.dumps(t, sort_keys=True), []).append(t)
    keys = list(uniq)
    reqs = [{"op": "order", "g": 0, "committee": [[0, "1"]], "qc": json.loads(k)} for k in keys]
    outs = common.run_impl("qc", reqs, "dev")
    for k, o in zip(keys, outs):
        order = o["order"]
        for t in uniq[k]:
            t["map"] = [t["map"][i] for i in order]


# ---------- Coq rendering ----------
def c_cmsg(m):
    if "proposal" in m:
        p = m["proposal"]
        return "MProposal %s (%s)" % (coq_opt(None if p["payload"] is None else coq_z(p["payload"])), M.c_justification(p["j"]))
    if "commit" in m:
        return "MCommit %s" % M.c_commit(m["commit"])
    if "timeout" in m:
        return "MTimeout %s" % M.c_timeout(m["timeout"])
    return "MNewView (%s)" % M.c_justification(m["new_view"]["j"])


def c_input(op):
    t = op["t"]
    if t == "timer":
        return "ITimer"
    if t == "sync":
        return "ISync %s %s" % (coq_z(op["n"]), coq_z(op["payload"]))
    return "IMsg {| m_key := %d; m_sig_ok := %s; m_msg := %s |}" % (op["key"], coq_bool(op["sig_ok"]), c_cmsg(op["m"]))


def c_op(op):
    t = op["t"]
    if t == "restart":
        return "OpRestart"
    if t == "crash":
        return "OpCrash (%s) %d%%nat %s" % (c_input(op["op"]), op["k"], coq_bool(op["applied"]))
    return "OpIn (%s)" % c_input(op)


def c_durable(d):
    if d is None:
        return "durable_default"
    return ("{| d_epoch := %s; d_view := %s; d_phase := %s; d_high_vote := %s; d_high_cqc := %s; d_high_tqc := %s; d_proposals := %s |}" % (
        coq_z(d["epoch"]), coq_z(d["view"]), ["Prepare", "PCommit", "PTimeout"][d["phase"]],
        coq_opt(None if d["high_vote"] is None else M.c_commit(d["high_vote"])),
        coq_opt(None if d["high_cqc"] is None else M.c_cqc(d["high_cqc"])),
        coq_opt(None if d["high_tqc"] is None else M.c_tqc(d["high_tqc"])),
        coq_list(["(%s, %s)" % (coq_z(p[0]), coq_z(p[1])) for p in d["proposals"]])))


def c_case(case, chk=True):
    cfg = ("{| cg := 0; ce := 0; cC := %s; cme := %d; cfirst := %s; cmaxpay := %d; "
           "cpsize := (fun p => if p <? 500 then 20 else 320); cpok := (fun _ p => p <? 1000); cchk := %s |}" % (
               M.c_committee(case["_c"]), case["me"], coq_z(case["first_block"]), case["max_payload"], coq_bool(chk)))
    return "(%s, %s, %s, %s, %s)" % (cfg, c_durable(case.get("durable")), coq_z(case["store_first"]),
                                     coq_z(case["store_first"]), coq_list([c_op(o) for o in case["ops"]]))


def strip(case):
    return {k: v for k, v in case.items() if not k.startswith("_")}
